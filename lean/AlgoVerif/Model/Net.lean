/-
Model.Net — executable model of the receive path of a gossip peer (property C43).

Mirrors, function by function:
  network/limited_reader_slurper.go   MakeLimitedReaderSlurper / Read / Size / Reset / Bytes / allocateNextBuffer
  network/messageFilter.go            makeMessageFilter / CheckIncomingMessage / CheckDigest / find
  network/wsPeer.go:readLoop          io.ReadFull(tag) → Reset(tag.MaxMessageSize()) → Read → switch tag → dedup → readBuffer
  protocol/tags.go:MaxMessageSize     a tag→limit table (regenerated into Gen/Tags.lean), default 0

Modelling decisions (all visible to the theorems, none hidden in a total function):
  * Go `[]byte` buffers are `Buf` = contents + capacity; Go guarantees len ≤ cap for a slice, so the
    "buffer is full" test `len == cap` is modelled as `cap ≤ len`.
  * The slurper is polymorphic in the byte type: it can only move bytes, never inspect them.
  * An `io.Reader` is a remaining stream plus a script of per-call behaviours (`RStep`): how many bytes the
    call returns at most (possibly 0, possibly fewer than offered), whether EOF is reported together
    with the last bytes, or a non-EOF error. When the script is exhausted the reader fills whatever it is offered
    and then reports `0, io.EOF`. Every chunking of a finite message is one such script.
  * uint64 counters are `Nat`: `currentMessageBytesRead` would need 2^64 bytes read to wrap.
  * Index-out-of-range on `buffers` (Go panic) is the explicit result `ReadResult.panic`.
  * The loops of `Read` and `io.ReadFull` run on explicit fuel = script length + stream length + 1; `outOfFuel` is an
    explicit result and is proved unreachable (`Props.C43.read_never_out_of_fuel`).
Core Lean only (linked into the driver executable `c43`).
-/
import AlgoVerif.Gen.Tags
namespace Model.Net

/-! ## io.Reader over an arbitrary chunking -/

/-- behaviour of one `Read(p)` call of the reader -/
inductive RStep where
  /-- return at most `n` bytes (and at most `len p`), `err = nil`; on an exhausted stream this is `0, nil` -/
  | chunk (n : Nat)
  /-- return at most `n` bytes; `err = io.EOF` iff the stream is exhausted after this call -/
  | chunkEof (n : Nat)
  /-- return at most `n` bytes together with a non-EOF error -/
  | fail (n : Nat)
deriving Repr, DecidableEq

inductive RErr where
  | nil | eof | other
deriving Repr, DecidableEq

structure Reader (α : Type) where
  stream : List α
  script : List RStep

/-- one `reader.Read(p)` with `len p = space` -/
def Reader.read {α : Type} (r : Reader α) (space : Nat) : List α × RErr × Reader α :=
  match r.script with
  | [] =>
      if r.stream.isEmpty then ([], RErr.eof, r)
      else (r.stream.take space, RErr.nil, { r with stream := r.stream.drop space })
  | RStep.chunk n :: t =>
      let m := min n space
      (r.stream.take m, RErr.nil, { stream := r.stream.drop m, script := t })
  | RStep.chunkEof n :: t =>
      let m := min n space
      let rest := r.stream.drop m
      (r.stream.take m, if rest.isEmpty then RErr.eof else RErr.nil, { stream := rest, script := t })
  | RStep.fail n :: t =>
      let m := min n space
      (r.stream.take m, RErr.other, { stream := r.stream.drop m, script := t })

/-- termination measure of every loop that keeps calling `Read` until EOF -/
def Reader.measure {α : Type} (r : Reader α) : Nat := r.script.length + r.stream.length

/-! ## LimitedReaderSlurper -/

/-- `const allocationStep = uint64(64 * 1024)`: extracted from the current source (Gen/Tags.lean) -/
def allocationStep : Nat := Gen.Tags.allocationStep

structure Buf (α : Type) where
  data : List α
  cap : Nat

structure Slurper (α : Type) where
  /-- remainedUnallocatedSpace -/
  remained : Nat
  /-- currentMessageBytesRead -/
  bytesRead : Nat
  /-- currentMessageMaxSize (0 = no per-message limit) -/
  maxSize : Nat
  /-- len(buffers) -/
  slots : Nat
  /-- buffers[0] -/
  base : Buf α
  /-- buffers[lastBuffer], …, buffers[1] (most recently allocated first); lastBuffer = extra.length -/
  extra : List (Buf α)

inductive ReadResult where
  | ok | tooLarge | ioErr | panic | outOfFuel
deriving Repr, DecidableEq

namespace Slurper
variable {α : Type}

/-- MakeLimitedReaderSlurper -/
def make (baseAllocation maxAllocation : Nat) : Slurper α :=
  let b := if baseAllocation > maxAllocation then maxAllocation else baseAllocation
  { remained := maxAllocation - b
    bytesRead := 0
    maxSize := 0
    slots := 1 + (maxAllocation - b + allocationStep - 1) / allocationStep
    base := { data := [], cap := b }
    extra := [] }

/-- buffers[lastBuffer] -/
def cur (s : Slurper α) : Buf α :=
  match s.extra with
  | [] => s.base
  | b :: _ => b

/-- buffers[lastBuffer] = b -/
def setCur (s : Slurper α) (b : Buf α) : Slurper α :=
  match s.extra with
  | [] => { s with base := b }
  | _ :: t => { s with extra := b :: t }

/-- Size() -/
def size (s : Slurper α) : Nat :=
  s.base.data.length + (s.extra.map (fun b => b.data.length)).sum

/-- total capacity currently allocated: Σ cap(buffers[i]) -/
def capacity (s : Slurper α) : Nat :=
  s.base.cap + (s.extra.map (fun b => b.cap)).sum

/-- Bytes() -/
def bytes (s : Slurper α) : List α :=
  s.base.data ++ (s.extra.reverse.map (fun b => b.data)).flatten

/-- Reset(n) -/
def reset (s : Slurper α) (n : Nat) : Slurper α :=
  { s with
    remained := s.remained + (s.extra.map (fun b => b.cap)).sum
    maxSize := n
    bytesRead := 0
    base := { data := [], cap := s.base.cap }
    extra := [] }

/-- allocateNextBuffer; `none` = index out of range on `buffers` (Go panics) -/
def allocateNext (s : Slurper α) : Option (Slurper α) :=
  if s.extra.length + 1 < s.slots then
    let sz := min allocationStep s.remained
    some { s with extra := { data := [], cap := sz } :: s.extra, remained := s.remained - sz }
  else none

inductive StepOut (α : Type) where
  | cont (s : Slurper α) (r : Reader α)
  | done (res : ReadResult) (s : Slurper α) (r : Reader α)

/-- the part of one loop iteration of `Read` after a buffer with room was secured -/
def readInto (s : Slurper α) (r : Reader α) : StepOut α :=
  let c := s.cur
  let out := r.read (c.cap - c.data.length)
  let bs := out.1
  let err := out.2.1
  let r' := out.2.2
  let s1 := { s with bytesRead := s.bytesRead + bs.length }
  if s1.maxSize > 0 ∧ s1.bytesRead > s1.maxSize then StepOut.done ReadResult.tooLarge s1 r'
  else
    match err with
    | RErr.eof => StepOut.done ReadResult.ok (s1.setCur { data := c.data ++ bs, cap := c.cap }) r'
    | RErr.other => StepOut.done ReadResult.ioErr s1 r'
    | RErr.nil => StepOut.cont (s1.setCur { data := c.data ++ bs, cap := c.cap }) r'

/-- one iteration of the `for` loop of `Read` -/
def step (s : Slurper α) (r : Reader α) : StepOut α :=
  if s.cur.cap ≤ s.cur.data.length then
    if s.remained = 0 then
      -- we ran out of memory, but is there any more data ?  reader.Read(make([]byte, 1))
      let out := r.read 1
      let bs := out.1
      let err := out.2.1
      let r' := out.2.2
      if bs.length > 0 then StepOut.done ReadResult.tooLarge s r'
      else
        match err with
        | RErr.eof => StepOut.done ReadResult.ok s r'
        | RErr.nil => StepOut.cont s r'
        | RErr.other => StepOut.done ReadResult.ioErr s r'
    else
      match s.allocateNext with
      | none => StepOut.done ReadResult.panic s r
      | some s' => s'.readInto r
  else s.readInto r

def loop : Nat → Slurper α → Reader α → ReadResult × Slurper α × Reader α
  | 0, s, r => (ReadResult.outOfFuel, s, r)
  | f + 1, s, r =>
      match s.step r with
      | StepOut.done res s' r' => (res, s', r')
      | StepOut.cont s' r' => loop f s' r'

/-- Read(reader) -/
def read (s : Slurper α) (r : Reader α) : ReadResult × Slurper α × Reader α :=
  loop (r.measure + 1) s r

end Slurper

/-! ## messageFilter -/

structure Filter (δ : Type) where
  /-- buckets[i] as the list of its keys (a nil map reads as empty; writes only ever go to buckets[currentTopBucket],
      which is always allocated) -/
  buckets : List (List δ)
  maxBucketSize : Nat
  /-- currentTopBucket -/
  top : Nat

namespace Filter
variable {δ : Type} [DecidableEq δ]

/-- makeMessageFilter; `none` = `mf.buckets[0]` on an empty slice (Go panics) -/
def make (bucketsCount maxBucketSize : Nat) : Option (Filter δ) :=
  if bucketsCount = 0 then none
  else some { buckets := List.replicate bucketsCount [], maxBucketSize := maxBucketSize, top := 0 }

def bucketHas (f : Filter δ) (idx : Nat) (d : δ) : Bool :=
  match f.buckets[idx]? with
  | some b => b.contains d
  | none => false

/-- the order in which `find` visits bucket indices: (top + i) % n for i = n, n-1, …, 1 -/
def searchOrder (f : Filter δ) : List Nat :=
  let n := f.buckets.length
  (List.range n).map (fun k => (f.top + (n - k)) % n)

/-- find: index of the first visited bucket that has the digest -/
def find (f : Filter δ) (d : δ) : Option Nat :=
  f.searchOrder.find? (fun idx => f.bucketHas idx d)

/-- buckets[top][d] = struct{}{}   (map insert: no effect if present) -/
def insertTop (f : Filter δ) (d : δ) : Filter δ :=
  { f with buckets := f.buckets.modify f.top (fun b => if b.contains d then b else d :: b) }

/-- delete(buckets[idx], d) -/
def deleteAt (f : Filter δ) (idx : Nat) (d : δ) : Filter δ :=
  { f with buckets := f.buckets.modify idx (fun b => b.erase d) }

def topLen (f : Filter δ) : Nat :=
  match f.buckets[f.top]? with
  | some b => b.length
  | none => 0

/-- currentTopBucket = (currentTopBucket + len - 1) % len ; buckets[currentTopBucket] = make(map) -/
def rotate (f : Filter δ) : Filter δ :=
  let n := f.buckets.length
  let t := (f.top + n - 1) % n
  { f with top := t, buckets := f.buckets.set t [] }

/-- CheckDigest -/
def checkDigest (f : Filter δ) (d : δ) (add promote : Bool) : Filter δ × Bool :=
  let r := f.find d
  if !add then (f, r.isSome)
  else
    let f1 :=
      match r with
      | none => f.insertTop d
      | some idx => if promote && f.top != idx then (f.deleteAt idx d).insertTop d else f
    let f2 := if f1.topLen ≥ f1.maxBucketSize then f1.rotate else f1
    (f2, r.isSome)

/-- CheckIncomingMessage: digest = H(nonce ‖ tag ‖ msg) with `H` the hash (a parameter) -/
def checkIncomingMessage {β : Type} (H : List β → δ) (nonce : List β) (f : Filter δ)
    (tag msg : List β) (add promote : Bool) : Filter δ × Bool :=
  f.checkDigest (H (nonce ++ tag ++ msg)) add promote

end Filter

/-! ## read loop: tag, per-tag limit, dispatch, dedup -/

/-- `Tag.MaxMessageSize()` over a tag table: `default: return 0 // Unknown tag` -/
def limitOf {τ : Type} [DecidableEq τ] (table : List (τ × Nat)) (tag : τ) : Nat :=
  match table.lookup tag with
  | some n => n
  | none => 0

/-- io.ReadFull(reader, buf[:k]) as ReadAtLeast: keep reading while fewer than `k` bytes and no error;
    `none` = error (EOF / ErrUnexpectedEOF / reader error) -/
def readFull {α : Type} : Nat → Reader α → Nat → List α → Option (List α) × Reader α
  | 0, r, _, _ => (none, r)
  | f + 1, r, k, got =>
      if got.length ≥ k then (some got, r)
      else
        let out := r.read (k - got.length)
        let got' := got ++ out.1
        let r' := out.2.2
        match out.2.1 with
        | RErr.nil => readFull f r' k got'
        | _ => if got'.length ≥ k then (some got', r') else (none, r')

/-- what the read loop does with a message once it was read and (not) decompressed -/
inductive Dispatch where
  /-- goes on towards readBuffer (subject to dedup) -/
  | deliver
  /-- consumed inside the read loop or dropped (MI, TS, MS, VP with stateful compression off, unknown tags) -/
  | internal
deriving Repr, DecidableEq

inductive Outcome (α : Type) where
  | delivered (tag : List α) (data : List α)
  | dropped
  | closed
deriving Repr

structure PeerState (α : Type) where
  slurper : Slurper α
  alive : Bool

/-- One iteration of `readLoop` for one websocket message = (stream, chunking), in the configuration of the
    harness: no compression negotiated (decompress = identity on the generated messages), no topic request
    outstanding (a TS message closes the connection before it is read).
    `dispatch` is the `switch msg.Tag` (which tags continue to the dedup / readBuffer stage),
    `dedupSafe` is `dedupSafeTag`, `closesEarly` is the TS rule. The filter is shared by all peers. -/
def readLoopMsg {α δ : Type} [DecidableEq α] [DecidableEq δ]
    (table : List (List α × Nat)) (dispatch : List α → Dispatch) (dedupSafe closesEarly : List α → Bool)
    (H : List α → δ) (nonce : List α)
    (p : PeerState α) (flt : Option (Filter δ)) (r : Reader α) :
    Outcome α × PeerState α × Option (Filter δ) :=
  if !p.alive then (Outcome.closed, p, flt)
  else
    match readFull (r.measure + 1) r 2 [] with
    | (none, _) => (Outcome.closed, { p with alive := false }, flt)
    | (some tag, r1) =>
      if closesEarly tag then (Outcome.closed, { p with alive := false }, flt)
      else
        let s0 := p.slurper.reset (limitOf table tag)
        match s0.read r1 with
        | (ReadResult.ok, s1, _) =>
          let data := s1.bytes
          let p1 : PeerState α := { p with slurper := s1 }
          match dispatch tag with
          | Dispatch.internal => (Outcome.dropped, p1, flt)
          | Dispatch.deliver =>
            match flt with
            | some f =>
              if data.length > 0 && dedupSafe tag then
                let (f', dup) := f.checkIncomingMessage H nonce tag data true true
                if dup then (Outcome.dropped, p1, some f') else (Outcome.delivered tag data, p1, some f')
              else (Outcome.delivered tag data, p1, flt)
            | none => (Outcome.delivered tag data, p1, flt)
        | (_, s1, _) => (Outcome.closed, { p with slurper := s1, alive := false }, flt)

/-! ## the configuration of `wsPeer.readLoop` in the current source -/

def tagBytes (s : String) : List Nat := s.toList.map Char.toNat

/-- `Tag.MaxMessageSize()` restricted to protocol.TagList, regenerated from the source (tie F) -/
def wsTable : List (List Nat × Nat) := Gen.Tags.tagList.map (fun p => (tagBytes p.1, p.2))

/-- the tags the `switch msg.Tag` of readLoop lets continue to the dedup filter and readBuffer -/
def wsDeliverTags : List String := ["TX", "AV", "PP", "NP", "SP", "UE", "VB", "NI"]

/-- `switch msg.Tag`: MI / TS / MS are consumed by the read loop, VP is dropped while stateful vote compression is
    not negotiated, unknown tags are dropped -/
def wsDispatch (tag : List Nat) : Dispatch :=
  if (wsDeliverTags.map tagBytes).contains tag then Dispatch.deliver else Dispatch.internal

/-- dedupSafeTag -/
def wsDedupSafe (tag : List Nat) : Bool := (Gen.Tags.dedupSafeTags.map tagBytes).contains tag

/-- a TS message with no outstanding request makes `outstandingTopicRequests` negative: disconnect before reading -/
def wsClosesEarly (tag : List Nat) : Bool := tag == tagBytes "TS"

/-- the slurper of readLoop: MakeLimitedReaderSlurper(averageMessageLength, MaxMessageLength) -/
def wsSlurper {α : Type} : Slurper α := Slurper.make Gen.Tags.averageMessageLength Gen.Tags.maxMessageLength

end Model.Net
