/-
Model of the catchpoint tracker's label production, AS CODED (ledger/catchpointtracker.go):

  * the LABEL as a function of the history:  `Hist.label H p hist r`
      leaves   = `Entry.leaf H` (C15 pre-images, Model.CatchpointHash) of the rows of the state at r − lookback,
      root     = `MerkleTrie.canonRoot H leaves`  (C17: the canonical trie of the leaf SET),
      label    = `makeLabel H ver r ⟨blockHash r, root, enc totals, spHash, onlineAccountsHash, onlineRoundParamsHash⟩`;
  * the BOOKKEEPING state machine `Tr` with the steps the real tracker performs:
      newBlock                      (`Ev.block`:   roundDigest grows, reenableCatchpointsRound is fixed by the first block seen)
      produceCommittingTask         (`calcFirstStageRounds` = calculateFirstStageRounds, `catchpointRounds` = calculateCatchpointRounds)
      commitRound (one DB txn)      (`Ev.commit t`: accounts rows, balances trie (accountsUpdateBalances: per changed key delete the old
                                     leaf, add the new one; Commit), CatchpointStateWritingFirstStageInfo, catchpoint lookback, unfinished
                                     catchpoint records — all or nothing)
      postCommit / postCommitUnlocked (`Ev.tick` executes ONE pending action: trie evict, finishFirstStage, finishCatchpoint r, prune)
      crash / restart               (`Ev.crash en`: volatile state lost — pending work, the uncommitted trie image, reenableCatchpointsRound —
                                     the node comes up with catchpoint tracking ENABLED or DISABLED (`en`; CatchpointTracking / interval of
                                     the new lifetime), initializeHashes: the balances trie is reset — and rebuilt from the rows when tracking
                                     is enabled — iff the accounts hash round (`hashRound`, "hashbase") differs from the DB round; then
                                     recoverFromCrash: finishFirstStageAfterCrash, finishCatchpointsAfterCrash, prune.  While tracking is
                                     disabled commitRound leaves the trie alone and stamps hash round 0.)
      trie housekeeping             (`Ev.trie op`: Commit / Evict / reload of the trie object at any time: page and cache configurations
                                     only influence WHEN these happen)
    A flush schedule, the restart points and the trie configuration are exactly the event list.
The hash is a parameter `H` (crypto.Hash, SHA-512/256, used for leaves, trie nodes and the label).
Totals and the three verification hashes of a round are data of the history (`Aux`): they are read from the tracker DB at the
DB round; how the DB computes them is not modelled.
Core Lean only.
-/
import AlgoVerif.Model.CatchpointHash
import AlgoVerif.Model.MerkleTrie
namespace Model.Catchpoint
open Model.CatchpointHash Model.MerkleTrie

/-- primary key of a row of the accounts / resources / kvstore tables -/
inductive RowKey where
  | account (addr : Bytes)
  | resource (addr : Bytes) (cidx : Nat)
  | kv (key : Bytes)
  deriving DecidableEq, Repr

def entryKey : Entry → RowKey
  | .account a _ _ _ => .account a
  | .resource _ a c _ _ => .resource a c
  | .kv k _ => .kv k

/-- one row change caused by a block -/
inductive Change where
  | put (e : Entry)
  | del (k : RowKey)
  deriving DecidableEq, Repr

def Change.key : Change → RowKey
  | .put e => entryKey e
  | .del k => k

abbrev Rows := List Entry

def lookupRow (rows : Rows) (k : RowKey) : Option Entry := rows.find? fun e => entryKey e = k

def applyChange (rows : Rows) : Change → Rows
  | .put e => e :: rows.filter fun x => entryKey x ≠ entryKey e
  | .del k => rows.filter fun x => entryKey x ≠ k

/-- totals (encoded) and the verification hashes of the tracker DB at one round -/
structure Aux where
  totals : Bytes
  sp : Bytes
  oa : Bytes
  orp : Bytes
  deriving DecidableEq, Repr

/-- what block `k` contributes -/
structure RoundData where
  blockHash : Bytes
  changes : List Change
  aux : Aux
  deriving Repr

structure Hist where
  genesis : Rows
  genesisAux : Aux
  rounds : List RoundData

def applyRound (rows : Rows) (rd : RoundData) : Rows := rd.changes.foldl applyChange rows

/-- state after round `a` (rounds beyond the history add nothing) -/
def Hist.stateAt (h : Hist) (a : Nat) : Rows := (h.rounds.take a).foldl applyRound h.genesis

def Hist.auxAt (h : Hist) (a : Nat) : Aux :=
  match (h.rounds.take a).getLast? with
  | some rd => rd.aux
  | none => h.genesisAux

/-- digest of block `r` (rounds are numbered from 1) -/
def Hist.blockHash (h : Hist) (r : Nat) : Option Bytes :=
  match r with
  | 0 => none
  | r + 1 => h.rounds[r]?.map (·.blockHash)

structure Params where
  interval : Nat
  lookback : Nat
  /-- label version: 6, 7, otherwise current -/
  ver : Nat
  deriving Repr

/-- the catchpointfirststageinfo record, as far as the label uses it -/
structure Info where
  root : Bytes
  aux : Aux
  deriving DecidableEq, Repr

def leavesOf (H : Bytes → Bytes) (rows : Rows) : List Bytes := rows.map (Entry.leaf H)

/-- first-stage info of round `a` as a function of the history -/
def infoAt (H : Bytes → Bytes) (h : Hist) (a : Nat) : Info :=
  ⟨canonRoot H (leavesOf H (h.stateAt a)), h.auxAt a⟩

/-- createCatchpoint: label maker + MakeLabel -/
def labelOf (H : Bytes → Bytes) (p : Params) (r : Nat) (bh : Bytes) (i : Info) : String :=
  makeLabel H p.ver r ⟨bh, i.root, i.aux.totals, i.aux.sp, i.aux.oa, i.aux.orp⟩

/-- **the label of catchpoint round `r` as a function of the history** (`none`: no such catchpoint) -/
def Hist.label (H : Bytes → Bytes) (p : Params) (h : Hist) (r : Nat) : Option String :=
  if p.lookback < r then (h.blockHash r).map fun bh => labelOf H p r bh (infoAt H h (r - p.lookback)) else none

/-! ### produceCommittingTask -/

structure FirstStage where
  has : Bool
  multi : Bool
  newOffset : Nat
  deriving DecidableEq, Repr

/-- calculateFirstStageRounds (int64 arithmetic on non-negative operands; `interval = 0` is the early return of
produceCommittingTask). -/
def calcFirstStageRounds (oldBase offset reenable interval lookback : Nat) : FirstStage :=
  if reenable = 0 ∨ interval = 0 then ⟨false, false, offset⟩ else
  let minFS := if lookback < reenable ∧ oldBase + 1 < reenable - lookback then reenable - lookback else oldBase + 1
  let first : Int := ((minFS + lookback + interval - 1) / interval * interval : Nat) - (lookback : Int)
  let last : Int := ((oldBase + offset + lookback) / interval * interval : Nat) - (lookback : Int)
  if first ≤ last then ⟨true, decide (first < last), (last - (oldBase : Int)).toNat⟩ else ⟨false, false, offset⟩

/-- calculateCatchpointRounds over `[max (oldBase+1) (lookback+1), oldBase+offset]` -/
def catchpointRounds (oldBase offset lookback interval : Nat) : List Nat :=
  if interval = 0 then [] else
  let mn := if oldBase + 1 < lookback + 1 then lookback + 1 else oldBase + 1
  let mx := oldBase + offset
  let l := (mn + interval - 1) / interval
  let r := mx / interval
  if r < l then [] else (List.range (r + 1 - l)).map fun i => (l + i) * interval

/-! ### the tracker -/

inductive TrieOp where
  | commit
  | evict (commit : Bool)
  | reload
  deriving DecidableEq, Repr

/-- post-commit work that is lost by a crash -/
inductive Act where
  | evict
  | fs
  | cp (round : Nat) (blockHash : Bytes)
  | prune
  deriving DecidableEq, Repr

structure Tr where
  /-- blocks seen by newBlock -/
  latest : Nat
  /-- tracker DB round -/
  dbRound : Nat
  /-- accountbase / resources / kvstore at dbRound -/
  rows : Rows
  /-- totals and verification-hash inputs at dbRound -/
  aux : Aux
  /-- balances trie: in-memory and persisted image -/
  trie : Store
  /-- CatchpointStateWritingFirstStageInfo -/
  writingFS : Bool
  /-- CatchpointStateCatchpointLookback (0 = never written) -/
  lookbackState : Nat
  /-- catchpointfirststageinfo -/
  firstStage : List (Nat × Info)
  /-- unfinishedcatchpoints -/
  unfinished : List (Nat × Bytes)
  /-- CatchpointStateLastCatchpoint -/
  lastLabel : String
  /-- accountsHashRound ("hashbase"): the round the persisted trie was brought to; 0 after a commit without tracking -/
  hashRound : Nat
  /-- catchpoint tracking enabled in this lifetime (catchpointInterval ≠ 0) -/
  enabled : Bool
  /-- reenableCatchpointsRound (memory only) -/
  reenable : Nat
  /-- remaining work of postCommit / postCommitUnlocked or of recoverFromCrash (memory only) -/
  pending : List Act
  /-- every label created, in order (observation) -/
  out : List (Nat × String)

inductive Ev where
  | block
  | commit (target : Nat)
  | tick
  | crash (enabled : Bool)
  | trie (op : TrieOp)
  deriving DecidableEq, Repr

def trieAdd (σ : Store) (d : Bytes) : Store :=
  match σ.add d with
  | .ok (_, σ') => σ'
  | .error _ => σ

def trieDel (σ : Store) (d : Bytes) : Store :=
  match σ.delete d with
  | .ok (_, σ') => σ'
  | .error _ => σ

/-- accountsUpdateBalances for one changed key: delete the leaf of the old row, add the leaf of the new row -/
def updateKey (H : Bytes → Bytes) (old new : Rows) (σ : Store) (k : RowKey) : Store :=
  let σ1 := match lookupRow old k with
    | some e => trieDel σ (e.leaf H)
    | none => σ
  match lookupRow new k with
  | some e => trieAdd σ1 (e.leaf H)
  | none => σ1

def dedupKeys : List RowKey → List RowKey
  | [] => []
  | k :: ks => if k ∈ ks then dedupKeys ks else k :: dedupKeys ks

/-- keys touched by a list of rounds (each once) -/
def changedKeys (rds : List RoundData) : List RowKey := dedupKeys (rds.flatMap fun rd => rd.changes.map Change.key)

def updateTrie (H : Bytes → Bytes) (old new : Rows) (keys : List RowKey) (σ : Store) : Store :=
  (keys.foldl (updateKey H old new) σ).commit

/-- initializeHashes on an empty trie: every row's leaf, committed -/
def buildTrie (H : Bytes → Bytes) (rows : Rows) : Store :=
  ((leavesOf H rows).foldl trieAdd Store.empty).commit

def Tr.init (H : Bytes → Bytes) (h : Hist) : Tr :=
  { latest := 0, dbRound := 0, rows := h.genesis, aux := h.genesisAux, trie := buildTrie H h.genesis,
    writingFS := false, lookbackState := 0, firstStage := [], unfinished := [], lastLabel := "",
    hashRound := 0, enabled := true, reenable := 0, pending := [], out := [] }

def insertInfo (l : List (Nat × Info)) (a : Nat) (i : Info) : List (Nat × Info) :=
  (a, i) :: l.filter fun x => x.1 ≠ a

def lookupInfo (l : List (Nat × Info)) (a : Nat) : Option Info := (l.find? fun x => x.1 = a).map (·.2)

def applyTrieOp (σ : Store) : TrieOp → Store
  | .commit => σ.commit
  | .evict c => match σ.evict c with
    | some σ' => σ'
    | none => σ
  | .reload => σ.reload

/-- recoverFromCrash: finishFirstStageAfterCrash, then (if a lookback was recorded) finishCatchpointsAfterCrash and
pruneFirstStageRecordsData -/
def recoveryActs (σ : Tr) : List Act :=
  (if σ.writingFS then [Act.fs] else []) ++
  (if σ.lookbackState = 0 then [] else
    σ.unfinished.map (fun x => Act.cp x.1 x.2) ++ (if σ.lookbackState ≤ σ.dbRound then [Act.prune] else []))

def cpHashes (h : Hist) (rs : List Nat) : List (Nat × Bytes) :=
  rs.filterMap fun r => (h.blockHash r).map fun bh => (r, bh)

def runAct (H : Bytes → Bytes) (p : Params) (σ : Tr) : Act → Tr
  | .evict => { σ with trie := applyTrieOp σ.trie (.evict false) }
  | .fs =>
    -- finishFirstStage / recordFirstStageInfo: totals and trie root of the DB as it is now
    let r := σ.trie.root H
    { σ with trie := r.2, firstStage := insertInfo σ.firstStage σ.dbRound ⟨r.1, σ.aux⟩, writingFS := false }
  | .cp round bh =>
    -- finishCatchpoint
    let rest := σ.unfinished.filter fun x => x.1 ≠ round
    match lookupInfo σ.firstStage (round - p.lookback) with
    | none => { σ with unfinished := rest }
    | some info =>
      let label := labelOf H p round bh info
      { σ with unfinished := rest, lastLabel := label, out := σ.out ++ [(round, label)] }
  | .prune =>
    if p.lookback ≤ σ.dbRound then
      { σ with firstStage := σ.firstStage.filter fun x => σ.dbRound - p.lookback < x.1 }
    else σ

/-- one event; an event whose guard fails leaves the state unchanged -/
def step (H : Bytes → Bytes) (p : Params) (h : Hist) (σ : Tr) : Ev → Tr
  | .block =>
    if σ.latest < h.rounds.length then
      { σ with latest := σ.latest + 1, reenable := if σ.reenable = 0 then σ.latest + 1 + p.lookback else σ.reenable }
    else σ
  | .commit t =>
    if σ.pending = [] ∧ σ.dbRound < t ∧ t ≤ σ.latest ∧ 0 < p.interval then
      if σ.enabled then
        let fs := calcFirstStageRounds σ.dbRound (t - σ.dbRound) σ.reenable p.interval p.lookback
        let rds := (h.rounds.drop σ.dbRound).take fs.newOffset
        let newBase := σ.dbRound + fs.newOffset
        let rows' := rds.foldl applyRound σ.rows
        let cps := cpHashes h (catchpointRounds σ.dbRound fs.newOffset p.lookback p.interval)
        { σ with
          dbRound := newBase, rows := rows', aux := h.auxAt newBase,
          trie := updateTrie H σ.rows rows' (changedKeys rds) σ.trie, hashRound := newBase,
          writingFS := σ.writingFS || fs.has, lookbackState := p.lookback,
          unfinished := σ.unfinished ++ cps,
          pending := [Act.evict] ++ (if fs.has then [Act.fs] else []) ++ cps.map (fun x => Act.cp x.1 x.2) ++ [Act.prune] }
      else
        -- catchpointInterval = 0: produceCommittingTask leaves the range alone, accountsUpdateBalances returns at once,
        -- UpdateAccountsHashRound(0); the lookback is still recorded and old first-stage records are still pruned
        let n := t - σ.dbRound
        let rds := (h.rounds.drop σ.dbRound).take n
        { σ with
          dbRound := σ.dbRound + n, rows := rds.foldl applyRound σ.rows, aux := h.auxAt (σ.dbRound + n),
          hashRound := 0, lookbackState := p.lookback, pending := [Act.evict, Act.prune] }
    else σ
  | .tick =>
    match σ.pending with
    | [] => σ
    | a :: rest => runAct H p { σ with pending := rest } a
  | .crash en =>
    let stale := σ.hashRound ≠ σ.dbRound
    let σ' := { σ with
      -- initializeHashes
      trie := if stale then (if en then buildTrie H σ.rows else Store.empty) else σ.trie.reload,
      hashRound := if stale ∧ en then σ.dbRound else σ.hashRound,
      enabled := en, pending := [],
      reenable := if σ.dbRound < σ.latest then σ.dbRound + 1 + p.lookback else 0 }
    { σ' with pending := recoveryActs σ' }
  | .trie op => { σ with trie := applyTrieOp σ.trie op }

def run (H : Bytes → Bytes) (p : Params) (h : Hist) : Tr → List Ev → Tr
  | σ, [] => σ
  | σ, e :: es => run H p h (step H p h σ e) es

/-- the labels a run creates -/
def labels (H : Bytes → Bytes) (p : Params) (h : Hist) (evs : List Ev) : List (Nat × String) :=
  (run H p h (Tr.init H h) evs).out

end Model.Catchpoint
