/-
Model of go-algorand `network/vpack` (vote compression), core Lean only.

Stateful layer (`dynamic_vpack.go`, `lru_table.go`, `proposal_window.go`), mirrored function by function:
  * `LruTable`     — 2-way set-associative table, one MRU bit per bucket kept in a byte bitmap
                     (`lookup` / `insert` / `fetch`, reference id = (bucket<<1 | slot) truncated to uint16);
  * `PropWindow`   — ring of 7 proposal entries (`lookup` / `byRef` / `insertNew`);
  * `TableState`   — `dynamicTableState`;
  * `compress`     — `StatefulEncoder.Compress`   (input: stateless-compressed vote bytes);
  * `decompress`   — `StatefulDecoder.Decompress` (output: stateless-compressed vote bytes).
Both return the table state reached *also on error*: the Go code mutates its tables before it detects an
error, so an error does not preserve synchrony (the session rule of msgCompressor handles that).
An out-of-range slice index (a Go panic) is the explicit error `Err.panic`.

Stateless layer (`vpack.go`, `parse.go`, `msgp.go`): `statelessCompress` (parseMsgpVote driving the
StatelessEncoder: keys of `r` and `r.prop` are read in a loop and must be strictly ascending) and
`statelessDecompress` (StatelessDecoder.decompressVote).

Representation choices (all behaviour-preserving):
  * byte strings are `List UInt8`; fixed-size Go arrays are lists whose length is fixed by the reader;
  * `proposalEntry.operEnc/operLen` is the list `oper` (= operEnc[:operLen]; the array is zero padded, so
    equality of (operEnc, operLen) pairs is equality of the lists);
  * the reader position is the list of remaining bytes (`pos+n > len(src)` ⇔ `n > remaining.length`);
  * the 2-byte header is prepended at the end (Go reserves it first and patches `out[1]`).
-/
namespace AlgoVerif.Model.Vpack

abbrev Bytes := List UInt8

inductive Err where
  | short | trunc | marker | propref | sndref | pkref | pk2ref | overflow | underflow | length | panic
  deriving DecidableEq, Repr, Inhabited

def Err.str : Err → String
  | .short => "short" | .trunc => "trunc" | .marker => "marker" | .propref => "propref"
  | .sndref => "sndref" | .pkref => "pkref" | .pk2ref => "pk2ref" | .overflow => "overflow"
  | .underflow => "underflow" | .length => "length" | .panic => "PANIC"

def zeros (n : Nat) : Bytes := List.replicate n 0

/-! ## header bits (vpack.go / dynamic_vpack.go) -/
def bitPer : UInt8 := 1
def bitDig : UInt8 := 2
def bitEncDig : UInt8 := 4
def bitOper : UInt8 := 8
def bitOprop : UInt8 := 16
def bitStep : UInt8 := 32
def propFieldsMask : UInt8 := 30

def hdr1RndMask : UInt8 := 3
def hdr1PropMask : UInt8 := 28
def hdr1SndRef : UInt8 := 32
def hdr1PkRef : UInt8 := 64
def hdr1Pk2Ref : UInt8 := 128

def M64 : Nat := 18446744073709551616

/-! ## byte readers (statefulReader) -/

/-- `readFixed`: `none` = truncated -/
def readFixed (n : Nat) (r : Bytes) : Option (Bytes × Bytes) :=
  if n ≤ r.length then some (r.take n, r.drop n) else none

/-- `msgpVaruintRemaining` -/
def varuintRemaining (b : UInt8) : Option Nat :=
  if b = 0xcc then some 1 else if b = 0xcd then some 2 else if b = 0xce then some 4
  else if b = 0xcf then some 8 else if b >>> 7 = 0 then some 0 else none

/-- big-endian value of a byte string -/
def beNat (bs : Bytes) : Nat := bs.foldl (fun a b => a * 256 + b.toNat) 0

/-- `readVaruint` (and `readVaruintBytes`, which is the same without the value): bytes, value, rest.
    The value is the fixint itself or the big-endian payload (Go's `switch len(data)`; its default branch is
    unreachable because the payload length comes from `msgpVaruintRemaining`). -/
def readVaruint : Bytes → Except Err (Bytes × Nat × Bytes)
  | [] => .error .trunc
  | b :: rest =>
    match varuintRemaining b with
    | none => .error .marker
    | some more =>
      if more ≤ rest.length then
        .ok (b :: rest.take more, (if more = 0 then b.toNat else beNat (rest.take more)), rest.drop more)
      else .error .trunc

def readVaruintBytes (r : Bytes) : Except Err (Bytes × Bytes) :=
  match readVaruint r with
  | .error e => .error e
  | .ok (d, _, r') => .ok (d, r')

/-- `msgp.AppendUint64` (canonical msgpack unsigned integer) -/
def appendUint64 (u : Nat) : Bytes :=
  if u ≤ 127 then [UInt8.ofNat u]
  else if u ≤ 255 then [0xcc, UInt8.ofNat u]
  else if u ≤ 65535 then [0xcd, UInt8.ofNat (u / 256), UInt8.ofNat u]
  else if u ≤ 4294967295 then [0xce, UInt8.ofNat (u / 16777216), UInt8.ofNat (u / 65536), UInt8.ofNat (u / 256), UInt8.ofNat u]
  else [0xcf, UInt8.ofNat (u / 72057594037927936), UInt8.ofNat (u / 281474976710656), UInt8.ofNat (u / 1099511627776),
        UInt8.ofNat (u / 4294967296), UInt8.ofNat (u / 16777216), UInt8.ofNat (u / 65536), UInt8.ofNat (u / 256), UInt8.ofNat u]

/-- `appendDynamicRef`: big-endian uint16 -/
def be16 (id : Nat) : Bytes := [UInt8.ofNat (id / 256), UInt8.ofNat id]

/-! ## lruTable (lru_table.go) -/

structure LruTable where
  numBuckets : Nat
  buckets : Array (Bytes × Bytes)
  mru : Array UInt8
  deriving DecidableEq, Repr

/-- `newLRUTable[K](n)`; `zero` is the zero value of K -/
def newLRUTable (n : Nat) (zero : Bytes) : Option LruTable :=
  if n < 16 ∨ n &&& (n - 1) ≠ 0 then none
  else
    let nb := n / 2
    some { numBuckets := nb, buckets := Array.replicate nb (zero, zero), mru := Array.replicate (nb / 8) 0 }

namespace LruTable

/-- `mruBitmask` -/
def mruByteIdx (b : Nat) : Nat := b >>> 3
def mruMask (b : Nat) : UInt8 := (1 : UInt8) <<< UInt8.ofNat (b &&& 7)

/-- `getLRUSlot` (index out of range = Go panic) -/
def getLRUSlot (t : LruTable) (b : Nat) : Except Err Nat :=
  match t.mru[mruByteIdx b]? with
  | none => .error .panic
  | some m => if m &&& mruMask b = 0 then .ok 1 else .ok 0

/-- `setMRUSlot` -/
def setMRUSlot (t : LruTable) (b : Nat) (slot : Nat) : Except Err LruTable :=
  match t.mru[mruByteIdx b]? with
  | none => .error .panic
  | some m =>
    let m' := if slot = 0 then m &&& ~~~(mruMask b) else m ||| mruMask b
    .ok { t with mru := t.mru.setIfInBounds (mruByteIdx b) m' }

/-- `hashToBucketIndex` -/
def bucketOf (t : LruTable) (h : Nat) : Nat := h &&& (t.numBuckets - 1)

/-- `lookup`: `(some id, t')` on a hit (MRU touched), `(none, t)` on a miss -/
def lookup (t : LruTable) (k : Bytes) (h : Nat) : Except Err (Option Nat × LruTable) :=
  let b := t.bucketOf h
  match t.buckets[b]? with
  | none => .error .panic
  | some bk =>
    if bk.1 = k then
      match t.setMRUSlot b 0 with
      | .error e => .error e
      | .ok t' => .ok (some ((b <<< 1) % 65536), t')
    else if bk.2 = k then
      match t.setMRUSlot b 1 with
      | .error e => .error e
      | .ok t' => .ok (some ((b <<< 1 ||| 1) % 65536), t')
    else .ok (none, t)

/-- `insert` (the returned reference id is unused by all callers) -/
def insert (t : LruTable) (k : Bytes) (h : Nat) : Except Err LruTable :=
  let b := t.bucketOf h
  match t.getLRUSlot b with
  | .error e => .error e
  | .ok evict =>
    match t.buckets[b]? with
    | none => .error .panic
    | some bk =>
      let bk' := if evict = 0 then (k, bk.2) else (bk.1, k)
      ({ t with buckets := t.buckets.setIfInBounds b bk' } : LruTable).setMRUSlot b evict

/-- `fetch`: `none` = invalid id -/
def fetch (t : LruTable) (id : Nat) : Except Err (Option (Bytes × LruTable)) :=
  let b := id >>> 1
  let slot := id &&& 1
  if b ≥ t.numBuckets then .ok none
  else
    match t.setMRUSlot b slot with
    | .error e => .error e
    | .ok t' =>
      match t'.buckets[b]? with
      | none => .error .panic
      | some bk => .ok (some ((if slot = 0 then bk.1 else bk.2), t'))

end LruTable

/-! ## propWindow (proposal_window.go) -/

structure PropEntry where
  dig : Bytes
  encdig : Bytes
  oprop : Bytes
  oper : Bytes      -- operEnc[:operLen]
  mask : UInt8
  deriving DecidableEq, Repr

def PropEntry.zero : PropEntry := { dig := zeros 32, encdig := zeros 32, oprop := zeros 32, oper := [], mask := 0 }

def proposalWindowSize : Nat := 7

structure PropWindow where
  entries : Vector PropEntry 7
  head : Nat
  size : Nat
  deriving DecidableEq, Repr

namespace PropWindow

def empty : PropWindow := { entries := Vector.replicate 7 PropEntry.zero, head := 0, size := 0 }

def slotAt (w : PropWindow) (i : Nat) : PropEntry :=
  w.entries[(w.head + i) % 7]'(Nat.mod_lt _ (by decide))

/-- the loop of `lookup`, from position `i`, `n` iterations left -/
def lookupFrom (w : PropWindow) (pv : PropEntry) : Nat → Nat → Nat
  | _, 0 => 0
  | i, n + 1 => if w.slotAt i = pv then w.size - i else lookupFrom w pv (i + 1) n

/-- `lookup`: 1-based HPACK index, 0 = not found -/
def lookup (w : PropWindow) (pv : PropEntry) : Nat := lookupFrom w pv 0 w.size

/-- `byRef` -/
def byRef (w : PropWindow) (idx : Nat) : Option PropEntry :=
  if idx < 1 ∨ idx > w.size then none
  else some (w.entries[(w.head + w.size - idx) % 7]'(Nat.mod_lt _ (by decide)))

/-- `insertNew` -/
def insertNew (w : PropWindow) (pv : PropEntry) : PropWindow :=
  if w.size = proposalWindowSize then
    if h : w.head < 7 then
      { w with entries := w.entries.set w.head pv h, head := (w.head + 1) % 7 }
    else w  -- Go would panic; `head < 7` is an invariant (see `WF`) and `head` only ever holds `_ % 7`
  else
    { w with entries := w.entries.set ((w.head + w.size) % 7) pv (Nat.mod_lt _ (by decide)), size := w.size + 1 }

end PropWindow

/-! ## dynamicTableState -/

structure TableState where
  snd : LruTable
  pk : LruTable
  pk2 : LruTable
  win : PropWindow
  lastRnd : Nat
  deriving DecidableEq, Repr

/-- `initTables` -/
def TableState.init (tableSize : Nat) : Option TableState :=
  match newLRUTable tableSize (zeros 32), newLRUTable tableSize (zeros 96), newLRUTable tableSize (zeros 96) with
  | some a, some b, some c => some { snd := a, pk := b, pk2 := c, win := PropWindow.empty, lastRnd := 0 }
  | _, _, _ => none

/-- little-endian uint64 of (up to) 8 bytes -/
def le64 (bs : Bytes) : Nat := bs.foldr (fun b a => b.toNat + 256 * a) 0

/-- `addressValue.hash` -/
def addrHash (k : Bytes) : Nat :=
  le64 (k.take 8) ^^^ le64 ((k.drop 8).take 8) ^^^ le64 ((k.drop 16).take 8) ^^^ le64 ((k.drop 24).take 8)

/-- `pkSigPair.hash` on the 96-byte bundle pk ‖ sig -/
def pkHash (k : Bytes) : Nat := le64 (k.take 8) ^^^ le64 ((k.drop 32).take 8)

/-! ## Compress / Decompress as a chain of phases over a context -/

structure Ctx where
  st : TableState
  rem : Bytes     -- unread input
  out : Bytes     -- output after the 2-byte header
  hdr1 : UInt8    -- encoder: header byte being assembled; decoder: header byte read
  deriving DecidableEq, Repr

/-- error together with the table state reached -/
abbrev EM := Except (Err × TableState)

def fail {α : Type} (c : Ctx) (e : Err) : EM α := .error (e, c.st)

def passFixed (n : Nat) (c : Ctx) : EM Ctx :=
  match readFixed n c.rem with
  | none => fail c .trunc
  | some (d, r) => .ok { c with rem := r, out := c.out ++ d }

def passVaruint (c : Ctx) : EM Ctx :=
  match readVaruintBytes c.rem with
  | .error e => fail c e
  | .ok (d, r) => .ok { c with rem := r, out := c.out ++ d }

def whenBit (hdr0 bit : UInt8) (p : Ctx → EM Ctx) (c : Ctx) : EM Ctx :=
  if hdr0 &&& bit ≠ 0 then p c else .ok c

def optFixed (hdr0 bit : UInt8) (n : Nat) (r : Bytes) : Except Err (Bytes × Bytes) :=
  if hdr0 &&& bit ≠ 0 then
    match readFixed n r with
    | none => .error .trunc
    | some x => .ok x
  else .ok (zeros n, r)

/-- the literal proposal fields as read by both Compress and Decompress -/
def readPropLiteral (hdr0 : UInt8) (r : Bytes) : Except Err (PropEntry × Bytes) :=
  match optFixed hdr0 bitDig 32 r with
  | .error e => .error e
  | .ok (dig, r) =>
  match optFixed hdr0 bitEncDig 32 r with
  | .error e => .error e
  | .ok (encdig, r) =>
  match (if hdr0 &&& bitOper ≠ 0 then readVaruintBytes r else .ok ([], r)) with
  | .error e => .error e
  | .ok (oper, r) =>
  match optFixed hdr0 bitOprop 32 r with
  | .error e => .error e
  | .ok (oprop, r) =>
    .ok ({ dig := dig, encdig := encdig, oprop := oprop, oper := oper, mask := hdr0 &&& propFieldsMask }, r)

/-- proposal bytes in stateless order, fields selected by `mask` -/
def propBytes (mask : UInt8) (p : PropEntry) : Bytes :=
  (if mask &&& bitDig ≠ 0 then p.dig else []) ++ (if mask &&& bitEncDig ≠ 0 then p.encdig else []) ++
  (if mask &&& bitOper ≠ 0 then p.oper else []) ++ (if mask &&& bitOprop ≠ 0 then p.oprop else [])

def encProp (hdr0 : UInt8) (c : Ctx) : EM Ctx :=
  match readPropLiteral hdr0 c.rem with
  | .error e => fail c e
  | .ok (prop, r) =>
    let idx := c.st.win.lookup prop
    if idx ≠ 0 then
      .ok { c with rem := r, hdr1 := c.hdr1 ||| (UInt8.ofNat idx <<< 2) }
    else
      .ok { c with st := { c.st with win := c.st.win.insertNew prop }, rem := r, out := c.out ++ propBytes hdr0 prop }

def decProp (hdr0 : UInt8) (c : Ctx) : EM Ctx :=
  let ref := (c.hdr1 &&& hdr1PropMask) >>> 2
  if ref = 0 then
    match readPropLiteral hdr0 c.rem with
    | .error e => fail c e
    | .ok (prop, r) =>
      .ok { c with st := { c.st with win := c.st.win.insertNew prop }, rem := r, out := c.out ++ propBytes prop.mask prop }
  else
    match c.st.win.byRef ref.toNat with
    | none => fail c .propref
    | some prop => .ok { c with out := c.out ++ propBytes prop.mask prop }

def encRnd (c : Ctx) : EM Ctx :=
  match readVaruint c.rem with
  | .error e => fail c e
  | .ok (data, rnd, r) =>
    let last := c.st.lastRnd
    let st' := { c.st with lastRnd := rnd }
    if rnd = last then .ok { c with st := st', rem := r, hdr1 := c.hdr1 ||| 3 }
    else if rnd = (last + 1) % M64 ∧ last < M64 - 1 then .ok { c with st := st', rem := r, hdr1 := c.hdr1 ||| 1 }
    else if rnd = (last + M64 - 1) % M64 ∧ last > 0 then .ok { c with st := st', rem := r, hdr1 := c.hdr1 ||| 2 }
    else .ok { c with st := st', rem := r, out := c.out ++ data }

def decRnd (c : Ctx) : EM Ctx :=
  let code := c.hdr1 &&& hdr1RndMask
  let last := c.st.lastRnd
  if code = 3 then .ok { c with out := c.out ++ appendUint64 last }
  else if code = 1 then
    if last = M64 - 1 then fail c .overflow
    else .ok { c with st := { c.st with lastRnd := last + 1 }, out := c.out ++ appendUint64 (last + 1) }
  else if code = 2 then
    if last = 0 then fail c .underflow
    else .ok { c with st := { c.st with lastRnd := last - 1 }, out := c.out ++ appendUint64 (last - 1) }
  else
    match readVaruint c.rem with
    | .error e => fail c e
    | .ok (data, rnd, r) => .ok { c with st := { c.st with lastRnd := rnd }, rem := r, out := c.out ++ data }

/-- which of the three LRU tables a phase works on -/
inductive Tbl where | snd | pk | pk2
  deriving DecidableEq, Repr

def Tbl.get (T : Tbl) (s : TableState) : LruTable :=
  match T with | .snd => s.snd | .pk => s.pk | .pk2 => s.pk2
def Tbl.set (T : Tbl) (s : TableState) (t : LruTable) : TableState :=
  match T with | .snd => { s with snd := t } | .pk => { s with pk := t } | .pk2 => { s with pk2 := t }
def Tbl.keyLen : Tbl → Nat | .snd => 32 | _ => 96
def Tbl.hash : Tbl → Bytes → Nat | .snd => addrHash | _ => pkHash
def Tbl.bit : Tbl → UInt8 | .snd => hdr1SndRef | .pk => hdr1PkRef | .pk2 => hdr1Pk2Ref
def Tbl.badref : Tbl → Err | .snd => .sndref | .pk => .pkref | .pk2 => .pk2ref

def encLru (T : Tbl) (c : Ctx) : EM Ctx :=
  match readFixed T.keyLen c.rem with
  | none => fail c .trunc
  | some (k, r) =>
    match (T.get c.st).lookup k (T.hash k) with
    | .error e => fail c e
    | .ok (some id, t') =>
      .ok { c with st := T.set c.st t', rem := r, out := c.out ++ be16 id, hdr1 := c.hdr1 ||| T.bit }
    | .ok (none, _) =>
      match (T.get c.st).insert k (T.hash k) with
      | .error e => fail c e
      | .ok t' => .ok { c with st := T.set c.st t', rem := r, out := c.out ++ k }

def decLru (T : Tbl) (c : Ctx) : EM Ctx :=
  if c.hdr1 &&& T.bit ≠ 0 then
    match readFixed 2 c.rem with
    | none => fail c .trunc
    | some (idb, r) =>
      match (T.get c.st).fetch (beNat idb) with
      | .error e => fail c e
      | .ok none => fail c T.badref
      | .ok (some (k, t')) => .ok { c with st := T.set c.st t', rem := r, out := c.out ++ k }
  else
    match readFixed T.keyLen c.rem with
    | none => fail c .trunc
    | some (k, r) =>
      match (T.get c.st).insert k (T.hash k) with
      | .error e => fail c e
      | .ok t' => .ok { c with st := T.set c.st t', rem := r, out := c.out ++ k }

def checkEnd (c : Ctx) : EM Ctx := if c.rem = [] then .ok c else fail c .length

/-- sequencing of phases: stop at the first error -/
def andThen (x : EM Ctx) (f : Ctx → EM Ctx) : EM Ctx :=
  match x with
  | .ok c => f c
  | .error e => .error e

def encPhases (hdr0 : UInt8) (c : Ctx) : EM Ctx :=
  andThen (andThen (andThen (andThen (andThen (andThen (andThen (andThen (andThen
    (passFixed 80 c)                          -- cred.pf
    (whenBit hdr0 bitPer passVaruint))       -- r.per
    (encProp hdr0))                           -- r.prop
    encRnd)                                   -- r.rnd
    (encLru .snd))                            -- r.snd
    (whenBit hdr0 bitStep passVaruint))      -- r.step
    (encLru .pk))                             -- sig.p + sig.p1s
    (encLru .pk2))                            -- sig.p2 + sig.p2s
    (passFixed 64))                           -- sig.s
    checkEnd

def decPhases (hdr0 : UInt8) (c : Ctx) : EM Ctx :=
  andThen (andThen (andThen (andThen (andThen (andThen (andThen (andThen (andThen
    (passFixed 80 c)
    (whenBit hdr0 bitPer passVaruint))
    (decProp hdr0))
    decRnd)
    (decLru .snd))
    (whenBit hdr0 bitStep passVaruint))
    (decLru .pk))
    (decLru .pk2))
    (passFixed 64))
    checkEnd

/-- `StatefulEncoder.Compress` -/
def compress (st : TableState) (src : Bytes) : TableState × Except Err Bytes :=
  match src with
  | hdr0 :: _ :: r =>
    match encPhases hdr0 { st := st, rem := r, out := [], hdr1 := 0 } with
    | .error (e, st') => (st', .error e)
    | .ok c => (c.st, .ok (hdr0 :: c.hdr1 :: c.out))
  | _ => (st, .error .short)

/-- `StatefulDecoder.Decompress` -/
def decompress (st : TableState) (src : Bytes) : TableState × Except Err Bytes :=
  match src with
  | hdr0 :: hdr1 :: r =>
    match decPhases hdr0 { st := st, rem := r, out := [], hdr1 := hdr1 } with
    | .error (e, st') => (st', .error e)
    | .ok c => (c.st, .ok (hdr0 :: 0 :: c.out))
  | _ => (st, .error .short)

/-! ## the connection (session rule of msgCompressor / wsPeer)
A vote is compressed in the write loop right before its frame is written; every VP frame is decompressed in
arrival order; the first error on either side switches stateful compression off (abort frame), after which no
VP frame is produced or accepted. `session` returns, per vote, what the receiver delivered and both table
states; it stops at the first error. -/
def session : TableState → TableState → List Bytes → List (Option Bytes × TableState × TableState)
  | _, _, [] => []
  | e, d, v :: vs =>
    match compress e v with
    | (e', .error _) => [(none, e', d)]
    | (e', .ok frame) =>
      match decompress d frame with
      | (d', .error _) => [(none, e', d')]
      | (d', .ok out) => (some out, e', d') :: session e' d' vs

/-! ## stateless layer (vpack.go, parse.go, msgp.go) -/

inductive SErr where
  | eof | fixmap | fixstr | key | order | mapsize | bin | marker | nonminimal | ps | trailing | missing | toobig | header
  deriving DecidableEq, Repr, Inhabited

def SErr.str : SErr → String
  | .eof => "eof" | .fixmap => "fixmap" | .fixstr => "fixstr" | .key => "key" | .order => "order" | .mapsize => "mapsize"
  | .bin => "bin" | .marker => "marker" | .nonminimal => "nonminimal" | .ps => "ps" | .trailing => "trailing" | .missing => "missing"
  | .toobig => "toobig" | .header => "header"

/-- map keys (ASCII) -/
def kCred : Bytes := [0x63, 0x72, 0x65, 0x64]  -- "cred"
def kPf : Bytes := [0x70, 0x66]  -- "pf"
def kR : Bytes := [0x72]  -- "r"
def kPer : Bytes := [0x70, 0x65, 0x72]  -- "per"
def kProp : Bytes := [0x70, 0x72, 0x6f, 0x70]  -- "prop"
def kDig : Bytes := [0x64, 0x69, 0x67]  -- "dig"
def kEncdig : Bytes := [0x65, 0x6e, 0x63, 0x64, 0x69, 0x67]  -- "encdig"
def kOper : Bytes := [0x6f, 0x70, 0x65, 0x72]  -- "oper"
def kOprop : Bytes := [0x6f, 0x70, 0x72, 0x6f, 0x70]  -- "oprop"
def kRnd : Bytes := [0x72, 0x6e, 0x64]  -- "rnd"
def kSnd : Bytes := [0x73, 0x6e, 0x64]  -- "snd"
def kStep : Bytes := [0x73, 0x74, 0x65, 0x70]  -- "step"
def kSig : Bytes := [0x73, 0x69, 0x67]  -- "sig"
def kP : Bytes := [0x70]  -- "p"
def kP1s : Bytes := [0x70, 0x31, 0x73]  -- "p1s"
def kP2 : Bytes := [0x70, 0x32]  -- "p2"
def kP2s : Bytes := [0x70, 0x32, 0x73]  -- "p2s"
def kPs : Bytes := [0x70, 0x73]  -- "ps"
def kS : Bytes := [0x73]  -- "s"

/-- parser state of `parseMsgpVote` + `StatelessEncoder`: remaining input, output after the header, mask,
    number of required fields seen -/
structure PS where
  rem : Bytes
  out : Bytes
  mask : UInt8
  req : Nat
  deriving DecidableEq, Repr

abbrev SM := Except SErr

/-- `readFixMap` -/
def readFixMap (p : PS) : SM (Nat × PS) :=
  match p.rem with
  | [] => .error .eof
  | b :: r => if b < 0x80 ∨ b > 0x8f then .error .fixmap else .ok ((b &&& 0x0f).toNat, { p with rem := r })

/-- `readString` -/
def readString (p : PS) : SM (Bytes × PS) :=
  match p.rem with
  | [] => .error .eof
  | b :: r =>
    if b < 0xa0 ∨ b > 0xbf then .error .fixstr
    else
      let n := (b &&& 0x1f).toNat
      if n ≤ r.length then .ok (r.take n, { p with rem := r.drop n }) else .error .eof

/-- `readString` followed by the comparison with the expected key -/
def expectKey (k : Bytes) (p : PS) : SM PS :=
  match readString p with
  | .error e => .error e
  | .ok (s, p') => if s = k then .ok p' else .error .key

/-- `readBin32/64/80` -/
def readBin (sz : Nat) (p : PS) : SM (Bytes × PS) :=
  if sz + 2 ≤ p.rem.length then
    match p.rem with
    | m :: l :: r => if m ≠ 0xc4 ∨ l.toNat ≠ sz then .error .bin else .ok (r.take sz, { p with rem := r.drop sz })
    | _ => .error .eof
  else .error .eof

/-- the minimality test of `readUintBytes` on the payload `val` (non-empty: fixints return before it):
    a uint8 holding a fixint value, or a wider format whose upper half is all zero -/
def nonMinimal (val : Bytes) : Bool :=
  match val with
  | [] => false
  | v :: _ => if val.length > 1 then (val.take (val.length / 2)).all (fun b => b == 0) else v < 0x80

/-- `readUintBytes` -/
def readUintBytes (p : PS) : SM (Bytes × PS) :=
  match p.rem with
  | [] => .error .eof
  | b :: r =>
    match varuintRemaining b with
    | none => .error .marker
    | some more =>
      if more = 0 then .ok ([b], { p with rem := r })
      else if more ≤ r.length then
        if nonMinimal (r.take more) then .error .nonminimal
        else .ok (b :: r.take more, { p with rem := r.drop more })
      else .error .eof

/-- `writeBytes` + `updateMask` for an optional field (mask bit) -/
def emitOpt (bit : UInt8) (v : Bytes) (p : PS) : PS := { p with out := p.out ++ v, mask := p.mask ||| bit }
/-- … and for a required field -/
def emitReq (v : Bytes) (p : PS) : PS := { p with out := p.out ++ v, req := p.req + 1 }

def binReq (sz : Nat) (p : PS) : SM PS :=
  match readBin sz p with
  | .error e => .error e
  | .ok (v, p') => .ok (emitReq v p')

def binOpt (bit : UInt8) (p : PS) : SM PS :=
  match readBin 32 p with
  | .error e => .error e
  | .ok (v, p') => .ok (emitOpt bit v p')

def uintOpt (bit : UInt8) (p : PS) : SM PS :=
  match readUintBytes p with
  | .error e => .error e
  | .ok (v, p') => .ok (emitOpt bit v p')

def uintReq (p : PS) : SM PS :=
  match readUintBytes p with
  | .error e => .error e
  | .ok (v, p') => .ok (emitReq v p')

/-- `bytes.Compare(a, b) < 0` -/
def bytesLt : Bytes → Bytes → Bool
  | [], [] => false
  | [], _ :: _ => true
  | _ :: _, [] => false
  | a :: as, b :: bs => if a < b then true else if b < a then false else bytesLt as bs

/-- the canonical-order check of both key loops: `prev != nil && bytes.Compare(prev, key) >= 0` is an error -/
def keyOrderOk (prev : Option Bytes) (k : Bytes) : Bool :=
  match prev with
  | none => true
  | some p => bytesLt p k

/-- the `proposalValue` loop: `n` keys left, `prev` = previous key -/
def propLoop : Nat → Option Bytes → PS → SM PS
  | 0, _, p => .ok p
  | n + 1, prev, p =>
    match readString p with
    | .error e => .error e
    | .ok (k, p) =>
      if !keyOrderOk prev k then .error .order
      else
        match (if k = kDig then binOpt bitDig p
               else if k = kEncdig then binOpt bitEncDig p
               else if k = kOper then uintOpt bitOper p
               else if k = kOprop then binOpt bitOprop p
               else .error .key) with
        | .error e => .error e
        | .ok p' => propLoop n (some k) p'

/-- the `rawVote` loop -/
def rawLoop : Nat → Option Bytes → PS → SM PS
  | 0, _, p => .ok p
  | n + 1, prev, p =>
    match readString p with
    | .error e => .error e
    | .ok (k, p) =>
      if !keyOrderOk prev k then .error .order
      else
        match (if k = kPer then uintOpt bitPer p
               else if k = kProp then
                 match readFixMap p with
                 | .error e => .error e
                 | .ok (cnt, p) => if cnt < 1 ∨ cnt > 4 then .error .mapsize else propLoop cnt none p
               else if k = kRnd then uintReq p
               else if k = kSnd then binReq 32 p
               else if k = kStep then uintOpt bitStep p
               else .error .key) with
        | .error e => .error e
        | .ok p' => rawLoop n (some k) p'

def expectMap (n : Nat) (p : PS) : SM PS :=
  match readFixMap p with
  | .error e => .error e
  | .ok (cnt, p') => if cnt = n then .ok p' else .error .mapsize

/-- the `r` map: fixmap header with 1..5 entries, then the key loop -/
def rawMap (p : PS) : SM PS :=
  match readFixMap p with
  | .error e => .error e
  | .ok (cnt, p) => if cnt < 1 ∨ cnt > 5 then .error .mapsize else rawLoop cnt none p

/-- `sig.ps`: bin8(64) that must be all zero (nothing is emitted) -/
def psZero (p : PS) : SM PS :=
  match readBin 64 p with
  | .error e => .error e
  | .ok (ps, p) => if ps ≠ zeros 64 then .error .ps else .ok p

def checkTrailing (p : PS) : SM PS := if p.rem ≠ [] then .error .trailing else .ok p

/-- run parser steps in order, stop at the first error -/
def runAll : List (PS → SM PS) → PS → SM PS
  | [], p => .ok p
  | f :: fs, p =>
    match f p with
    | .ok p' => runAll fs p'
    | .error e => .error e

/-- `parseMsgpVote` -/
def parseMsgpVote (p : PS) : SM PS :=
  runAll [expectMap 3, expectKey kCred, expectMap 1, expectKey kPf, binReq 80, expectKey kR, rawMap,
    expectKey kSig, expectMap 6, expectKey kP, binReq 32, expectKey kP1s, binReq 64, expectKey kP2, binReq 32,
    expectKey kP2s, binReq 64, expectKey kPs, psZero, expectKey kS, binReq 64, checkTrailing] p

def maxCompressedVoteSize : Nat := 502

/-- `StatelessEncoder.CompressVote` -/
def statelessCompress (src : Bytes) : SM Bytes :=
  match parseMsgpVote { rem := src, out := [], mask := 0, req := 0 } with
  | .error e => .error e
  | .ok p =>
    if 2 + p.out.length > maxCompressedVoteSize then .error .toobig
    else if p.req ≠ 8 then .error .missing
    else .ok (p.mask :: 0 :: p.out)

/-- decoder state: remaining input and output -/
structure DS where
  rem : Bytes
  out : Bytes
  deriving DecidableEq, Repr

def fixstr (key : Bytes) : Bytes := UInt8.ofNat (0xa0 + key.length) :: key

/-- `bin32/64/80` of the decoder -/
def dBin (key : Bytes) (sz : Nat) (d : DS) : SM DS :=
  if sz ≤ d.rem.length then
    .ok { rem := d.rem.drop sz, out := d.out ++ fixstr key ++ [0xc4, UInt8.ofNat sz] ++ d.rem.take sz }
  else .error .eof

/-- `varuint` of the decoder -/
def dVaruint (key : Bytes) (d : DS) : SM DS :=
  match d.rem with
  | [] => .error .eof
  | b :: r =>
    match varuintRemaining b with
    | none => .error .marker
    | some more =>
      if more ≤ r.length then
        .ok { rem := r.drop more, out := d.out ++ fixstr key ++ (b :: r.take more) }
      else .error .eof

def dRaw (bs : Bytes) (d : DS) : SM DS := .ok { d with out := d.out ++ bs }

def bitCount (m : UInt8) (bits : List UInt8) : Nat := (bits.filter (fun b => m &&& b ≠ 0)).length

def dWhen (c : Bool) (f : DS → SM DS) (d : DS) : SM DS := if c then f d else .ok d

def dTrailing (d : DS) : SM DS := if d.rem ≠ [] then .error .trailing else .ok d

/-- run decoder steps in order, stop at the first error -/
def runAllD : List (DS → SM DS) → DS → SM DS
  | [], d => .ok d
  | f :: fs, d =>
    match f d with
    | .ok d' => runAllD fs d'
    | .error e => .error e

/-- `rawVoteMapSize` -/
def rawVoteMapSize (mask : UInt8) : Nat :=
  2 + bitCount mask [bitPer, bitStep] + (if mask &&& propFieldsMask ≠ 0 then 1 else 0)

/-- `proposalValueMapSize` -/
def proposalValueMapSize (mask : UInt8) : Nat := bitCount mask [bitDig, bitEncDig, bitOper, bitOprop]

/-- the steps of `StatelessDecoder.decompressVote` for header mask `mask` (the four proposal fields sit inside
    `if mask&propFieldsMask != 0`, which each of their own bit tests implies) -/
def decSteps (mask : UInt8) : List (DS → SM DS) :=
  [dBin kPf 80,
   dRaw (fixstr kR ++ [UInt8.ofNat (0x80 + rawVoteMapSize mask)]),
   dWhen (mask &&& bitPer ≠ 0) (dVaruint kPer),
   dWhen (mask &&& propFieldsMask ≠ 0) (dRaw (fixstr kProp ++ [UInt8.ofNat (0x80 + proposalValueMapSize mask)])),
   dWhen (mask &&& bitDig ≠ 0) (dBin kDig 32),
   dWhen (mask &&& bitEncDig ≠ 0) (dBin kEncdig 32),
   dWhen (mask &&& bitOper ≠ 0) (dVaruint kOper),
   dWhen (mask &&& bitOprop ≠ 0) (dBin kOprop 32),
   dVaruint kRnd,
   dBin kSnd 32,
   dWhen (mask &&& bitStep ≠ 0) (dVaruint kStep),
   dRaw (fixstr kSig ++ [0x86]),
   dBin kP 32, dBin kP1s 64, dBin kP2 32, dBin kP2s 64,
   dRaw (fixstr kPs ++ [0xc4, 0x40] ++ zeros 64),
   dBin kS 64,
   dTrailing]

/-- `StatelessDecoder.decompressVote` -/
def statelessDecompress (src : Bytes) : SM Bytes :=
  match src with
  | mask :: _ :: r =>
    match runAllD (decSteps mask) { rem := r, out := [0x83] ++ fixstr kCred ++ [0x81] } with
    | .error e => .error e
    | .ok d => .ok d.out
  | _ => .error .header

end AlgoVerif.Model.Vpack
