/-
C41, tie F: the shape of one collection-read site of a msgp-generated `UnmarshalMsgWithState`, as extracted from every
`msgp_gen.go` of the current tree by /verif/tools/c41sites (→ `Gen/MsgpSites.lean`), and the POLICY a site must meet
(`siteOK`).  The premise of the bounded-decoder theorems (Props/C41.lean) — "every collection read is preceded by its
bound check" — is exactly `siteOK` for every extracted site.

`check` is what the extractor found between the header read and the allocation it feeds:
  * `bound`       `if n > B { err = msgp.ErrOverflow(…); …; return }` dominates the `make(T, n)` / the `ReadBytesBytes` /
                  `ReadStringBytes`, and `B` is the bound the struct tag / `//msgp:allocbound` directive declares;
  * `intrinsic`   byte string / string without a declared bound: the msgp runtime compares the announced length with the
                  REMAINING INPUT before it allocates (`readBytesBytes`, `ReadStringZC`), so the request is ≤ the input;
  * `fixed`       nothing is allocated: fixed-size Go array guarded by the `ArrayError` check (`array`, `tuple`),
                  `ReadExactBytes` into an existing array (`exact`), a dangling type forwarding to its base decoder (`depth`);
  * `loop`        struct header: the count only drives a loop each of whose iterations reads a key / a field (≥ 1 byte);
  * `guard`       the `AllowableDepth` guard at the head of the function;
  * `exempt`      no check, and the declaration says `allocbound=-`;
  * `missing`     no check although a bound is declared (or nothing is declared at all);
  * `after`       the check exists but only AFTER the allocation;
  * `stale`       the code enforces a bound different from the declared one (generated file out of date / edited by hand);
  * `passes`      (kind `call`) a nested generated decoder is entered as `.UnmarshalMsgWithState(bts, st)` with THIS function's
                  already decremented state: the depth budget is shared along the whole nesting;
  * `resets`      the nested decoder is entered any other way (`.UnmarshalMsg(bts)`: a fresh `DefaultUnmarshalState`);
  * `undominated` an allocation whose size is not a tracked header value, or a header read of unknown use.

Core Lean only.
-/
namespace AlgoVerif.MsgpSite

inductive Kind where
  | slice | map | bytes | str | array | tuple | exact | structmap | structarr | depth | call | unknown
  deriving DecidableEq, Repr

inductive Check where
  | bound | intrinsic | fixed | loop | guard | exempt | missing | after | stale | undominated | passes | resets
  deriving DecidableEq, Repr

structure Site where
  /-- package directory of the msgp_gen.go -/
  pkg : String
  /-- receiver type of the generated decoder -/
  typ : String
  line : Nat
  kind : Kind
  check : Check
  /-- Go expression receiving the collection -/
  tgt : String
  /-- bound expression the code enforces -/
  bound : String
  /-- bound the struct tag / directive declares (`-` = exemption) -/
  decl : String
  /-- the decoder is reachable from a decode entry point fed with bytes of a peer / a downloaded file -/
  net : Bool

/-- The documented allow-list of `allocbound=-` exemptions (package, decoder, target): types that are only ever decoded
from what THIS node wrote itself.
  * agreement …: the crash-recovery state of the agreement service (`persistence.go: diskState` and the player / router /
    tracker trees inside it), written to `crash.sqlite` by the node and read back once at start-up;
  * crypto `OneTimeSignatureSecrets(Persistent)`: participation-key material in the operator's key database
    (the number of sub-keys is `keyDilution`, an operator-chosen parameter);
  * ledger/store/trackerdb `TxTailRound`: rows of the node's own tracker database. -/
def exemptAllow : List (String × String × String) := [
  ("agreement", "blockAssembler", "(*z).Authenticators"),
  ("agreement", "diskState", "(*z).ActionTypes"),
  ("agreement", "diskState", "(*z).Actions"),
  ("agreement", "periodRouter", "(*z).Children"),
  ("agreement", "proposalStore", "(*z).Relevant"),
  ("agreement", "proposalStore", "(*z).Assemblers"),
  ("agreement", "proposalTable", "(*z).Pending"),
  ("agreement", "proposalTracker", "(*z).Duplicate"),
  ("agreement", "proposalVoteCounter", "(*z).Votes"),
  ("agreement", "rootRouter", "(*z).Children"),
  ("agreement", "roundRouter", "(*z).Children"),
  ("agreement", "voteTracker", "(*z).Voters"),
  ("agreement", "voteTracker", "(*z).Counts"),
  ("agreement", "voteTracker", "(*z).Equivocators"),
  ("crypto", "OneTimeSignatureSecrets", "(*z).OneTimeSignatureSecretsPersistent.Batches"),
  ("crypto", "OneTimeSignatureSecrets", "(*z).OneTimeSignatureSecretsPersistent.Offsets"),
  ("crypto", "OneTimeSignatureSecretsPersistent", "(*z).Batches"),
  ("crypto", "OneTimeSignatureSecretsPersistent", "(*z).Offsets"),
  ("ledger/store/trackerdb", "TxTailRound", "(*z).TxnIDs"),
  ("ledger/store/trackerdb", "TxTailRound", "(*z).LastValid"),
  ("ledger/store/trackerdb", "TxTailRound", "(*z).Leases")]

def allowed (s : Site) : Bool :=
  exemptAllow.any (fun e => e.1 == s.pkg && (e.2.1 == s.typ && e.2.2 == s.tgt))

/-- the policy: the allocation (if any) is dominated by its check, or the site is a documented exemption that no
untrusted decode entry point reaches -/
def siteOK (s : Site) : Bool :=
  match s.check with
  | .bound => (s.kind == .slice || s.kind == .map || s.kind == .bytes || s.kind == .str) && !s.bound.isEmpty
  | .intrinsic => s.kind == .bytes || s.kind == .str
  | .fixed => s.kind == .array || s.kind == .tuple || s.kind == .exact || s.kind == .depth
  | .loop => s.kind == .structmap || s.kind == .structarr
  | .guard => s.kind == .depth
  | .passes => s.kind == .call
  | .exempt => (s.kind == .slice || s.kind == .map) && (!s.net && allowed s)
  | _ => false

def checkName : Check → String
  | .bound => "bound" | .intrinsic => "intrinsic" | .fixed => "fixed" | .loop => "loop" | .guard => "guard"
  | .exempt => "exempt" | .missing => "missing" | .after => "after" | .stale => "stale" | .undominated => "undominated"
  | .passes => "passes" | .resets => "resets"

def kindName : Kind → String
  | .slice => "slice" | .map => "map" | .bytes => "bytes" | .str => "str" | .array => "array" | .tuple => "tuple"
  | .exact => "exact" | .structmap => "structmap" | .structarr => "structarr" | .depth => "depth" | .call => "call"
  | .unknown => "unknown"

/-- why a site fails the policy (driver / report text) -/
def whyBad (s : Site) : String :=
  match s.check with
  | .exempt =>
    if s.net then "allocbound=- exemption on a decoder reachable from a network / downloaded-file decode entry point"
    else if !allowed s then "allocbound=- exemption that is not on the documented allow-list (Model/MsgpSite.lean: exemptAllow)"
    else "exemption on a site that allocates nothing"
  | .missing => "no bound check dominates the allocation (declared bound: '" ++ s.decl ++ "')"
  | .after => "the bound check (" ++ s.bound ++ ") comes AFTER the allocation"
  | .stale => "the code enforces '" ++ s.bound ++ "' but the declaration says '" ++ s.decl ++ "'"
  | .undominated => "allocation / header read the extractor cannot tie to a check"
  | .resets => "nested decoder of " ++ s.bound ++ " is not entered with this function's state `st`: `.UnmarshalMsg(bts)` restarts from msgp.DefaultUnmarshalState, the remaining depth is reset (unbounded recursion)"
  | _ => "site kind " ++ kindName s.kind ++ " does not fit check " ++ checkName s.check

end AlgoVerif.MsgpSite
