/-
The "schema layer" of the canonical encoding (C40): how go-algorand's codec struct tags turn a Go value into
the msgpack value tree of `Base.Msgpack`.

Every struct becomes a msgpack MAP keyed by the codec field names, emitted in increasing byte order of the
name; a field tagged `omitempty` (for arrays: `omitemptyarray`) is left out when its value is empty in go-codec's
recursive sense.  Outside an omitempty position nothing is dropped and nil / empty stay distinguishable
(nil slice, nil `[]byte`, nil map → msgpack nil; allocated-but-empty → empty array / bin / map).

* `Ty`       schema types.  NO pointers: the single pointer field of the consensus types,
             `Transaction.HeartbeatTxnFields` (`*HeartbeatTxnFields`), is out of the model.
* `Obj`      Go values, nil and empty distinguished (`sliceNil` vs `slice []`, …).  A Go map is modelled by
             its canonical association list (keys strictly increasing, part of `HasTy`).
* `HasTy`    typing + ranges + the map representation invariant.
* `SchemaWF` struct field names strictly increasing (`lexLt`), lengths/arity < 2^32, map key types restricted
             to `uint _ | str | fixedBytes _`.
* `isEmpty`  go-codec `isEmptyValue` (recursive) / msgp `MsgIsZero`.
* `toV`      the value tree both encoders are supposed to emit.
* `zero`, `norm`, `Equiv`   canonical zero value, normalisation (an empty value in an omitempty position is
             replaced by the canonical zero), and the induced identification `≈`.
* `fromV`    model of the generated `UnmarshalMsg`: decoder for schema-shaped trees.

All recursive functions over objects are structural on `Obj` (mutual with their `List Obj` /
`List (Obj × Obj)` versions); `zero`, `SchemaWF`, `fromV` are structural on `Ty`.  On ill-typed pairs
(`HasTy ty o = false`) `toV` returns `.nil` and `normR` returns its argument: every theorem about them
(Props/C40Schema.lean) assumes `HasTy`, and `fromV` returns `none` on ill-shaped trees.

Core Lean only.  Proofs: AlgoVerif/Lemmas/CodecSchema.lean, AlgoVerif/Props/C40Schema.lean.
-/
import AlgoVerif.Base.Msgpack
namespace AlgoVerif.CodecSchema
open AlgoVerif.Msgpack

/-- schema types; a struct field is (codec name, omitEmpty flag, type) -/
inductive Ty where
  | bool
  | uint (bits : Nat)
  | int (bits : Nat)
  | str
  | bytes
  | fixedBytes (n : Nat)
  | slice (elem : Ty)
  | array (n : Nat) (elem : Ty)
  | map (key val : Ty)
  | struct (fields : List (Bytes × Bool × Ty))

abbrev Field := Bytes × Bool × Ty

/-- Go values.  `bytesNil / sliceNil / mapNil` are the nil `[]byte` / slice / map; `bytes [] / slice [] / map []`
the allocated empty ones.  Struct field values are positional, in the order of the schema's field list. -/
inductive Obj where
  | bool (b : Bool)
  | uint (n : Nat)
  | int (i : Int)
  | str (s : Bytes)
  | bytesNil
  | bytes (b : Bytes)
  | fixed (b : Bytes)
  | sliceNil
  | slice (xs : List Obj)
  | array (xs : List Obj)
  | mapNil
  | map (kvs : List (Obj × Obj))
  | struct (fs : List Obj)

instance : Inhabited Obj := ⟨.bytesNil⟩

/-! ## emptiness (go-codec `isEmptyValue` with `checkStruct`, msgp `MsgIsZero`) -/

def allZero : Bytes → Bool
  | [] => true
  | b :: r => decide (b = 0) && allZero r

mutual
/-- recursive emptiness; it does not depend on the schema type -/
def emptyO : Obj → Bool
  | .bool b => !b
  | .uint n => decide (n = 0)
  | .int i => decide (i = 0)
  | .str s => s.isEmpty
  | .bytesNil => true
  | .bytes b => b.isEmpty
  | .fixed b => allZero b
  | .sliceNil => true
  | .slice xs => xs.isEmpty
  | .array xs => emptyL xs
  | .mapNil => true
  | .map kvs => kvs.isEmpty
  | .struct os => emptyL os
def emptyL : List Obj → Bool
  | [] => true
  | x :: xs => emptyO x && emptyL xs
end

/-- go-codec's recursive emptiness of a value of schema type `ty`: zero number, false, empty string, nil or
zero-length slice / byte slice / map, array all of whose elements are empty, struct all of whose fields are
empty.  (The type is not consulted: the shape of the object determines the answer.) -/
def isEmpty (_ty : Ty) (o : Obj) : Bool := emptyO o

/-! ## the emitted value tree -/

mutual
def toV : Ty → Obj → V
  | .bool, .bool b => .bool b
  | .uint _, .uint n => .uint n
  | .int _, .int i => if 0 ≤ i then .uint i.toNat else .int i
  | .str, .str s => .str s
  | .bytes, .bytesNil => .nil
  | .bytes, .bytes b => .bin b
  | .fixedBytes _, .fixed b => .bin b
  | .slice _, .sliceNil => .nil
  | .slice e, .slice xs => .arr (toVL e xs)
  | .array _ e, .array xs => .arr (toVL e xs)
  | .map _ _, .mapNil => .nil
  | .map k v, .map kvs => .map (toVM k v kvs)
  | .struct fs, .struct os => .map (toVF fs os)
  | _, _ => .nil
def toVL : Ty → List Obj → List V
  | _, [] => []
  | e, x :: xs => toV e x :: toVL e xs
def toVM : Ty → Ty → List (Obj × Obj) → List (V × V)
  | _, _, [] => []
  | k, v, (a, b) :: r => (toV k a, toV v b) :: toVM k v r
/-- struct fields in schema order; a field is skipped iff it is tagged omitEmpty and its value is empty -/
def toVF : List Field → List Obj → List (V × V)
  | (name, oe, ty) :: fs, o :: os =>
    if (oe && emptyO o) = true then toVF fs os else (V.str name, toV ty o) :: toVF fs os
  | _, _ => []
end

/-! ## typing -/

mutual
def HasTy : Ty → Obj → Bool
  | .bool, .bool _ => true
  | .uint bits, .uint n => decide (bits ≤ 64) && decide (n < 2 ^ bits)
  | .int bits, .int i =>
    decide (1 ≤ bits) && (decide (bits ≤ 64) &&
      (decide (-((2 ^ (bits - 1) : Nat) : Int) ≤ i) && decide (i < ((2 ^ (bits - 1) : Nat) : Int))))
  | .str, .str s => decide (s.length < 4294967296)
  | .bytes, .bytesNil => true
  | .bytes, .bytes b => decide (b.length < 4294967296)
  | .fixedBytes n, .fixed b => decide (b.length = n) && decide (n < 4294967296)
  | .slice _, .sliceNil => true
  | .slice e, .slice xs => decide (xs.length < 4294967296) && HasTyL e xs
  | .array n e, .array xs => decide (xs.length = n) && (decide (n < 4294967296) && HasTyL e xs)
  | .map _ _, .mapNil => true
  | .map k v, .map kvs =>
    decide (kvs.length < 4294967296) && (HasTyM k v kvs && sortedKeys ((toVM k v kvs).map Prod.fst))
  | .struct fs, .struct os => HasTyF fs os
  | _, _ => false
def HasTyL : Ty → List Obj → Bool
  | _, [] => true
  | e, x :: xs => HasTy e x && HasTyL e xs
def HasTyM : Ty → Ty → List (Obj × Obj) → Bool
  | _, _, [] => true
  | k, v, (a, b) :: r => HasTy k a && (HasTy v b && HasTyM k v r)
def HasTyF : List Field → List Obj → Bool
  | [], [] => true
  | (_, _, ty) :: fs, o :: os => HasTy ty o && HasTyF fs os
  | _, _ => false
end

/-! ## schema well-formedness -/

/-- adjacent field names strictly increasing in byte order -/
def namesSorted : List Field → Bool
  | [] => true
  | [_] => true
  | a :: b :: r => lexLt a.1 b.1 && namesSorted (b :: r)

/-- map key types used by the code base (`map[uint64]T`, `map[string]T`, `map[Address]T`): their encodings
never contain an omitted field -/
def keyTyOK : Ty → Bool
  | .uint _ => true
  | .str => true
  | .fixedBytes _ => true
  | _ => false

mutual
def SchemaWF : Ty → Bool
  | .slice e => SchemaWF e
  | .array _ e => SchemaWF e
  | .map k v => keyTyOK k && (SchemaWF k && SchemaWF v)
  | .struct fs => decide (fs.length < 4294967296) && (namesSorted fs && SchemaWFF fs)
  | _ => true
def SchemaWFF : List Field → Bool
  | [] => true
  | (name, _, ty) :: fs => decide (name.length < 4294967296) && (SchemaWF ty && SchemaWFF fs)
end

/-! ## canonical zero, normalisation, `≈` -/

mutual
/-- the Go zero value: what a decoder leaves in a field that is absent from the input -/
def zero : Ty → Obj
  | .bool => .bool false
  | .uint _ => .uint 0
  | .int _ => .int 0
  | .str => .str []
  | .bytes => .bytesNil
  | .fixedBytes n => .fixed (List.replicate n 0)
  | .slice _ => .sliceNil
  | .array n e => .array (List.replicate n (zero e))
  | .map _ _ => .mapNil
  | .struct fs => .struct (zeroF fs)
def zeroF : List Field → List Obj
  | [] => []
  | (_, _, ty) :: fs => zero ty :: zeroF fs
end

mutual
/-- normalisation at a position that is NOT an omitempty position: the object itself is kept, struct fields
are normalised with their own omitEmpty flag, slice / array elements and map keys / values with `false` -/
def normR : Ty → Obj → Obj
  | .slice e, .slice xs => .slice (normL e xs)
  | .array _ e, .array xs => .array (normL e xs)
  | .map k v, .map kvs => .map (normM k v kvs)
  | .struct fs, .struct os => .struct (normF fs os)
  | _, o => o
def normL : Ty → List Obj → List Obj
  | _, [] => []
  | e, x :: xs => normR e x :: normL e xs
def normM : Ty → Ty → List (Obj × Obj) → List (Obj × Obj)
  | _, _, [] => []
  | k, v, (a, b) :: r => (normR k a, normR v b) :: normM k v r
def normF : List Field → List Obj → List Obj
  | (_, oe, ty) :: fs, o :: os =>
    (if (oe && emptyO o) = true then zero ty else normR ty o) :: normF fs os
  | _, os => os
end

/-- `norm ty oe o`: `oe` says "this position is an omitempty position"; an empty object there becomes the
canonical zero, everything else is normalised recursively -/
def norm (ty : Ty) (oe : Bool) (o : Obj) : Obj :=
  if (oe && isEmpty ty o) = true then zero ty else normR ty o

/-- `o₁ ≈ o₂`: equal up to the zero-value / absent identification the tags prescribe -/
def Equiv (ty : Ty) (o₁ o₂ : Obj) : Prop := norm ty false o₁ = norm ty false o₂

/-! ## structural equality test (lawfulness: `Lemmas.CodecSchema.beqO_iff`) -/

mutual
/-- structural equality test on objects (`deriving DecidableEq` is not available for nested inductives) -/
def beqO : Obj → Obj → Bool
  | .bool a, .bool b => decide (a = b)
  | .uint a, .uint b => decide (a = b)
  | .int a, .int b => decide (a = b)
  | .str a, .str b => decide (a = b)
  | .bytesNil, .bytesNil => true
  | .bytes a, .bytes b => decide (a = b)
  | .fixed a, .fixed b => decide (a = b)
  | .sliceNil, .sliceNil => true
  | .slice a, .slice b => beqL a b
  | .array a, .array b => beqL a b
  | .mapNil, .mapNil => true
  | .map a, .map b => beqM a b
  | .struct a, .struct b => beqL a b
  | _, _ => false
def beqL : List Obj → List Obj → Bool
  | [], [] => true
  | a :: as, b :: bs => beqO a b && beqL as bs
  | _, _ => false
def beqM : List (Obj × Obj) → List (Obj × Obj) → Bool
  | [], [] => true
  | (a, a') :: as, (b, b') :: bs => beqO a b && (beqO a' b' && beqM as bs)
  | _, _ => false
end

/-! ## decoder for schema-shaped trees (model of the generated `UnmarshalMsg`) -/

def mapOpt {α β : Type} (f : α → Option β) : List α → Option (List β)
  | [] => some []
  | a :: as =>
    match f a, mapOpt f as with
    | some b, some bs => some (b :: bs)
    | _, _ => none

def mapOpt2 {α β : Type} (f g : α → Option β) : List (α × α) → Option (List (β × β))
  | [] => some []
  | (a, a') :: as =>
    match f a, g a', mapOpt2 f g as with
    | some b, some b', some bs => some ((b, b') :: bs)
    | _, _, _ => none

/-- if the next map entry has the string key `name`, its value and the remaining entries -/
def takeField (name : Bytes) : List (V × V) → Option (V × List (V × V))
  | (.str k, v) :: rest => if k = name then some (v, rest) else none
  | _ => none

mutual
def fromV : Ty → V → Option Obj
  | .bool => fun
    | .bool b => some (.bool b)
    | _ => none
  | .uint bits => fun
    | .uint n => if n < 2 ^ bits then some (.uint n) else none
    | .int i => if 0 ≤ i ∧ i.toNat < 2 ^ bits then some (.uint i.toNat) else none
    | _ => none
  | .int bits => fun
    | .uint n => if n < 2 ^ (bits - 1) then some (.int (n : Int)) else none
    | .int i =>
      if -((2 ^ (bits - 1) : Nat) : Int) ≤ i ∧ i < ((2 ^ (bits - 1) : Nat) : Int) then some (.int i) else none
    | _ => none
  | .str => fun
    | .str s => some (.str s)
    | _ => none
  | .bytes => fun
    | .nil => some .bytesNil
    | .bin b => some (.bytes b)
    | _ => none
  | .fixedBytes n => fun
    | .bin b => if b.length = n then some (.fixed b) else none
    | _ => none
  | .slice e => fun
    | .nil => some .sliceNil
    | .arr vs => (mapOpt (fromV e) vs).map Obj.slice
    | _ => none
  | .array n e => fun
    | .arr vs => if vs.length = n then (mapOpt (fromV e) vs).map Obj.array else none
    | _ => none
  | .map k v => fun
    | .nil => some .mapNil
    | .map kvs => (mapOpt2 (fromV k) (fromV v) kvs).map Obj.map
    | _ => none
  | .struct fs => fun
    | .map kvs => (fromVF fs kvs).map Obj.struct
    | _ => none
/-- walk the schema fields and the map entries together: an entry must carry the name of the current field
(then it is decoded at the field's type) or the current field is absent, which is allowed only for an
omitEmpty field and yields the zero value; unknown, duplicate or out-of-order keys leave entries over → `none` -/
def fromVF : List Field → List (V × V) → Option (List Obj)
  | [] => fun
    | [] => some []
    | _ :: _ => none
  | (name, oe, ty) :: fs => fun kvs =>
    match takeField name kvs with
    | some (v, rest) =>
      match fromV ty v, fromVF fs rest with
      | some o, some os => some (o :: os)
      | _, _ => none
    | none => if oe = true then (fromVF fs kvs).map (fun os => zero ty :: os) else none
end

end AlgoVerif.CodecSchema
