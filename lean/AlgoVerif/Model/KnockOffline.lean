/-
Model.KnockOffline — the end-of-block "knock offline" step of ledger/eval/eval.go (C27):

  generateKnockOfflineAccountsList, validateExpiredOnlineAccounts, resetExpiredOnlineAccountsParticipationKeys,
  validateAbsentOnlineAccounts, suspendAbsentAccounts (called in this order by endOfBlock),
  ledgercore.AccountData.{ClearOnlineState, Suspend, LastSeen}, and the challenge mechanism of
  ledger/apply/challenge.go (FindChallenge, challenge.Failed, bitsMatch).

The structure follows the Go code function by function; what Go rejects with an error is an `Except` branch with
the same order of checks.  The stake-proportional absence rule is `Spec.Fees.absent` (closed form); Props/C27
proves it equal to the definition regenerated from eval.go:isAbsent (Gen/Fees.lean, tie T) on 64-bit operands.

Not modelled (environment, see checks/C27.py `assumptions`): ledger lookups (`eval.state.lookup`, `lookupAgreement`,
`onlineStake`) succeed; the values they return are inputs (`State`, `Env.stake`, `Env.totalStake`).
Core Lean only.
-/
import AlgoVerif.Spec.Fees
namespace Model.KnockOffline

/-- an address: its bytes (32 in Go) -/
abbrev Addr := List Nat

/-- basics.Status -/
inductive Status where
  | offline | online | notParticipating
  deriving DecidableEq, Repr

/-- the part of ledgercore.AccountData the knock-offline step reads or writes.  `hasKey` is `!VoteID.IsEmpty()`. -/
structure Acct where
  status : Status
  bal : Nat
  hasKey : Bool
  voteFirst : Nat
  voteLast : Nat
  eligible : Bool
  lastProposed : Nat
  lastHeartbeat : Nat
  deriving DecidableEq, Repr

/-- what `lookup` returns for an address the ledger has never seen: the zero AccountData -/
def Acct.zero : Acct := ⟨.offline, 0, false, 0, 0, false, 0, 0⟩

/-- AccountData.LastSeen -/
def Acct.lastSeen (a : Acct) : Nat := max a.lastProposed a.lastHeartbeat

/-- AccountData.ClearOnlineState: Status = Offline, VotingData = {} -/
def Acct.clearOnline (a : Acct) : Acct := { a with status := .offline, hasKey := false, voteFirst := 0, voteLast := 0 }

/-- AccountData.Suspend: Status = Offline, IncentiveEligible = false; keys stay -/
def Acct.suspend (a : Acct) : Acct := { a with status := .offline, eligible := false }

/-- the evaluator's view of the accounts (cow state over the ledger): an association list, newest entry first.
(A function `Addr → Acct` would be simpler, but the compiled driver re-evaluates the nested closures exponentially.) -/
abbrev State := List (Addr × Acct)

/-- `eval.state.lookup`: unknown addresses give the zero AccountData (as the ledger does) -/
def get (st : State) (a : Addr) : Acct :=
  match st.lookup a with
  | some v => v
  | none => Acct.zero

/-- `eval.state.putAccount` -/
def put (st : State) (a : Addr) (v : Acct) : State := (a, v) :: st

theorem get_put (st : State) (a x : Addr) (v : Acct) : get (put st a v) x = if x = a then v else get st x := by
  unfold get put
  rw [List.lookup_cons]
  by_cases h : x = a
  · simp [h]
  · have : (x == a) = false := by simpa using h
    simp [this, h]

/-! ### challenge.go -/

/-- bits.LeadingZeros8 -/
def leadingZeros8 (x : Nat) : Nat :=
  if x ≥ 128 then 0 else if x ≥ 64 then 1 else if x ≥ 32 then 2 else if x ≥ 16 then 3
  else if x ≥ 8 then 4 else if x ≥ 4 then 5 else if x ≥ 2 then 6 else if x ≥ 1 then 7 else 8

/-- `bitsMatch(a, b, n)`: do the first n bits agree?  `none` is Go's index-out-of-range panic; it is
unreachable (`bitsMatch_never_panics` in Props/C27) because of the range guard. -/
def bitsMatch (a b : Addr) (n : Int) : Option Bool :=
  if n < 0 ∨ n > (a.length : Int) * 8 ∨ n > (b.length : Int) * 8 then some false
  else
    let k := n.toNat
    if a.take (k / 8) ≠ b.take (k / 8) then some false
    else if k % 8 = 0 then some true
    else match a.drop (k / 8), b.drop (k / 8) with
      | x :: _, y :: _ => some (decide (leadingZeros8 (x ^^^ y) ≥ k % 8))
      | _, _ => none

/-- `challenge{round, seed, bits}`; `round = 0` means no challenge -/
structure Challenge where
  round : Nat
  seed : Addr
  bits : Int
  deriving DecidableEq, Repr

/-- the zero challenge -/
def Challenge.none : Challenge := ⟨0, List.replicate 32 0, 0⟩

/-- `ch.Failed(address, lastSeen)` -/
def Challenge.failed (ch : Challenge) (a : Addr) (lastSeen : Nat) : Bool :=
  ch.round != 0 && (bitsMatch ch.seed a ch.bits == some true) && decide (lastSeen < ch.round)

/-- config.ProposerPayoutRules, as far as FindChallenge reads them -/
structure Rules where
  interval : Nat
  grace : Nat
  bits : Int

/-- ChallengePeriod -/
inductive Period where
  | risky | active
  deriving DecidableEq

def M64 : Nat := 18446744073709551616

/-- `FindChallenge(rules, current, headers, period)`.  `hdr r` is `headers.BlockHdr(r)`: `none` when it fails,
otherwise the header's seed and whether its consensus version has the same payout rules.  Round arithmetic is
uint64 (wrap made explicit). -/
def findChallenge (rules : Rules) (current : Nat) (hdr : Nat → Option (Addr × Bool)) (period : Period) : Challenge :=
  if rules.interval = 0 ∨ current < rules.interval then Challenge.none
  else
    let last := current - current % rules.interval
    let outside := match period with
      | .risky => decide (current ≤ (last + rules.grace / 2) % M64 ∨ current > (last + rules.grace) % M64)
      | .active => decide (current ≤ (last + rules.grace) % M64 ∨ current > (last + (2 * rules.grace) % M64) % M64)
    if outside then Challenge.none
    else match hdr last with
      | none => Challenge.none
      | some (seed, sameRules) => if sameRules then ⟨last, seed, rules.bits⟩ else Challenge.none

/-! ### the evaluator step -/

/-- everything the validators read besides the account state -/
structure Env where
  /-- eval.validate -/
  validate : Bool
  /-- eval.Round() -/
  round : Nat
  /-- proto.MaxProposedExpiredOnlineAccounts -/
  maxExpired : Nat
  /-- proto.Payouts.MaxMarkAbsent -/
  maxAbsent : Nat
  /-- eval.state.onlineStake() -/
  totalStake : Nat
  /-- eval.state.lookupAgreement(addr).VotingStake(): stake at the balance round -/
  stake : Addr → Nat
  /-- apply.FindChallenge(proto.Payouts, round, state, ChActive) -/
  ch : Challenge

inductive Err where
  | expLen | dup | noKey | notExpired | absLen | notOnline | zeroAlgos | ineligible | notAbsent
  deriving DecidableEq, Repr

/-- the loop of validateExpiredOnlineAccounts; `seen` is `addressSet` -/
def validateExpiredLoop (round : Nat) (st : State) : List Addr → List Addr → Except Err Unit
  | [], _ => .ok ()
  | a :: rest, seen =>
    if a ∈ seen then .error .dup
    else if !(get st a).hasKey then .error .noKey
    else if (get st a).voteLast ≥ round then .error .notExpired
    else validateExpiredLoop round st rest (a :: seen)

def validateExpired (env : Env) (st : State) (expired : List Addr) : Except Err Unit :=
  if !env.validate then .ok ()
  else if expired.length > env.maxExpired then .error .expLen
  else validateExpiredLoop env.round st expired []

/-- resetExpiredOnlineAccountsParticipationKeys: its own length check, then ClearOnlineState on every member -/
def resetExpired (env : Env) (st : State) (expired : List Addr) : Except Err State :=
  if expired.length > env.maxExpired then .error .expLen
  else .ok (expired.foldl (fun s a => put s a (get s a).clearOnline) st)

/-- "absent by the rule": stake-proportional lag exceeded, or an active challenge failed -/
def isAbsentOrChallenged (env : Env) (a : Addr) (lastSeen : Nat) : Bool :=
  Spec.Fees.absent env.totalStake (env.stake a) lastSeen env.round || env.ch.failed a lastSeen

/-- the loop of validateAbsentOnlineAccounts -/
def validateAbsentLoop (env : Env) (st : State) : List Addr → List Addr → Except Err Unit
  | [], _ => .ok ()
  | a :: rest, seen =>
    if a ∈ seen then .error .dup
    else if (get st a).status ≠ .online then .error .notOnline
    else if (get st a).bal = 0 then .error .zeroAlgos
    else if !(get st a).eligible then .error .ineligible
    else if isAbsentOrChallenged env a (get st a).lastSeen then validateAbsentLoop env st rest (a :: seen)
    else .error .notAbsent

def validateAbsent (env : Env) (st : State) (absent : List Addr) : Except Err Unit :=
  if !env.validate then .ok ()
  else if absent.length > env.maxAbsent then .error .absLen
  else validateAbsentLoop env st absent []

/-- suspendAbsentAccounts -/
def suspendAbsent (st : State) (absent : List Addr) : State :=
  absent.foldl (fun s a => put s a (get s a).suspend) st

/-- the four calls of endOfBlock, in order: the absent list is validated against the state in which the
expired accounts have already been reset -/
def knockOffline (env : Env) (st : State) (expired absent : List Addr) : Except Err State := do
  validateExpired env st expired
  let st1 ← resetExpired env st expired
  validateAbsent env st1 absent
  pure (suspendAbsent st1 absent)

/-! ### generateKnockOfflineAccountsList -/

/-- `candidateData` -/
structure Cand where
  addr : Addr
  voteLast : Nat
  hasKey : Bool
  status : Status
  lastProposed : Nat
  lastHeartbeat : Nat
  balWithRewards : Nat
  eligible : Bool

/-- one iteration of the loop over the candidates; `acc` = (expired, absent) built so far -/
def genStep (env : Env) (participating : List Addr) (acc : List Addr × List Addr) (c : Cand) : List Addr × List Addr :=
  if c.balWithRewards = 0 then acc
  else if c.addr ∈ participating then acc
  else if c.hasKey ∧ c.voteLast < env.round ∧ acc.1.length < env.maxExpired then (acc.1 ++ [c.addr], acc.2)
  else if acc.2.length ≥ env.maxAbsent then acc
  else if c.status = .online ∧ c.eligible = true ∧
      isAbsentOrChallenged env c.addr (max c.lastProposed c.lastHeartbeat) = true then (acc.1, acc.2 ++ [c.addr])
  else acc

/-- the lists the generator leaves in the header for candidates visited in the order `cands`
(Go iterates a map: any order is possible) -/
def generate (env : Env) (participating : List Addr) (cands : List Cand) : List Addr × List Addr :=
  cands.foldl (genStep env participating) ([], [])

/-- the candidate entry of an address as the generator builds it from the end-of-block state -/
def candOf (st : State) (a : Addr) : Cand :=
  ⟨a, (get st a).voteLast, (get st a).hasKey, (get st a).status, (get st a).lastProposed, (get st a).lastHeartbeat, (get st a).bal, (get st a).eligible⟩

end Model.KnockOffline
