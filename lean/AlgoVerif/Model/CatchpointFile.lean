/-
Model of a catchpoint FILE and of its restoration, AS CODED:

  ledger/catchpointfilewriter.go   catchpointFileWriter (FileWriteSPVerificationContext, readDatabaseStep: account chunks, then
                                   kv chunks, then online-account chunks, then online-round-params chunks; no empty chunk),
                                   repackCatchpoint (header first)
  ledger/catchupaccessor.go        ProcessStagingBalances (processStagingContent / …StateProofVerificationContext /
                                   processStagingBalances: expecting-account sequencing, per-account resource counts),
                                   the staging writers with the UNIQUE constraints of the staging tables, BuildMerkleTrie
                                   (a repeated hash is an error), GetVerifyData, VerifyCatchpoint (label maker by file version)
  ledger/acctdeltas.go             prepareNormalizedBalancesV6 (no account hash for an ExpectingMoreEntries record)
  …/sqlitedriver/catchpoint.go     WriteCatchpointStagingBalances: on a repeated address the FIRST row's data is kept

A record carries the raw encodings found in the file and the few decoded fields the accessor looks at (resource counts, flags,
update rounds); the tie prints them with the real decoders.  `splitChecked = false` is the code as it stands; `true` is the
variant in which a continuation record must repeat the account data of the record before it.
Hash parameter `H` as everywhere.  Core Lean only.
-/
import AlgoVerif.Model.Catchpoint
namespace Model.CatchpointFile
open Model.CatchpointHash Model.MerkleTrie Model.Catchpoint

structure ResRec where
  cidx : Nat
  isAsset : Bool
  isApp : Bool
  owning : Bool
  holding : Bool
  updateRound : Nat
  enc : Bytes
  deriving DecidableEq, Repr

structure AcctRec where
  addr : Bytes
  /-- ExpectingMoreEntries -/
  more : Bool
  updateRound : Nat
  rewardsBase : Nat
  totalAppParams : Nat
  totalAppLocalStates : Nat
  totalAssetParams : Nat
  totalAssets : Nat
  enc : Bytes
  res : List ResRec
  deriving DecidableEq, Repr

inductive Rec where
  | acct (a : AcctRec)
  | kv (key value : Bytes)
  | oa (addr : Bytes) (upd : Nat) (enc : Bytes)
  | orp (rnd : Nat) (enc : Bytes)
  deriving DecidableEq, Repr

inductive Section where
  | header (ver blocksRound : Nat) (totals : Bytes)
  /-- state proof verification contexts: how many, and the encoding of the wrapped list -/
  | sp (n : Nat) (enc : Bytes)
  | chunk (recs : List Rec)
  /-- a tar entry whose name ProcessStagingBalances ignores -/
  | unknown
  /-- a known entry whose bytes do not decode, or of size 0 (ledgerFetcher) -/
  | garbage
  deriving DecidableEq, Repr

abbrev File := List Section

def verV5 : Nat := 128
def verV6 : Nat := 129
def verV7 : Nat := 130
def verV8 : Nat := 131

/-- where the catchup stops -/
inductive Stage where
  | process   -- ProcessStagingBalances returned an error
  | trie      -- BuildMerkleTrie returned an error
  | noblock   -- no block for the round the file names
  | verify    -- VerifyCatchpoint returned an error
  deriving DecidableEq, Repr

structure Counts where
  appParams : Nat := 0
  appLocalStates : Nat := 0
  assetParams : Nat := 0
  assets : Nat := 0
  deriving DecidableEq, Repr

/-- staging tables + the accessor's in-memory sequencing state -/
structure Staging where
  seenHeader : Bool := false
  ver : Nat := 0
  blocksRound : Nat := 0
  totals : Bytes := []
  /-- catchpointstateproofverification (encoding of the stored list), none = empty -/
  spEnc : Option Bytes := none
  /-- catchpointbalances: address (unique) ↦ data -/
  accts : List (Bytes × Bytes) := []
  /-- catchpointresources: (address, aidx) unique ↦ data -/
  res : List ((Bytes × Nat) × Bytes) := []
  /-- catchpointassetcreators: asset unique -/
  creatables : List Nat := []
  kvs : List (Bytes × Bytes) := []
  oas : List ((Bytes × Nat) × Bytes) := []
  orps : List (Nat × Bytes) := []
  /-- catchpointpendinghashes -/
  hashes : List Bytes := []
  /-- expectingSpecificAccount / nextExpectedAccount, with the account data of the record that set it -/
  expecting : Option (Bytes × Bytes) := none
  cnt : Counts := {}
  deriving Repr

def addCounts (c : Counts) (r : ResRec) : Counts :=
  { appParams := c.appParams + (if r.isApp && r.owning then 1 else 0),
    appLocalStates := c.appLocalStates + (if r.isApp && r.holding then 1 else 0),
    assetParams := c.assetParams + (if r.isAsset && r.owning then 1 else 0),
    assets := c.assets + (if r.isAsset && r.holding then 1 else 0) }

/-- the sequencing / counting loop of processStagingBalances for one account record -/
def checkAcct (splitChecked : Bool) (st : Staging) (a : AcctRec) : Option Staging :=
  let seqOk : Bool := match st.expecting with
    | some (addr, enc) => a.addr == addr && (!splitChecked || a.enc == enc)
    | none => true
  if !seqOk then none else
  let c := a.res.foldl addCounts st.cnt
  if a.more then some { st with cnt := c, expecting := some (a.addr, a.enc) }
  else if c.appParams = a.totalAppParams ∧ c.appLocalStates = a.totalAppLocalStates ∧
      c.assetParams = a.totalAssetParams ∧ c.assets = a.totalAssets then
    some { st with cnt := {}, expecting := none }
  else none

/-- hashes of one account record (prepareNormalizedBalancesV6); none = unknown creatable kind -/
def acctHashes (H : Bytes → Bytes) (a : AcctRec) : Option (List Bytes) :=
  let rs := a.res.map fun r => resourceLeaf H r.isAsset r.isApp a.addr r.cidx r.updateRound r.enc
  if rs.all Option.isSome then
    some ((if a.more then [] else [accountLeaf H a.addr a.updateRound a.rewardsBase a.enc]) ++ rs.filterMap id)
  else none

def insertRes (addr : Bytes) (tbl : List ((Bytes × Nat) × Bytes)) (r : ResRec) : Option (List ((Bytes × Nat) × Bytes)) :=
  if tbl.any (fun x => x.1 == (addr, r.cidx)) then none else some (tbl ++ [((addr, r.cidx), r.enc)])

def insertCreatable (tbl : List Nat) (r : ResRec) : Option (List Nat) :=
  if !r.owning then some tbl else
  let t1 := if r.isAsset then (if tbl.contains r.cidx then none else some (tbl ++ [r.cidx])) else some tbl
  t1.bind fun t => if r.isApp then (if t.contains r.cidx then none else some (t ++ [r.cidx])) else some t

def foldOpt {α β : Type} (f : α → β → Option α) : α → List β → Option α
  | a, [] => some a
  | a, b :: bs => (f a b).bind fun a' => foldOpt f a' bs

/-- the staging writers for one account record -/
def writeAcct (H : Bytes → Bytes) (st : Staging) (a : AcctRec) : Option Staging :=
  (acctHashes H a).bind fun hs =>
  (foldOpt (insertRes a.addr) st.res a.res).bind fun res =>
  (foldOpt insertCreatable st.creatables a.res).map fun cr =>
  { st with
    -- INSERT; on the unique-address conflict the existing row (the FIRST data) stays
    accts := if st.accts.any (fun x => x.1 == a.addr) then st.accts else st.accts ++ [(a.addr, a.enc)],
    res := res, creatables := cr, hashes := st.hashes ++ hs }

def writeRec (H : Bytes → Bytes) (st : Staging) : Rec → Option Staging
  | .acct a => writeAcct H st a
  | .kv k v =>
    if st.kvs.any (fun x => x.1 == k) then none
    else some { st with kvs := st.kvs ++ [(k, v)], hashes := st.hashes ++ [kvLeaf H k v] }
  | .oa addr upd enc =>
    if st.oas.any (fun x => x.1 == (addr, upd)) then none else some { st with oas := st.oas ++ [((addr, upd), enc)] }
  | .orp rnd enc =>
    if st.orps.any (fun x => x.1 == rnd) then none else some { st with orps := st.orps ++ [(rnd, enc)] }

def checkRec (splitChecked : Bool) (st : Staging) : Rec → Option Staging
  | .acct a => checkAcct splitChecked st a
  | _ => some st

def supported (ver : Nat) : Bool := ver == verV5 || ver == verV6 || ver == verV7 || ver == verV8

/-- ProcessStagingBalances for one tar entry; none = error -/
def processSection (H : Bytes → Bytes) (splitChecked : Bool) (st : Staging) : Section → Option Staging
  | .header ver br totals =>
    if st.seenHeader || !supported ver then none
    else some { st with seenHeader := true, ver := ver, blocksRound := br, totals := totals }
  | .sp n enc =>
    if n = 0 then some st
    else if st.spEnc.isSome then none else some { st with spEnc := some enc }
  | .chunk recs =>
    if !st.seenHeader then none
    else if st.ver == verV5 then none      -- a V6 chunk does not decode as a V5 chunk with accounts
    else if recs.isEmpty then none
    else (foldOpt (checkRec splitChecked) st recs).bind fun st1 => foldOpt (writeRec H) st1 recs
  | .unknown => some st
  | .garbage => none

/-- insertion sort on a key (the ORDER BY of the staging iterators) -/
def insertBy {α : Type} (lt : α → α → Bool) (x : α) : List α → List α
  | [] => [x]
  | y :: ys => if lt x y then x :: y :: ys else y :: insertBy lt x ys

def sortBy {α : Type} (lt : α → α → Bool) (l : List α) : List α := l.foldr (insertBy lt) []

def bytesLt : Bytes → Bytes → Bool
  | [], [] => false
  | [], _ :: _ => true
  | _ :: _, [] => false
  | a :: as, b :: bs => if a < b then true else if b < a then false else bytesLt as bs

def hasDup : List Bytes → Bool
  | [] => false
  | x :: xs => xs.contains x || hasDup xs

def hashIdSP : Bytes := [115, 112, 118]        -- "spv"
def hashIdOA : Bytes := [79, 65]               -- "OA"
def hashIdORP : Bytes := [79, 82, 80]          -- "ORP"
/-- msgpack of catchpointStateProofVerificationContext with no data (omitempty): the empty map -/
def emptySpEnc : Bytes := [0x80]

structure VerifyData where
  root : Bytes
  totals : Bytes
  sp : Bytes
  oa : Bytes
  orp : Bytes
  deriving DecidableEq, Repr

/-- BuildMerkleTrie: none = "The provided catchpoint file contained the same account more than once" -/
def buildRoot (H : Bytes → Bytes) (st : Staging) : Option Bytes :=
  if hasDup st.hashes then none else some (canonRoot H st.hashes)

/-- GetVerifyData -/
def verifyData (H : Bytes → Bytes) (st : Staging) (root : Bytes) : VerifyData :=
  let oas := sortBy (fun a b => bytesLt a.1.1 b.1.1 || (a.1.1 == b.1.1 && a.1.2 < b.1.2)) st.oas
  let orps := sortBy (fun a b => a.1 < b.1) st.orps
  { root := root, totals := st.totals,
    sp := H (hashIdSP ++ (match st.spEnc with | some e => e | none => emptySpEnc)),
    oa := H (oas.flatMap fun x => H (hashIdOA ++ x.2)),
    orp := H (orps.flatMap fun x => H (hashIdORP ++ x.2)) }

/-- label maker chosen by VerifyCatchpoint -/
def labelVer (fileVer : Nat) : Nat := if fileVer ≤ verV6 then 6 else if fileVer = verV7 then 7 else 8

def restoredLabel (H : Bytes → Bytes) (st : Staging) (vd : VerifyData) (blockDigest : Bytes) : String :=
  makeLabel H (labelVer st.ver) st.blocksRound ⟨blockDigest, vd.root, vd.totals, vd.sp, vd.oa, vd.orp⟩

/-- the whole catchup up to the point where the node adopts the state. `blockDigest r` = digest of the block the node
obtains for round `r` (none: no such block). -/
def restore (H : Bytes → Bytes) (splitChecked : Bool) (blockDigest : Nat → Option Bytes) (expected : String) (f : File) :
    Except Stage Staging :=
  match foldOpt (processSection H splitChecked) {} f with
  | none => .error .process
  | some st =>
    match buildRoot H st with
    | none => .error .trie
    | some root =>
      match blockDigest st.blocksRound with
      | none => .error .noblock
      | some bd =>
        if restoredLabel H st (verifyData H st root) bd = expected then .ok st else .error .verify

/-! ### the producer's side -/

/-- a ledger state at the accounts round, with what the label binds besides the rows -/
structure State where
  accounts : List AcctRec      -- `more = false`, one record per account with all its resources
  kvs : List (Bytes × Bytes)
  oas : List ((Bytes × Nat) × Bytes)
  orps : List (Nat × Bytes)
  totals : Bytes
  /-- number of state proof verification contexts and the encoding of the wrapped list -/
  spN : Nat
  spEnc : Bytes
  deriving Repr

def nonEmptyChunk (recs : List Rec) : List Section := if recs.isEmpty then [] else [Section.chunk recs]

/-- the file the writer produces (current version; one chunk per record kind, no empty chunk) -/
def file (s : State) (blocksRound : Nat) : File :=
  [Section.header verV8 blocksRound s.totals, Section.sp s.spN s.spEnc] ++
  nonEmptyChunk (s.accounts.map Rec.acct) ++
  nonEmptyChunk (s.kvs.map fun x => Rec.kv x.1 x.2) ++
  nonEmptyChunk (s.oas.map fun x => Rec.oa x.1.1 x.1.2 x.2) ++
  nonEmptyChunk (s.orps.map fun x => Rec.orp x.1 x.2)

/-- every leaf of the state (what the producer's balances trie holds) -/
def stateHashes (H : Bytes → Bytes) (s : State) : Option (List Bytes) :=
  (foldOpt (fun acc a => (acctHashes H a).map (acc ++ ·)) [] s.accounts).map
    (· ++ s.kvs.map fun x => kvLeaf H x.1 x.2)

/-- the producer's label for catchpoint round `r` whose block has digest `bd` -/
def stateLabel (H : Bytes → Bytes) (s : State) (r : Nat) (bd : Bytes) : Option String :=
  (stateHashes H s).map fun hs =>
    let st : Staging := { ver := verV8, blocksRound := r, totals := s.totals,
                          spEnc := if s.spN = 0 then none else some s.spEnc, oas := s.oas, orps := s.orps }
    restoredLabel H st (verifyData H st (canonRoot H hs)) bd

end Model.CatchpointFile
