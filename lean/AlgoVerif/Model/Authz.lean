/-
Model of transaction authorization (property C28), written after the Go code branch by branch:

  data/transactions/signedtxn.go   Authorizer()
  data/transactions/verify/txn.go  txnGroupBatchPrep, logicSigGroupSizeCheck, txnBatchPrep, checkTxnSigTypeCounts,
                                   stxnCoreChecks, logicSigSanityCheckBatchPrep / LogicSigSanityCheck, logicSigVerify, txnGroup
  crypto/multisig.go               MultisigSig.Blank, Signatures, MultisigAddrGenWithSubsigs, MultisigBatchPrep
  data/transactions/pqsig.go       PQSig.Blank, validateScheme, validateEnvelope, Verify
  data/transactions/logicsig.go    LogicSig.Blank, HasProgram
  ledger/eval/eval.go              BlockEvaluator.transaction: txn.Authorizer() vs the sender's AuthAddr
  ledger/apply/apply.go            Rekey

Core Lean only.  Everything cryptographic or outside the decision logic is a PARAMETER (`Env`):
signature verification (`sigOk`, `pqOk`, `hbProofOk`), the three address hashes (`msigAddr`, `progAddr`, `pqAddr`),
TEAL (`progCheck`, `progEval`), `Transaction.WellFormed` and `CheckTxnGroup`.  The theorems of Props/C28 hold for
every `Env`; what "ideal signature" / "collision free hash" means is stated there as hypotheses on these parameters.
The byte types (addresses, keys, signatures, programs, transactions) are abstract (`Types`).

Go's batch verifier: signatures are only ENQUEUED by the prep functions and checked together at the end
(`batchVerifier.Verify()` fails iff at least one enqueued signature fails).  The model returns the enqueued list.
`LogicSigSanityCheck` and the PQ paths verify on the spot.
-/
namespace AlgoVerif.Model.Authz

/-- the byte-string types -/
structure Types where
  Addr : Type      -- basics.Address / crypto.Digest (32 bytes)
  PK : Type        -- crypto.PublicKey (32 bytes)
  Sig : Type       -- crypto.Signature (64 bytes)
  PQK : Type       -- PQSig.PublicKey ([]byte)
  PQS : Type       -- PQSig.Signature ([]byte)
  Prog : Type      -- LogicSig.Logic ([]byte)
  Txn : Type       -- transactions.Transaction (= its canonical encoding, the signed bytes)

/-- crypto.Hashable values that get signed; the constructors are the HashID domain separators
    (TX / Program / MsigProgram / PostQuantumDelegatedProgram) -/
inductive Msg (T : Types) where
  | txn (t : T.Txn)
  | prog (p : T.Prog)                     -- logic.Program
  | msigProg (a : T.Addr) (p : T.Prog)    -- logic.MultisigProgram{Addr, Program}
  | pqProg (a : T.Addr) (p : T.Prog)      -- logic.PQDelegatedProgram{Addr, Program}

/-- protocol.PQScheme ([2]byte) as b0*256+b1; zero value = 0 -/
abbrev Scheme := Nat
def schemeFalcon1024 : Scheme := 26161   -- {'f','1'}

structure SubSig (T : Types) where
  key : T.PK
  sig : T.Sig

/-- crypto.MultisigSig; `subsigs = none` is Go's nil slice (Blank() distinguishes nil from empty) -/
structure MSig (T : Types) where
  version : Nat
  threshold : Nat
  subsigs : Option (List (SubSig T))

structure PQSig (T : Types) where
  scheme : Scheme
  salt : Nat
  pk : T.PQK
  sig : T.PQS

structure LSig (T : Types) where
  logic : T.Prog
  sig : T.Sig
  msig : MSig T
  lmsig : MSig T
  pqsig : PQSig T
  numArgs : Nat      -- len(Args)
  argsLen : Nat      -- ArgsLen()

structure STxn (T : Types) where
  sig : T.Sig
  msig : MSig T
  lsig : LSig T
  pqsig : PQSig T
  txn : T.Txn
  authAddr : T.Addr

inductive EvalRes where
  | pass | reject | error
deriving DecidableEq, Repr

/-- the consensus parameters the decision reads -/
structure Params where
  supportRekeying : Bool
  enforceAuthAddrSenderDiff : Bool
  pqFalcon1024 : Bool              -- EnablePQSchemeFalcon1024 (PQSigEnabled / PQSchemeEnabled(f1))
  logicSigVersion : Nat
  logicSigMaxSize : Nat
  maxAbsLogicSigProgramSize : Nat
  logicSigMsig : Bool
  logicSigLMsig : Bool
  txnSizePricing : Bool            -- PerByteTxnSurcharge != 0
deriving Repr

structure Env (T : Types) where
  addrEq : DecidableEq T.Addr
  zeroAddr : T.Addr
  stateProofSender : T.Addr
  addrKey : T.Addr → T.PK                 -- crypto.PublicKey(addr): the same 32 bytes read as a key
  pkIsZero : T.PK → Bool
  sigBlank : T.Sig → Bool                 -- Signature.Blank(): all zero
  pqkEmpty : T.PQK → Bool                 -- len(PublicKey) == 0
  pqsEmpty : T.PQS → Bool                 -- len(Signature) == 0
  progLen : T.Prog → Nat
  progVersion : T.Prog → Option Nat       -- binary.Uvarint(Logic); none when vlen <= 0
  sender : T.Txn → T.Addr
  rekeyTo : T.Txn → T.Addr
  isStateProofTx : T.Txn → Bool           -- Type == protocol.StateProofTx
  isHeartbeat : T.Txn → Bool              -- Type == protocol.HeartbeatTx
  -- hashes
  msigAddr : Nat → Nat → List T.PK → T.Addr     -- Hash("MultisigAddr" ‖ version ‖ threshold ‖ pk₁ ‖ pk₂ …)
  progAddr : T.Prog → T.Addr                    -- HashObj(Program)
  pqAddr : Scheme → Nat → T.PQK → T.Addr        -- HashObj(pqAddressPreimage{scheme, salt, pk})
  -- verification oracles
  sigOk : T.PK → Msg T → T.Sig → Bool           -- ed25519 verify
  pqOk : T.PQK → Msg T → T.PQS → Bool           -- VerifyFalcon1024
  hbProofOk : T.Txn → Bool                      -- the signatures HbProof.BatchPrep enqueues all verify
  -- the rest of the transaction pipeline, not part of this property
  wellFormed : T.Txn → Bool
  groupCheck : List (STxn T) → Option Int       -- transactions.CheckTxnGroup: some gi = error (gi = −1: no index)
  progCheck : Nat → List (STxn T) → Bool        -- logic.CheckSignature(gi, ep) == nil
  progEval : Nat → List (STxn T) → EvalRes      -- logic.EvalSignatureFull(gi, ep)

variable {T : Types}

def Env.aeq (E : Env T) (a b : T.Addr) : Bool := @decide (a = b) (E.addrEq a b)

theorem Env.aeq_iff (E : Env T) (a b : T.Addr) : E.aeq a b = true ↔ a = b := by
  unfold Env.aeq; exact @decide_eq_true_iff _ (E.addrEq a b)

theorem Env.aeq_false_iff (E : Env T) (a b : T.Addr) : E.aeq a b = false ↔ a ≠ b := by
  have h := E.aeq_iff a b
  cases hh : E.aeq a b
  · simp only [true_iff]; intro hab; rw [hh] at h; exact absurd (h.mpr hab) (by simp)
  · simp only [Bool.true_eq_false, false_iff, ne_eq, Classical.not_not]; rw [hh] at h; exact h.mp rfl

/-! ### signedtxn.go -/

/-- SignedTxn.Authorizer -/
def authorizer (E : Env T) (s : STxn T) : T.Addr :=
  if E.aeq s.authAddr E.zeroAddr then E.sender s.txn else s.authAddr

/-! ### crypto/multisig.go -/

/-- Go's `msig.Subsigs` as a list (nil and empty both have length 0) -/
def MSig.subs (m : MSig T) : List (SubSig T) :=
  match m.subsigs with
  | none => []
  | some l => l

/-- MultisigSig.Blank -/
def MSig.blank (m : MSig T) : Bool :=
  m.version == 0 && m.threshold == 0 && m.subsigs.isNone

/-- MultisigSig.Signatures: number of subsigs whose signature is not blank -/
def signatures (E : Env T) (l : List (SubSig T)) : Nat :=
  (l.filter fun s => !E.sigBlank s.sig).length

inductive MsigErr where
  | count        -- errInvalidNumberOfSignature
  | version      -- errUnknownVersion
  | threshold    -- errInvalidThreshold
  | address      -- errInvalidAddress
deriving DecidableEq, Repr

/-- what is put into the batch verifier -/
inductive Enq (T : Types) where
  | sig (pk : T.PK) (m : Msg T) (s : T.Sig)
  | hb (t : T.Txn)

def enqOk (E : Env T) : Enq T → Bool
  | .sig pk m s => E.sigOk pk m s
  | .hb t => E.hbProofOk t

/-- batchVerifier.Verify() == nil -/
def batchOk (E : Env T) (l : List (Enq T)) : Bool := l.all (enqOk E)

/-- the signature verifications MultisigBatchPrep enqueues -/
def msigEnq (E : Env T) (msg : Msg T) (l : List (SubSig T)) : List (Enq T) :=
  (l.filter fun s => !E.sigBlank s.sig).map fun s => .sig s.key msg s.sig

/-- MultisigBatchPrep (with MultisigAddrGenWithSubsigs inlined) -/
def msigBatchPrep (E : Env T) (msg : Msg T) (addr : T.Addr) (m : MSig T) : Except MsigErr (List (Enq T)) :=
  match m.subs with
  | [] => .error .count                                              -- len(sig.Subsigs) == 0
  | s0 :: rest =>
    if E.pkIsZero s0.key && E.sigBlank s0.sig then .error .count     -- sig.Subsigs[0] == MultisigSubsig{}
    else if m.version ≠ 1 then .error .version
    else if m.threshold = 0 ∨ m.threshold > (s0 :: rest).length then .error .threshold
    else if !E.aeq addr (E.msigAddr m.version m.threshold ((s0 :: rest).map (·.key))) then .error .address
    else if (s0 :: rest).length > 255 then .error .count             -- maxMultisig
    else if signatures E (s0 :: rest) < m.threshold then .error .count
    else .ok (msigEnq E msg (s0 :: rest))

/-- MultisigVerify -/
def msigVerify (E : Env T) (msg : Msg T) (addr : T.Addr) (m : MSig T) : Bool :=
  match msigBatchPrep E msg addr m with
  | .error _ => false
  | .ok q => batchOk E q

/-! ### data/transactions/pqsig.go -/

def PQSig.blank (E : Env T) (p : PQSig T) : Bool :=
  p.scheme == 0 && p.salt == 0 && E.pqkEmpty p.pk && E.pqsEmpty p.sig

inductive PqErr where
  | blank | unsupported | disabled | authorizer | empty | badsig
deriving DecidableEq, Repr

/-- PQSig.Verify (validateScheme, validateEnvelope, then the scheme verifier) -/
def pqVerify (E : Env T) (P : Params) (msg : Msg T) (auth : T.Addr) (p : PQSig T) : Except PqErr Unit :=
  if p.blank E then .error .blank
  else if p.scheme ≠ schemeFalcon1024 then .error .unsupported       -- crypto.LookupPQScheme
  else if !P.pqFalcon1024 then .error .disabled                      -- proto.PQSchemeEnabled
  else if !E.aeq (E.pqAddr p.scheme p.salt p.pk) auth then .error .authorizer
  else if E.pqsEmpty p.sig then .error .empty
  else if !E.pqOk p.pk msg p.sig then .error .badsig
  else .ok ()

/-! ### data/transactions/logicsig.go -/

def LSig.hasProgram (E : Env T) (l : LSig T) : Bool := E.progLen l.logic != 0

def LSig.blank (E : Env T) (l : LSig T) : Bool :=
  E.progLen l.logic == 0 && l.numArgs == 0 && E.sigBlank l.sig && l.msig.blank && l.lmsig.blank && l.pqsig.blank E

/-! ### data/transactions/verify/txn.go -/

inductive LsigErr where
  | disabled | empty | tooLong | badVersion | tooNew | check | notSigned | manySigs
  | pq (e : PqErr) | badsig | lmsigUnsupported | msigUnsupported | msig (e : MsigErr)
  | evalError | rejected
deriving DecidableEq, Repr

/-- second half of logicSigSanityCheckBatchPrep: who vouches for the program (counted over the four delegation fields),
    verified on the spot because LogicSigSanityCheck runs its own batch verifier -/
def lsigDelegation (E : Env T) (P : Params) (auth : T.Addr) (l : LSig T) : Except LsigErr Unit :=
  let hasSig := !E.sigBlank l.sig
  let hasMsig := !l.msig.blank
  let hasLMsig := !l.lmsig.blank
  let hasPQ := !l.pqsig.blank E
  let numSigs := hasSig.toNat + hasMsig.toNat + hasLMsig.toNat + hasPQ.toNat
  if numSigs = 0 then
    -- txn.Authorizer() == hash(Logic): a contract-only account
    if E.aeq auth (E.progAddr l.logic) then .ok () else .error .notSigned
  else if numSigs > 1 then .error .manySigs
  else if hasPQ then
    match pqVerify E P (.pqProg auth l.logic) auth l.pqsig with
    | .error e => .error (.pq e)
    | .ok _ => .ok ()
  else if !hasMsig && !hasLMsig then
    if E.sigOk (E.addrKey auth) (.prog l.logic) l.sig then .ok () else .error .badsig
  else if hasLMsig then
    if !P.logicSigLMsig then .error .lmsigUnsupported
    else match msigBatchPrep E (.msigProg auth l.logic) auth l.lmsig with
      | .error e => .error (.msig e)
      | .ok q => if batchOk E q then .ok () else .error .badsig
  else
    if !P.logicSigMsig then .error .msigUnsupported
    else match msigBatchPrep E (.prog l.logic) auth l.msig with
      | .error e => .error (.msig e)
      | .ok q => if batchOk E q then .ok () else .error .badsig

/-- LogicSigSanityCheck = logicSigSanityCheckBatchPrep on a private batch verifier + Verify() -/
def lsigSanity (E : Env T) (P : Params) (gi : Nat) (grp : List (STxn T)) (s : STxn T) : Except LsigErr Unit :=
  let l := s.lsig
  if P.logicSigVersion = 0 then .error .disabled
  else if !l.hasProgram E then .error .empty
  else if E.progLen l.logic > P.maxAbsLogicSigProgramSize then .error .tooLong
  else match E.progVersion l.logic with
  | none => .error .badVersion
  | some v =>
    if v > P.logicSigVersion then .error .tooNew
    else if !E.progCheck gi grp then .error .check
    else lsigDelegation E P (authorizer E s) l

/-- logicSigVerify -/
def lsigVerify (E : Env T) (P : Params) (gi : Nat) (grp : List (STxn T)) (s : STxn T) : Except LsigErr Unit :=
  match lsigSanity E P gi grp s with
  | .error e => .error e
  | .ok _ =>
    match E.progEval gi grp with
    | .error => .error .evalError
    | .reject => .error .rejected
    | .pass => .ok ()

/-- TxGroupErrorReason -/
inductive Reason where
  | generic | notWellFormed | hasNoSig | sigNotWellFormed | msigNotWellFormed | logicSigFailed
deriving DecidableEq, Repr

/-- which check produced the error (finer than Go's Reason; taken from the error text by the harness) -/
inductive Detail where
  | rekeyUnsupported | authEqSender | pqNotEnabled | noSig | manySigs
  | msig (e : MsigErr) | pq (e : PqErr) | lsig (e : LsigErr)
  | wellFormed | group | orphanLsig | lsigPool | lsigArgsPool
deriving DecidableEq, Repr

structure Rej where
  reason : Reason
  gi : Int
  detail : Detail
deriving DecidableEq, Repr

inductive SigType where
  | regularSig | multiSig | logicSig | stateProofTxn | pqSig
deriving DecidableEq, Repr

/-- checkTxnSigTypeCounts -/
def sigTypeCounts (E : Env T) (s : STxn T) (gi : Nat) : Except Rej SigType :=
  let hasSig := !E.sigBlank s.sig
  let hasMsig := !s.msig.blank
  let hasLsig := s.lsig.hasProgram E
  let hasPQ := !s.pqsig.blank E
  let n := hasSig.toNat + hasMsig.toNat + hasLsig.toNat + hasPQ.toNat
  if n = 0 then
    if E.aeq (E.sender s.txn) E.stateProofSender && E.isStateProofTx s.txn then .ok .stateProofTxn
    else .error ⟨.hasNoSig, gi, .noSig⟩
  else if n > 1 then .error ⟨.sigNotWellFormed, gi, .manySigs⟩
  else if hasPQ then .ok .pqSig             -- the last assignment wins; with n = 1 exactly one of them ran
  else if hasLsig then .ok .logicSig
  else if hasMsig then .ok .multiSig
  else .ok .regularSig

/-- the heartbeat proof enqueue and the `switch sigType` of stxnCoreChecks -/
def coreDispatch (E : Env T) (P : Params) (gi : Nat) (grp : List (STxn T)) (s : STxn T) (ty : SigType) : Except Rej (List (Enq T)) :=
  let hb : List (Enq T) := if E.isHeartbeat s.txn then [.hb s.txn] else []
  match ty with
  | .regularSig => .ok (hb ++ [.sig (E.addrKey (authorizer E s)) (.txn s.txn) s.sig])
  | .multiSig =>
    match msigBatchPrep E (.txn s.txn) (authorizer E s) s.msig with
    | .error e => .error ⟨.msigNotWellFormed, gi, .msig e⟩
    | .ok q => .ok (hb ++ q)
  | .logicSig =>
    match lsigVerify E P gi grp s with
    | .error e => .error ⟨.logicSigFailed, gi, .lsig e⟩
    | .ok _ => .ok hb
  | .pqSig =>
    match pqVerify E P (.txn s.txn) (authorizer E s) s.pqsig with
    | .error e => .error ⟨.sigNotWellFormed, gi, .pq e⟩
    | .ok _ => .ok hb
  | .stateProofTxn => .ok hb

/-- stxnCoreChecks: error, or the signatures left in the batch -/
def stxnCoreChecks (E : Env T) (P : Params) (gi : Nat) (grp : List (STxn T)) (s : STxn T) : Except Rej (List (Enq T)) :=
  if !P.pqFalcon1024 && (!s.pqsig.blank E || !s.lsig.pqsig.blank E) then .error ⟨.sigNotWellFormed, gi, .pqNotEnabled⟩
  else match sigTypeCounts E s gi with
  | .error e => .error e
  | .ok ty => coreDispatch E P gi grp s ty

/-- txnBatchPrep -/
def txnBatchPrep (E : Env T) (P : Params) (gi : Nat) (grp : List (STxn T)) (s : STxn T) : Except Rej (List (Enq T)) :=
  if !P.supportRekeying && !E.aeq s.authAddr E.zeroAddr then .error ⟨.generic, gi, .rekeyUnsupported⟩
  else if P.enforceAuthAddrSenderDiff && !E.aeq s.authAddr E.zeroAddr && E.aeq s.authAddr (E.sender s.txn) then
    .error ⟨.generic, gi, .authEqSender⟩
  else stxnCoreChecks E P gi grp s

/-- state of the loop of logicSigGroupSizeCheck -/
structure PoolAcc where
  pooled : Nat := 0
  args : Nat := 0
  needPooling : Bool := false

/-- logicSigGroupSizeCheck, the loop; `i` = index of the head of `l` -/
def lsigSizeLoop (E : Env T) (P : Params) : Nat → List (STxn T) → PoolAcc → Except Rej PoolAcc
  | _, [], acc => .ok acc
  | i, s :: rest, acc =>
    let l := s.lsig
    let poolOrphan := decide (P.maxAbsLogicSigProgramSize > P.logicSigMaxSize)
    if !l.hasProgram E && (!l.blank E && P.txnSizePricing) then .error ⟨.notWellFormed, i, .orphanLsig⟩
    else if !l.hasProgram E && !poolOrphan then lsigSizeLoop E P (i + 1) rest acc      -- continue
    else
      lsigSizeLoop E P (i + 1) rest
        { pooled := acc.pooled + E.progLen l.logic + l.argsLen
          args := acc.args + l.argsLen
          needPooling := acc.needPooling || decide (l.argsLen > P.logicSigMaxSize) }

def lsigGroupSizeCheck (E : Env T) (P : Params) (grp : List (STxn T)) : Except Rej Unit :=
  match lsigSizeLoop E P 0 grp {} with
  | .error e => .error e
  | .ok acc =>
    let avail := grp.length * P.logicSigMaxSize
    if !P.txnSizePricing && acc.pooled > avail then .error ⟨.notWellFormed, -1, .lsigPool⟩
    else if acc.needPooling && acc.args > avail then .error ⟨.notWellFormed, -1, .lsigArgsPool⟩
    else .ok ()

/-- first transaction that is not WellFormed -/
def firstIllFormed (E : Env T) : Nat → List (STxn T) → Option Nat
  | _, [] => none
  | i, s :: rest => if E.wellFormed s.txn then firstIllFormed E (i + 1) rest else some i

/-- the per-transaction loop of txnGroupBatchPrep: first error wins, batches are concatenated -/
def prepLoop (E : Env T) (P : Params) (grp : List (STxn T)) : Nat → List (STxn T) → Except Rej (List (Enq T))
  | _, [] => .ok []
  | i, s :: rest =>
    match txnBatchPrep E P i grp s with
    | .error e => .error e
    | .ok q =>
      match prepLoop E P grp (i + 1) rest with
      | .error e => .error e
      | .ok q' => .ok (q ++ q')

/-- txnGroupBatchPrep for a non-empty group (PrepareGroupContext cannot fail for a known protocol) -/
def groupBatchPrep (E : Env T) (P : Params) (grp : List (STxn T)) : Except Rej (List (Enq T)) :=
  match firstIllFormed E 0 grp with
  | some i => .error ⟨.notWellFormed, i, .wellFormed⟩
  | none =>
    match E.groupCheck grp with
    | some gi => .error ⟨.notWellFormed, gi, .group⟩
    | none =>
      match lsigGroupSizeCheck E P grp with
      | .error e => .error e
      | .ok _ => prepLoop E P grp 0 grp

inductive Res where
  | ok
  | rej (r : Rej)
  | batchFailed          -- crypto.ErrBatchHasFailedSigs
  | panicked             -- "panic while verifying transaction group" (recovered by txnGroup, returned as an error)
deriving DecidableEq, Repr

/-- verify.TxnGroup.  For the empty group PrepareGroupContext returns a nil context, which logicSigGroupSizeCheck
    dereferences: the panic is recovered by txnGroup and reported as an error. -/
def verifyGroup (E : Env T) (P : Params) (grp : List (STxn T)) : Res :=
  match grp with
  | [] => .panicked
  | _ :: _ =>
    match groupBatchPrep E P grp with
    | .error e => .rej e
    | .ok q => if batchOk E q then .ok else .batchFailed

/-! ### ledger/eval/eval.go, ledger/apply/apply.go -/

/-- the key that currently controls an account: `acctdata.AuthAddr`, or the address itself when that is zero -/
def spendingKey (E : Env T) (acctAuth sender : T.Addr) : T.Addr :=
  if E.aeq acctAuth E.zeroAddr then sender else acctAuth

/-- BlockEvaluator.transaction: `txn.Authorizer() != correctAuthorizer` ⇒ error -/
def evalAuthCheck (E : Env T) (acctAuth : T.Addr) (s : STxn T) : Bool :=
  E.aeq (authorizer E s) (spendingKey E acctAuth (E.sender s.txn))

/-- apply.Rekey: the sender's new AuthAddr -/
def rekey (E : Env T) (acctAuth : T.Addr) (t : T.Txn) : T.Addr :=
  if E.aeq (E.rekeyTo t) E.zeroAddr then acctAuth
  else if E.aeq (E.rekeyTo t) (E.sender t) then E.zeroAddr
  else E.rekeyTo t

/-- a prep result on its own batch: no error and every enqueued signature verifies -/
def accepted (E : Env T) : Except Rej (List (Enq T)) → Bool
  | .error _ => false
  | .ok q => batchOk E q

/-- one transaction, both layers: the stateless signature check (alone in its batch) and the evaluator's check -/
def acceptTxn (E : Env T) (P : Params) (gi : Nat) (grp : List (STxn T)) (acctAuth : T.Addr) (s : STxn T) : Bool :=
  accepted E (txnBatchPrep E P gi grp s) && evalAuthCheck E acctAuth s

/-! ### data/transactions/verify/verifiedTxnCache.go — the verified-transaction cache -/

/-- the fields of a SignedTxn other than the transaction body (which the txid, the cache key, covers) -/
inductive Field where
  | sig | msig | lsig | pqsig | authAddr
deriving DecidableEq, Repr

/-- the equality tests the cache lookup uses (`==`, MultisigSig.Equal, LogicSig.Equal, PQSig.Equal, Txid equality) -/
structure FieldEq (T : Types) where
  txid : T.Txn → T.Txn → Bool
  sig : T.Sig → T.Sig → Bool
  msig : MSig T → MSig T → Bool
  lsig : LSig T → LSig T → Bool
  pqsig : PQSig T → PQSig T → Bool
  addr : T.Addr → T.Addr → Bool

def sameField (Q : FieldEq T) (a b : STxn T) : Field → Bool
  | .sig => Q.sig a.sig b.sig
  | .msig => Q.msig a.msig b.msig
  | .lsig => Q.lsig a.lsig b.lsig
  | .pqsig => Q.pqsig a.pqsig b.pqsig
  | .authAddr => Q.addr a.authAddr b.authAddr

/-- the comparison of a presented SignedTxn with the cached one; `fields` = the fields the Go code compares
    (extracted from the current source into Gen/AuthzCacheKey.lean on every run) -/
def sameMaterial (Q : FieldEq T) (fields : List Field) (cached presented : STxn T) : Bool :=
  fields.all (sameField Q cached presented)

/-- a cached GroupContext: the verification context (special addresses + consensus version) and the verified group -/
structure CacheEntry (T : Types) (C : Type) where
  ctx : C
  grp : List (STxn T)

/-- the entry found for a txid: the most recently added group that contains it (a later Add overrides; bucket rotation
    and pinning are not modelled) -/
def findEntry {C : Type} (Q : FieldEq T) (cache : List (CacheEntry T C)) (t : T.Txn) : Option (CacheEntry T C) :=
  cache.find? fun e => e.grp.any fun s => Q.txid s.txn t

/-- the member loop of GetUnverifiedTransactionGroups: `some true` = every member from index `i` on is cached,
    `none` = Go indexes the cached group out of range (panic) -/
def membersCached {C : Type} (Q : FieldEq T) (fields : List Field) (ctxEq : C → C → Bool) (cache : List (CacheEntry T C)) (ctx : C) :
    Nat → List (STxn T) → Option Bool
  | _, [] => some true
  | i, s :: rest =>
    match findEntry Q cache s.txn with
    | none => some false
    | some e =>
      if !ctxEq e.ctx ctx then some false
      else match e.grp[i]? with
        | none => none
        | some c => if sameMaterial Q fields c s then membersCached Q fields ctxEq cache ctx (i + 1) rest else some false

/-- a group is filtered out as already verified: all members cached and at least one member -/
def cacheHit {C : Type} (Q : FieldEq T) (fields : List Field) (ctxEq : C → C → Bool) (cache : List (CacheEntry T C)) (ctx : C)
    (grp : List (STxn T)) : Option Bool :=
  match grp with
  | [] => some false
  | _ :: _ => membersCached Q fields ctxEq cache ctx 0 grp

inductive ViaRes where
  | hit                    -- filtered out by the cache: not verified again
  | miss (r : Res)         -- verified by PaysetGroups
  | panicked
deriving DecidableEq, Repr

/-- verify.TxnGroup with a cache: a verified group is added -/
def verifyAdd {C : Type} (E : Env T) (P : Params) (cache : List (CacheEntry T C)) (ctx : C) (grp : List (STxn T)) :
    Res × List (CacheEntry T C) :=
  let r := verifyGroup E P grp
  (r, if r = .ok then ⟨ctx, grp⟩ :: cache else cache)

/-- block validation: GetUnverifiedTransactionGroups, then PaysetGroups on what is left (which adds what it verified) -/
def verifyVia {C : Type} (E : Env T) (P : Params) (Q : FieldEq T) (fields : List Field) (ctxEq : C → C → Bool)
    (cache : List (CacheEntry T C)) (ctx : C) (grp : List (STxn T)) : ViaRes × List (CacheEntry T C) :=
  match cacheHit Q fields ctxEq cache ctx grp with
  | none => (.panicked, cache)
  | some true => (.hit, cache)
  | some false =>
    let (r, cache') := verifyAdd E P cache ctx grp
    (.miss r, cache')

end AlgoVerif.Model.Authz
