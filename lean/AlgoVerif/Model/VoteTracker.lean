/-
Model of agreement/voteTracker.go (voteTracker.handle / count / overThreshold / genBundle),
agreement/bundle.go (makeBundle, the structural part of unauthenticatedBundle.verifyAsync) and
agreement/types.go (step.reachesQuorum).  Core Lean only (linked into the `c06` driver).

Conventions
* A sender (basics.Address) is a `Nat`; the order on `Nat` is the `bytes.Compare` order of the addresses
  the harness builds (big-endian encoding of the number).  A proposal-value is a `Nat` (0 = bottom).
* A Go `map[K]V` is an association list in insertion order; lookups take the first match, deletions
  filter.  Nothing observable depends on Go's map iteration order: `overThreshold` panics as soon as two
  keys are over the threshold whatever the order, `genBundle` sorts with a total order on senders.
* `uint64` weights are `Nat`: the sums formed here are bounded by the total stake (< 2^64), recorded as an
  assumption of the check.
* One tracker serves one (round, period, step): `Cfg` holds the step and its threshold
  (`step.threshold(proto)`); `reachesQuorum` is `step.reachesQuorum(proto, ·)`.
* Every `Panicf` / runtime-panic site is an explicit `Except.error`.
-/
namespace AlgoVerif.Model.VoteTracker

/-- `vote` restricted to what the tracker reads: R.Sender, Cred.Weight, R.Proposal.  The signature of a
vote is determined by the vote (the harness derives it from sender and value). -/
structure Vote where
  sender : Nat
  weight : Nat
  value : Nat
deriving DecidableEq, Repr, Inhabited

/-- `equivocationVote`: Sender, Cred (of the FIRST vote), Proposals[0..1] (Sigs follow the proposals). -/
structure EqVote where
  sender : Nat
  weight : Nat
  p0 : Nat
  p1 : Nat
deriving DecidableEq, Repr, Inhabited

/-- `proposalVoteCounter` -/
structure Counter where
  count : Nat
  votes : List Vote
deriving DecidableEq, Repr, Inhabited

/-- `voteTracker` -/
structure Tracker where
  voters : List Vote := []
  counts : List (Nat × Counter) := []
  equivocators : List EqVote := []
  eqCount : Nat := 0
deriving DecidableEq, Repr, Inhabited

structure Cfg where
  step : Nat
  T : Nat
deriving Repr, Inhabited

inductive PanicKind
  | tooManyEquivocators   -- voteTracker.handle: "too many equivocators for step"
  | twoOverThreshold      -- overThreshold: "more than value reached a threhsold"
  | indexOutOfRange       -- genBundle: votes[0] on an empty slice
  | bundleNoVotes         -- makeBundle: "no votes present in bundle"
  | bundleWrongValue      -- makeBundle: "invalid vote passed into function"
  | bundleNotEnough       -- makeBundle: "not enough votes to generate bundle"
deriving DecidableEq, Repr, Inhabited

/-- `unauthenticatedBundle` (Round/Period/Step are those of the tracker) -/
structure Bundle where
  proposal : Nat
  votes : List Vote
  eqVotes : List EqVote
deriving DecidableEq, Repr, Inhabited

/-- `thresholdEvent`; `kind` 1 = softThreshold, 2 = certThreshold, 3 = nextThreshold -/
inductive Event
  | none
  | threshold (kind : Nat) (proposal : Nat) (bundle : Bundle)
deriving DecidableEq, Repr, Inhabited

/-- `step.reachesQuorum`: `propose` (0) never reaches a quorum, every other step compares with its threshold -/
def reachesQuorum (c : Cfg) (w : Nat) : Bool :=
  if c.step = 0 then false else decide (c.T ≤ w)

/-! ### Go map primitives on association lists -/

/-- `tracker.Voters[s]` -/
def findVoter (l : List Vote) (s : Nat) : Option Vote := l.find? (fun y => y.sender == s)
/-- `tracker.Equivocators[s]` -/
def findEq (l : List EqVote) (s : Nat) : Option EqVote := l.find? (fun y => y.sender == s)

def zeroCounter : Counter := ⟨0, []⟩

/-- `tracker.Counts[v]`: Go returns the zero `proposalVoteCounter` for an absent key -/
def getCounter (l : List (Nat × Counter)) (v : Nat) : Counter :=
  match l.lookup v with
  | some c => c
  | none => zeroCounter

/-- `tracker.Counts[v] = c` -/
def setCounter : List (Nat × Counter) → Nat → Counter → List (Nat × Counter)
  | [], v, c => [(v, c)]
  | (k, d) :: rest, v, c => if k = v then (v, c) :: rest else (k, d) :: setCounter rest v c

/-- `delete(tracker.Counts, v)` -/
def delCounter (l : List (Nat × Counter)) (v : Nat) : List (Nat × Counter) :=
  l.filter (fun kv => kv.1 != v)

/-- `tracker.count(proposal)` -/
def count (t : Tracker) (v : Nat) : Nat := (getCounter t.counts v).count + t.eqCount

/-- the loop of `overThreshold` over the keys of `Counts`; `acc` is `(res, ok)` -/
def overLoop (c : Cfg) (t : Tracker) : List (Nat × Counter) → Option Nat → Except PanicKind (Option Nat)
  | [], acc => .ok acc
  | kv :: rest, acc =>
    if reachesQuorum c (count t kv.1) then
      match acc with
      | some _ => .error .twoOverThreshold
      | none => overLoop c t rest (some kv.1)
    else overLoop c t rest acc

/-- `tracker.overThreshold(proto, step, log)` -/
def overThreshold (c : Cfg) (t : Tracker) : Except PanicKind (Option Nat) :=
  overLoop c t t.counts none

/-! ### genBundle / makeBundle -/

/-- the `less` of both `sort.SliceStable` calls: heavier first, then larger address first -/
def before (w₁ s₁ w₂ s₂ : Nat) : Bool := decide (w₁ > w₂) || (w₁ == w₂ && decide (s₁ > s₂))

def insertBy {α : Type} (lt : α → α → Bool) (a : α) : List α → List α
  | [] => [a]
  | b :: rest => if lt b a then b :: insertBy lt a rest else a :: b :: rest

def sortBy {α : Type} (lt : α → α → Bool) : List α → List α
  | [] => []
  | a :: rest => insertBy lt a (sortBy lt rest)

def voteBefore (a b : Vote) : Bool := before a.weight a.sender b.weight b.sender
def eqBefore (a b : EqVote) : Bool := before a.weight a.sender b.weight b.sender

/-- `for ; !reachesQuorum(weight) && cutoff < len(xs); cutoff++ { weight += xs[cutoff].weight }; xs[:cutoff]`
returns the kept prefix and the final weight -/
def takeQuorum {α : Type} (c : Cfg) (wt : α → Nat) : Nat → List α → List α × Nat
  | w, [] => ([], w)
  | w, a :: rest =>
    if reachesQuorum c w then ([], w)
    else
      let r := takeQuorum c wt (w + wt a) rest
      (a :: r.1, r.2)

/-- `makeBundle(proto, targetProposal, votes, equivocationVotes)` -/
def makeBundle (c : Cfg) (target : Nat) (votes : List Vote) (eqs : List EqVote) : Except PanicKind Bundle :=
  if votes.isEmpty then .error .bundleNoVotes
  else if votes.any (fun v => v.value != target) then .error .bundleWrongValue
  else
    let r₁ := takeQuorum c Vote.weight 0 votes
    let r₂ := takeQuorum c EqVote.weight r₁.2 eqs
    if !reachesQuorum c r₂.2 then .error .bundleNotEnough
    else .ok { proposal := target, votes := r₁.1, eqVotes := r₂.1 }

/-- `tracker.genBundle(proto, proposalVotes)` -/
def genBundle (c : Cfg) (t : Tracker) (pv : Counter) : Except PanicKind Bundle :=
  let votes := sortBy voteBefore pv.votes
  match votes with
  | [] => .error .indexOutOfRange              -- votes[0] in the first loop condition
  | _ :: _ =>
    let r₁ := takeQuorum c Vote.weight 0 votes
    match r₁.1 with
    | [] => .error .indexOutOfRange            -- votes = votes[:0]; votes[0] in the second loop condition
    | v0 :: _ =>
      let eqs := sortBy eqBefore t.equivocators
      let r₂ := takeQuorum c EqVote.weight r₁.2 eqs
      makeBundle c v0.value r₁.1 r₂.1

/-! ### handle -/

def eventKind (c : Cfg) : Nat := if c.step = 1 then 1 else if c.step = 2 then 2 else 3

/-- the tail of `handle` shared by the two state-changing branches:
`prop, overAfter := overThreshold(); if overBefore || !overAfter { return res }; … genBundle` -/
def finish (c : Cfg) (t' : Tracker) (overBefore : Bool) : Except PanicKind (Tracker × Event) :=
  match overThreshold c t' with
  | .error k => .error k
  | .ok none => .ok (t', .none)
  | .ok (some prop) =>
    if overBefore then .ok (t', .none)
    else
      match genBundle c t' (getCounter t'.counts prop) with
      | .error k => .error k
      | .ok b => .ok (t', .threshold (eventKind c) prop b)

/-- `voteTracker.handle` on a `voteAcceptedEvent` -/
def handle (c : Cfg) (t : Tracker) (x : Vote) : Except PanicKind (Tracker × Event) :=
  match findEq t.equivocators x.sender with
  | some _ => .ok (t, .none)                      -- known equivocator: dropped
  | none =>
    match overThreshold c t with
    | .error k => .error k
    | .ok ob =>
      let overBefore := ob.isSome
      match findVoter t.voters x.sender with
      | none =>
        -- first vote of this sender
        let pv := getCounter t.counts x.value
        let pv' : Counter := { count := pv.count + x.weight, votes := pv.votes ++ [x] }
        let t' : Tracker := { t with voters := t.voters ++ [x], counts := setCounter t.counts x.value pv' }
        finish c t' overBefore
      | some old =>
        if old.value = x.value then .ok (t, .none)   -- duplicate
        else
          let eqc := t.eqCount + x.weight
          if reachesQuorum c eqc then .error .tooManyEquivocators
          else
            let counts' :=
              if (getCounter t.counts old.value).count ≤ old.weight then delCounter t.counts old.value
              else
                let pv := getCounter t.counts old.value
                setCounter t.counts old.value
                  { count := pv.count - old.weight, votes := pv.votes.filter (fun y => y.sender != x.sender) }
            let t' : Tracker :=
              { voters := t.voters.filter (fun y => y.sender != x.sender)
                counts := counts'
                equivocators := t.equivocators ++ [⟨old.sender, old.weight, old.value, x.value⟩]
                eqCount := eqc }
            if t'.voters.isEmpty then .ok (t', .none)
            else finish c t' overBefore

/-- run a whole history from a given state, collecting the emitted events -/
def runFrom (c : Cfg) : Tracker → List Vote → Except PanicKind (Tracker × List Event)
  | t, [] => .ok (t, [])
  | t, x :: rest =>
    match handle c t x with
    | .error k => .error k
    | .ok (t', e) =>
      match runFrom c t' rest with
      | .error k => .error k
      | .ok (t'', es) => .ok (t'', e :: es)

def run (c : Cfg) (vs : List Vote) : Except PanicKind (Tracker × List Event) := runFrom c {} vs

/-! ### the structural part of `unauthenticatedBundle.verifyAsync`
`valid` stands for `unauthenticatedVote.verify` (signature + credential, giving the verified weight). -/
def nodupNat : List Nat → Bool
  | [] => true
  | a :: rest => !rest.contains a && nodupNat rest

def Bundle.verify (c : Cfg) (valid : Vote → Bool) (b : Bundle) : Bool :=
  let nv := b.votes.length
  let ne := b.eqVotes.length
  decide (c.step ≠ 0)
  && !(decide (nv > c.T) || decide (ne > c.T) || decide (nv + ne > c.T))
  && nodupNat (b.votes.map Vote.sender ++ b.eqVotes.map EqVote.sender)
  && b.votes.all (fun a => valid ⟨a.sender, a.weight, b.proposal⟩)
  && b.eqVotes.all (fun e => e.p0 != e.p1 && valid ⟨e.sender, e.weight, e.p0⟩ && valid ⟨e.sender, e.weight, e.p1⟩)
  && reachesQuorum c ((b.votes.map Vote.weight).sum + (b.eqVotes.map EqVote.weight).sum)

end AlgoVerif.Model.VoteTracker
