import AlgoVerif.Driver.C42
/-! exe `c42`: the vpack model (stateless + stateful layers, both table states) behind the line protocol. -/
open AlgoVerif
def main (_args : List String) : IO UInt32 := do
  Drv.foldLines ({} : Driver.C42.St) Driver.C42.step; return 0
