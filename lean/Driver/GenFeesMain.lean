import AlgoVerif.Driver.GenFees
open AlgoVerif
def main (_args : List String) : IO UInt32 := do
  Drv.mapLines Driver.GenFees.handle; return 0
