import AlgoVerif.Driver.C18b
/-! exe `c18b`: Model.BlockMoney behind the line protocol of the C18 block-level harness (TestVerifC18Block). -/
open AlgoVerif
def main (_args : List String) : IO UInt32 := do
  Drv.foldLines ({} : Driver.C18b.St) Driver.C18b.step; return 0
