import AlgoVerif.Driver.C44
/-! exe `c44`: the transaction-pool model behind the line protocol. -/
open AlgoVerif
def main (_args : List String) : IO UInt32 := do
  Drv.foldLines ({} : Driver.C44.DState) Driver.C44.stepLine; return 0
