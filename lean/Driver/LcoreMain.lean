import AlgoVerif.Driver.Lcore
/-! exe `lcore`: Model.LedgerCore behind the LedgerCore line protocol (C18, C19, C21, C22). -/
open AlgoVerif
def main (_args : List String) : IO UInt32 := do
  Drv.foldLines ({} : Driver.Lcore.St) Driver.Lcore.step; return 0
