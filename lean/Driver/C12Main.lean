import AlgoVerif.Driver.C12
/-! exe `c12`: Model.Totals (calculateTotals / roundTotals / Sum) behind the line protocol of the C12 harness. -/
open AlgoVerif
def main (_args : List String) : IO UInt32 := do
  Drv.foldLines ({} : Driver.C12.St) Driver.C12.step; return 0
