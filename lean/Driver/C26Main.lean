import AlgoVerif.Driver.C26
/-! exe `c26`: the hand-written upgrade state machine model (Model.Upgrade) behind the line protocol. -/
open AlgoVerif
def main (_args : List String) : IO UInt32 := do
  Drv.mapLines Driver.C26.handle; return 0
