import AlgoVerif.Driver.C1416
/-! exe `c1416`: the catchpoint label / bookkeeping model (C14) and the catchpoint file restore model (C16). -/
open AlgoVerif
def main (_args : List String) : IO UInt32 := do
  Drv.foldLines ({} : Driver.C1416.St) Driver.C1416.step; return 0
