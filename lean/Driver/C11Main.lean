import AlgoVerif.Driver.C11
/-! exe `c11`: Model.TxTail (txTail + cow duplicate checks + persisted tail / reload) behind the line protocol.
    `c11 old-guard` models the loadFromDisk loop guard as it was before the C11 fix (used by the corpus explanation only). -/
open AlgoVerif
def main (args : List String) : IO UInt32 := do
  Drv.foldLines ({ strict := args.contains "old-guard" } : Driver.C11.St) Driver.C11.step; return 0
