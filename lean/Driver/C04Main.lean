import AlgoVerif.Driver.C04
/-! exe `c04`: Model.Bundle behind the C04 line protocol. -/
open AlgoVerif
def main (_args : List String) : IO UInt32 := do
  Drv.mapLines Driver.C04.handle; return 0
