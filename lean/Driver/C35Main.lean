import AlgoVerif.Driver.C35
/-! exe `c35`: Model.Resources behind the stateful line protocol of the C35 harness. -/
open AlgoVerif
def main (_args : List String) : IO UInt32 := do
  Drv.foldLines (default : Driver.C35.St) Driver.C35.step; return 0
