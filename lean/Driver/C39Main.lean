import AlgoVerif.Driver.C39
/-! exe `c39`: the state-proof prover / verifier model (ideal primitives) behind the line protocol. -/
open AlgoVerif
def main (_args : List String) : IO UInt32 := do
  Drv.mapLines Driver.C39.handle; return 0
