import AlgoVerif.Driver.Au
/-! exe `au`: `au spec` = the history oracle (Spec.LedgerHistory); `au model` = Model.AcctUpdates, both behind the line protocol. -/
open AlgoVerif
def main (args : List String) : IO UInt32 := do
  Drv.foldLines ({ model := args.head? == some "model" } : Driver.Au.St) Driver.Au.step; return 0
