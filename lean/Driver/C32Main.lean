import AlgoVerif.Driver.C32
/-! exe `c32`: `c32` / `c32 spec` evaluates Spec.AVMArith, `c32 model` the code-shaped Model.AVMArith. -/
open AlgoVerif
def main (args : List String) : IO UInt32 := do
  match args with
  | ["model"] => Drv.mapLines Driver.C32.handleModel
  | _ => Drv.mapLines Driver.C32.handleSpec
  return 0
