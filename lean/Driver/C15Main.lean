import AlgoVerif.Driver.C15
/-! exe `c15`: the catchpoint pre-image / label model (with SHA-512/256 in Lean) behind the line protocol. -/
open AlgoVerif
def main (_args : List String) : IO UInt32 := do
  Drv.mapLines Driver.C15.handle; return 0
