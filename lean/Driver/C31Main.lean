import AlgoVerif.Driver.C31
/-! exe `c31`: Model.AVM (interpreter skeleton + modelled op family) behind the line protocol. -/
open AlgoVerif
def main (_args : List String) : IO UInt32 := do
  Drv.mapLines Driver.C31.handle; return 0
