import AlgoVerif.Driver.C33
/-! exe `c33`: Model.AsmFormat (encode / decode / print / parse / staticCheck over the generated tables) behind the line protocol. -/
open AlgoVerif
def main (_args : List String) : IO UInt32 := do
  Drv.mapLines Driver.C33.handle; return 0
