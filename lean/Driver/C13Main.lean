import AlgoVerif.Driver.C13
/-! exe `c13`: `c13 spec` = the history oracle (Spec.OnlineHistory); `c13 model` = Model.OnlineAccts, both behind the line protocol. -/
open AlgoVerif
def main (args : List String) : IO UInt32 := do
  Drv.foldLines ({ model := args.head? == some "model" } : Driver.C13.St) Driver.C13.step; return 0
