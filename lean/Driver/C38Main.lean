import AlgoVerif.Driver.C38
/-! exe `c38`: the state-proof weights / coin-threshold model behind the line protocol. -/
open AlgoVerif
def main (_args : List String) : IO UInt32 := do
  Drv.mapLines Driver.C38.handle; return 0
