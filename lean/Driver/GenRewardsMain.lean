import AlgoVerif.Driver.GenRewards
open AlgoVerif
def main (_args : List String) : IO UInt32 := do
  Drv.mapLines Driver.GenRewards.handle; return 0
