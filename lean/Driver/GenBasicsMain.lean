import AlgoVerif.Driver.GenBasics
open AlgoVerif
def main (_args : List String) : IO UInt32 := do
  Drv.mapLines Driver.GenBasics.handle; return 0
