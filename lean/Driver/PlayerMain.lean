import AlgoVerif.Driver.Player
/-! exe `player`: Model.Player (PlayerM) behind the PlayerDrive line protocol. -/
open AlgoVerif
def main (_args : List String) : IO UInt32 := do
  Drv.foldLines ({} : Driver.Player.St) Driver.Player.step; return 0
