import AlgoVerif.Driver.C30
/-! exe `c30`: the catchup acceptor (Model.Catchup) behind the line protocol. -/
open AlgoVerif
def main (_args : List String) : IO UInt32 := do
  Drv.foldLines Driver.C30.DState.none Driver.C30.handle; return 0
