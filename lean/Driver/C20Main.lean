import AlgoVerif.Driver.C20
/-! exe `c20`: Model.BlockEval behind the C20 line protocol. -/
open AlgoVerif
def main (_args : List String) : IO UInt32 := do
  Drv.foldLines ({} : Driver.C20.St) Driver.C20.step; return 0
