import AlgoVerif.Driver.C06
/-! exe `c06`: Model.VoteTracker behind the C06 line protocol. -/
open AlgoVerif
def main (_args : List String) : IO UInt32 := do
  Drv.foldLines ({} : Driver.C06.St) Driver.C06.step; return 0
