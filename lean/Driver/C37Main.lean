import AlgoVerif.Driver.C37
/-! exe `c37`: the merklearray model behind the line protocol. Args: `lenl|fixed` `nodepth|depth` [`hashcheck`]. -/
open AlgoVerif
def main (args : List String) : IO UInt32 := do
  let fixedOff := args.contains "fixed"
  let checkDepth := args.contains "depth"
  let checkHash := args.contains "hashcheck"
  if ¬ (args.contains "fixed" ∨ args.contains "lenl") ∨ ¬ (args.contains "depth" ∨ args.contains "nodepth") then
    IO.eprintln "usage: c37 lenl|fixed nodepth|depth"
    return 2
  Drv.mapLines (Driver.C37.handle fixedOff checkDepth checkHash); return 0
