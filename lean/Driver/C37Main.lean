import AlgoVerif.Driver.C37
/-! exe `c37`: the merklearray model behind the line protocol. Args: `lenl|fixed` `nodepth|depth`. -/
open AlgoVerif
def main (args : List String) : IO UInt32 := do
  let fixedOff := args.contains "fixed"
  let checkDepth := args.contains "depth"
  if ¬ (args.contains "fixed" ∨ args.contains "lenl") ∨ ¬ (args.contains "depth" ∨ args.contains "nodepth") then
    IO.eprintln "usage: c37 lenl|fixed nodepth|depth"
    return 2
  Drv.mapLines (Driver.C37.handle fixedOff checkDepth); return 0
