import AlgoVerif.Driver.C34
/-! exe `c34`: Model.OpTables over the generated OpSpecs rows behind the line protocol. -/
open AlgoVerif
def main (_args : List String) : IO UInt32 := do
  Drv.mapLines Driver.C34.handle; return 0
