import AlgoVerif.Driver.Fees
open AlgoVerif
def main (_args : List String) : IO UInt32 := do
  Drv.mapLines Driver.Fees.handle; return 0
