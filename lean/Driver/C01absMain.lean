import AlgoVerif.Driver.C01abs
/-! exe `c01abs`: trace acceptor for the abstract agreement model (grammar: AlgoVerif/Driver/C01abs.lean). -/
open AlgoVerif
def main (_args : List String) : IO UInt32 := do
  Drv.foldLines ({} : Driver.C01abs.St) Driver.C01abs.handle; return 0
