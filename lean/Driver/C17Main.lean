import AlgoVerif.Driver.C17
/-! exe `c17`: the merkle trie model (Model.MerkleTrie) behind the line protocol. -/
open AlgoVerif
def main (_args : List String) : IO UInt32 := do
  Drv.foldLines Driver.C17.St.init Driver.C17.step; return 0
