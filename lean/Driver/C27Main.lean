import AlgoVerif.Driver.C27
/-! exe `c27`: the hand-written knock-offline model (Model.KnockOffline) behind the line protocol. Imports nothing generated. -/
open AlgoVerif
def main (_args : List String) : IO UInt32 := do
  Drv.mapLines Driver.C27.handle; return 0
