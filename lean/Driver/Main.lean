import AlgoVerif.Base.Drv
import AlgoVerif.Driver.C45
/-! `drv <model>`: the hand-written models/specs behind the line protocol. Imports nothing generated. -/
open AlgoVerif

def main (args : List String) : IO UInt32 := do
  match args with
  | ["c45"] => Drv.mapLines Driver.C45.handle; return 0
  | _ => IO.eprintln s!"unknown model {args}"; return 2
