import AlgoVerif.Driver.C29
/-! exe `c29`: the commitment model (group ids, payset commitments, PreCheck prefix) behind the line protocol. -/
open AlgoVerif
def main (_args : List String) : IO UInt32 := do
  Drv.mapLines Driver.C29.handle; return 0
