import AlgoVerif.Driver.C45
/-! exe `c45`: the hand-written exact-arithmetic spec behind the line protocol. Imports nothing generated. -/
open AlgoVerif
def main (_args : List String) : IO UInt32 := do
  Drv.mapLines Driver.C45.handle; return 0
