import AlgoVerif.Driver.C41
/-! exe `c41`: the bounded msgp decoder (Model.BoundedDecoder) and the decode-site policy (Model.MsgpSite over Gen.MsgpSites) behind the line protocol. -/
open AlgoVerif
def main (_args : List String) : IO UInt32 := do
  Drv.foldLines ([] : Driver.C41.St) Driver.C41.step; return 0
