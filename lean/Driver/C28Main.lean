import AlgoVerif.Driver.C28
import AlgoVerif.Gen.AuthzCacheKey
/-! exe `c28`: Model.Authz behind the line protocol (verify layer `g …`, cache path `c …`, evaluator layer `reset`/`grp …`).
The cache model compares the fields listed in Gen/AuthzCacheKey.lean (regenerated from the Go source on every run);
`c28 all-fields` compares all five fields regardless (the behaviour the theorems demand). -/
open AlgoVerif AlgoVerif.Model.Authz
def main (args : List String) : IO UInt32 := do
  let fields : List Field := if args.contains "all-fields" then [.sig, .msig, .lsig, .pqsig, .authAddr] else Gen.AuthzCacheKey.comparedFields
  Drv.foldLines ({} : Driver.C28.State) (Driver.C28.step fields); return 0
