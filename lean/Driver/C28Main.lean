import AlgoVerif.Driver.C28
/-! exe `c28`: Model.Authz behind the line protocol (verify layer `g …` lines, evaluator layer `reset`/`grp …` lines). -/
open AlgoVerif
def main (_args : List String) : IO UInt32 := do
  Drv.foldLines ([] : Driver.C28.Accts) Driver.C28.step; return 0
