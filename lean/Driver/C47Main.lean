import AlgoVerif.Driver.C47
/-! exe `c47 [deviation ...]`: Spec.TrackerStore (plus the named generic-KV deviations) behind the C47 line protocol. -/
open AlgoVerif
def main (args : List String) : IO UInt32 := do
  Drv.foldLines ({ quirks := args } : Driver.C47.St) Driver.C47.step; return 0
