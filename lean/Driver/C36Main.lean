import AlgoVerif.Driver.C36
/-! exe `c36`: the OneTimeSig model (crypto/onetimesig.go) behind the line protocol. -/
open AlgoVerif
def main (_args : List String) : IO UInt32 := do
  Drv.mapLines Driver.C36.handle; return 0
