import AlgoVerif.Driver.C05
/-! exe `c05`: reaction functions of the synchronous-phase model (grammar: AlgoVerif/Driver/C05.lean). -/
open AlgoVerif
def main (_args : List String) : IO UInt32 := do
  Drv.mapLines Driver.C05.handle; return 0
