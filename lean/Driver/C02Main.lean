import AlgoVerif.Driver.C02
/-! exe `c02`: acceptor of the C02 hook trace (grammar: AlgoVerif/Driver/C02.lean). -/
open AlgoVerif
def main (_args : List String) : IO UInt32 := do
  Drv.foldLines ({} : Driver.C02.St) Driver.C02.handle; return 0
