import AlgoVerif.Driver.C25
open AlgoVerif
def main (_args : List String) : IO UInt32 := do
  Drv.mapLines Driver.C25.handle; return 0
