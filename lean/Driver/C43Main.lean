import AlgoVerif.Driver.C43
/-! exe `c43`: Model.Net (slurper, message filter, read-loop rule) behind the line protocol. -/
open AlgoVerif
def main (_args : List String) : IO UInt32 := do
  Drv.foldLines ({} : Driver.C43.St) Driver.C43.step; return 0
