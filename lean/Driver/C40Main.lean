import AlgoVerif.Driver.C40
/-! exe `c40`: msgpack canonical-form classifier (Base.Msgpack) behind the line protocol. -/
open AlgoVerif
def main (_args : List String) : IO UInt32 := do
  Drv.foldLines ([] : Driver.C40.St) Driver.C40.step; return 0
