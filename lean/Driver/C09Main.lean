import AlgoVerif.Driver.C09
/-! exe `c09`: the crash-recovery acceptor (Model.Durable) behind the line protocol. -/
open AlgoVerif
def main (_args : List String) : IO UInt32 := do
  Drv.foldLines Driver.C09.fresh Driver.C09.handle; return 0
