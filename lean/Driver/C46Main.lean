import AlgoVerif.Driver.C46
/-! exe `c46`: the kmd SQLite wallet model (daemon/kmd/wallet/driver/sqlite.go) behind the line protocol. -/
open AlgoVerif
def main (_args : List String) : IO UInt32 := do
  Drv.mapLines Driver.C46.handle; return 0
