import AlgoVerif.Driver.C23
/-! exe `c23`: Model.AppStorage behind the line protocol of the C23 harness. -/
open AlgoVerif
def main (_args : List String) : IO UInt32 := do
  Drv.foldLines (Model.AppStorage.State.empty) Driver.C23.step; return 0
