// go2lean: translate a small pure-integer subset of Go into Lean 4 definitions.
//
// Injected into the repo module by the overlay (as /repo/zz_verif_tools/go2lean) so that it
// type-checks the CURRENT working tree with the repo's own toolchain and dependency versions.
//
//	go run -overlay <ovl> ./zz_verif_tools/go2lean -config <json> -out <dir>
//
// Config: [{"module":"Basics","namespace":"Gen.Basics","roots":[{"pkg":"…/data/basics","funcs":["OAdd","MicroAlgos.MulMicros"]}]}]
// Every function reachable from the roots through calls into the go-algorand module is
// translated too. Anything outside the supported subset is a hard error ("untranslatable"),
// which breaks the tie instead of silently skipping code.
//
// Semantics of the output (helpers in AlgoVerif/Base/U64.lean):
//   - unsigned integers of width w are Nat, every wrapping operation is explicit (uadd/usub/umul/…);
//   - signed integers are Int with explicit wrap (iwrap);
//   - structs with a single field are erased to that field; other structs become Lean structures
//     containing the fields the translated code uses (all fields when all are translatable);
//   - `error` becomes Bool (true = non-nil); logging calls are erased; pointer receivers whose
//     fields are assigned are threaded as state (the method returns the updated receiver last);
//   - `panic` and callees that may panic put the function in the Option monad (none = panic);
//   - Go's division-by-zero panic is NOT modelled (Lean's total `/` and `%`); see DESIGN.md §4.
package main

import (
	"crypto/sha256"
	"encoding/json"
	"flag"
	"fmt"
	"go/ast"
	"go/constant"
	"go/token"
	"go/types"
	"os"
	"path/filepath"
	"sort"
	"strings"

	"golang.org/x/tools/go/packages"
)

const modPrefix = "github.com/algorand/go-algorand"

type rootSpec struct {
	Pkg   string   `json:"pkg"`
	Funcs []string `json:"funcs"`
}
type moduleSpec struct {
	Module    string     `json:"module"`
	Namespace string     `json:"namespace"`
	Roots     []rootSpec `json:"roots"`
	Uses      []string   `json:"uses"` // modules (earlier in the config) whose definitions are referenced, not re-emitted
}

type untranslatable struct{ msg string }

func fail(pos token.Pos, f string, a ...any) {
	panic(untranslatable{fmt.Sprintf("%s: %s", fset.Position(pos), fmt.Sprintf(f, a...))})
}

var fset *token.FileSet
var pkgs map[string]*packages.Package // by path

// ---------------------------------------------------------------------------------------------

type fnInfo struct {
	obj      *types.Func
	decl     *ast.FuncDecl
	pkg      *packages.Package
	name     string // Lean name
	mayPanic bool
	stateful bool // pointer receiver with assigned fields
	callees  []*types.Func
	wparams  []string // width parameters (one per constraints.Unsigned-like type param)
	text     string
	hash     string
}

var doneGens = map[string]*gen{} // module name → finished generator (for "uses")

type gen struct {
	used    []*gen
	spec    moduleSpec
	fns     map[*types.Func]*fnInfo
	order   []*types.Func
	structs map[*types.Named]map[string]bool // used fields
	sorder  []*types.Named
	shared  map[*types.Named]int // structs defined by a used module → number of fields it had there
}

func findDecl(fn *types.Func) (*ast.FuncDecl, *packages.Package) {
	p := pkgs[fn.Pkg().Path()]
	if p == nil {
		return nil, nil
	}
	for _, f := range p.Syntax {
		for _, d := range f.Decls {
			if fd, ok := d.(*ast.FuncDecl); ok {
				if p.TypesInfo.Defs[fd.Name] == fn {
					return fd, p
				}
			}
		}
	}
	return nil, p
}

func leanFuncName(fn *types.Func) string {
	sig := fn.Type().(*types.Signature)
	if r := sig.Recv(); r != nil {
		t := r.Type()
		if p, ok := t.(*types.Pointer); ok {
			t = p.Elem()
		}
		if n, ok := t.(*types.Named); ok {
			return n.Obj().Name() + "_" + fn.Name()
		}
	}
	return fn.Name()
}

// ---------------------------------------------------------------------------------------------
// types

type ity struct {
	kind   string // "u","i","bool","struct","err","erased","tuple"
	width  string // for u/i: "64" or a width variable name
	named  *types.Named
	fields []*types.Var
}

func (g *gen) widthOfTypeParam(tp *types.TypeParam, f *fnInfo) (string, bool) {
	// a constraint whose type set is exactly ~uint64 → fixed width 64; an unsigned union → width var
	iface := tp.Constraint().Underlying().(*types.Interface)
	var terms []*types.Term
	var collect func(t types.Type)
	collect = func(t types.Type) {
		switch x := t.(type) {
		case *types.Union:
			for i := 0; i < x.Len(); i++ {
				terms = append(terms, x.Term(i))
			}
		case *types.Named:
			collect(x.Underlying())
		case *types.Interface:
			for i := 0; i < x.NumEmbeddeds(); i++ {
				collect(x.EmbeddedType(i))
			}
		default:
			terms = append(terms, types.NewTerm(true, t))
		}
	}
	collect(iface)
	if len(terms) == 0 {
		return "", false
	}
	allUnsigned := true
	for _, t := range terms {
		b, ok := t.Type().Underlying().(*types.Basic)
		if !ok || b.Info()&types.IsUnsigned == 0 {
			allUnsigned = false
		}
	}
	if !allUnsigned {
		return "", false
	}
	if len(terms) == 1 {
		return basicWidth(terms[0].Type().Underlying().(*types.Basic)), true
	}
	return "w" + tp.Obj().Name(), true
}

func basicWidth(b *types.Basic) string {
	switch b.Kind() {
	case types.Uint8, types.Int8:
		return "8"
	case types.Uint16, types.Int16:
		return "16"
	case types.Uint32, types.Int32:
		return "32"
	default:
		return "64"
	}
}

func isLogger(t types.Type) bool {
	s := t.String()
	return strings.HasSuffix(s, "logging.Logger")
}

func (g *gen) classify(t types.Type, f *fnInfo, pos token.Pos) ity {
	if isLogger(t) {
		return ity{kind: "erased"}
	}
	switch x := t.(type) {
	case *types.TypeParam:
		if w, ok := g.widthOfTypeParam(x, f); ok {
			return ity{kind: "u", width: w}
		}
		fail(pos, "unsupported type parameter %s", x)
	case *types.Pointer:
		return g.classify(x.Elem(), f, pos)
	case *types.Tuple:
		return ity{kind: "tuple"}
	}
	if t.String() == "error" {
		return ity{kind: "err"}
	}
	switch u := t.Underlying().(type) {
	case *types.Basic:
		switch {
		case u.Info()&types.IsBoolean != 0:
			return ity{kind: "bool"}
		case u.Info()&types.IsUnsigned != 0:
			return ity{kind: "u", width: basicWidth(u)}
		case u.Info()&types.IsInteger != 0:
			return ity{kind: "i", width: basicWidth(u)}
		}
	case *types.Struct:
		n, _ := t.(*types.Named)
		if n == nil {
			if a, ok := t.(*types.Alias); ok {
				n, _ = types.Unalias(a).(*types.Named)
			}
		}
		if u.NumFields() == 1 && n != nil {
			r := g.classify(u.Field(0).Type(), f, pos)
			return r
		}
		if n != nil {
			if _, ok := g.structs[n]; !ok {
				shared := false
				for _, u := range g.used {
					if m, ok := u.structs[n]; ok {
						g.structs[n] = m // same map: a field the used module lacks is detected at emit time
						g.shared[n] = len(m)
						shared = true
					}
				}
				if !shared {
					g.structs[n] = map[string]bool{}
					g.sorder = append(g.sorder, n)
				}
			}
			return ity{kind: "struct", named: n}
		}
	}
	fail(pos, "unsupported type %s", t)
	return ity{}
}

func structLeanName(n *types.Named) string { return n.Obj().Pkg().Name() + "_" + n.Obj().Name() }

func (g *gen) leanType(t types.Type, f *fnInfo, pos token.Pos) string {
	c := g.classify(t, f, pos)
	switch c.kind {
	case "u":
		return "Nat"
	case "i":
		return "Int"
	case "bool", "err":
		return "Bool"
	case "struct":
		return structLeanName(c.named)
	}
	fail(pos, "no Lean type for %s", t)
	return ""
}

func pow2(w string) string { return "(2^" + w + ")" }

func (g *gen) zero(t types.Type, f *fnInfo, pos token.Pos) string {
	c := g.classify(t, f, pos)
	switch c.kind {
	case "u", "i":
		return "0"
	case "bool", "err":
		return "false"
	case "struct":
		return "(default : " + structLeanName(c.named) + ")"
	}
	fail(pos, "no zero value for %s", t)
	return ""
}

// ---------------------------------------------------------------------------------------------
// function translation

type fctx struct {
	g       *gen
	f       *fnInfo
	info    *types.Info
	sig     *types.Signature
	results []*types.Var // named results (or nil)
	recv    *types.Var
	tmp     int
	hoist   []string // pending `let` lines produced while translating an expression
}

func (c *fctx) fresh(p string) string { c.tmp++; return fmt.Sprintf("%s_%d", p, c.tmp) }

func ident(s string) string {
	switch s {
	case "min", "max", "end", "from", "at", "have", "show", "then", "else", "if", "fun", "let", "in", "do", "def", "open", "local", "prefix", "where", "with", "by", "calc", "match", "Type", "Prop", "instance", "structure", "class", "theorem", "example", "variable", "universe", "namespace", "section", "import", "export", "deriving", "macro", "syntax", "notation", "infix", "postfix", "mutual", "private", "protected", "partial", "unsafe", "noncomputable", "abbrev", "axiom", "inductive", "return", "for", "unless", "try", "catch", "finally", "mut", "this", "nomatch", "nofun", "using", "suffices", "obtain", "attribute", "set_option", "initialize", "opaque", "extends", "hiding", "renaming", "end_":
		return s + "'"
	}
	if s == "_" {
		return "_"
	}
	return s
}

func (c *fctx) retTuple(vals []string) string {
	if c.f.stateful {
		vals = append(append([]string{}, vals...), ident(c.recv.Name()))
	}
	var s string
	switch len(vals) {
	case 0:
		s = "()"
	case 1:
		s = vals[0]
	default:
		s = "(" + strings.Join(vals, ", ") + ")"
	}
	if c.f.mayPanic {
		return "some " + paren(s)
	}
	return s
}

func paren(s string) string {
	if strings.ContainsAny(s, " \n") && !(strings.HasPrefix(s, "(") && balancedOuter(s)) {
		return "(" + s + ")"
	}
	return s
}

func balancedOuter(s string) bool {
	d := 0
	for i, r := range s {
		if r == '(' {
			d++
		} else if r == ')' {
			d--
			if d == 0 && i != len(s)-1 {
				return false
			}
		}
	}
	return d == 0
}

func containsReturn(n ast.Node) bool {
	found := false
	ast.Inspect(n, func(x ast.Node) bool {
		switch s := x.(type) {
		case *ast.ReturnStmt:
			found = true
		case *ast.ExprStmt:
			if call, ok := s.X.(*ast.CallExpr); ok {
				if id, ok := call.Fun.(*ast.Ident); ok && id.Name == "panic" {
					found = true
				}
				if sel, ok := call.Fun.(*ast.SelectorExpr); ok && (strings.HasPrefix(sel.Sel.Name, "Panic") || strings.HasPrefix(sel.Sel.Name, "Fatal")) {
					found = true
				}
			}
		case *ast.FuncLit:
			return false
		}
		return !found
	})
	return found
}

// assigned outer variables (objects used on the LHS of = / op= / ++ within n, not declared within n)
func (c *fctx) assignedOuter(n ast.Node) []types.Object {
	declared := map[types.Object]bool{}
	seen := map[types.Object]bool{}
	var out []types.Object
	ast.Inspect(n, func(x ast.Node) bool {
		if id, ok := x.(*ast.Ident); ok {
			if o := c.info.Defs[id]; o != nil {
				declared[o] = true
			}
		}
		return true
	})
	add := func(e ast.Expr) {
		for {
			switch y := e.(type) {
			case *ast.SelectorExpr:
				e = y.X
				continue
			case *ast.ParenExpr:
				e = y.X
				continue
			case *ast.StarExpr:
				e = y.X
				continue
			}
			break
		}
		if id, ok := e.(*ast.Ident); ok {
			o := c.info.Uses[id]
			if o == nil {
				return
			}
			if _, isVar := o.(*types.Var); isVar && !declared[o] && !seen[o] {
				seen[o] = true
				out = append(out, o)
			}
		}
	}
	ast.Inspect(n, func(x ast.Node) bool {
		switch s := x.(type) {
		case *ast.AssignStmt:
			for _, l := range s.Lhs {
				add(l)
			}
		case *ast.IncDecStmt:
			add(s.X)
		case *ast.CallExpr:
			// stateful method call on an outer receiver mutates it
			if callee := c.calleeOf(s); callee != nil {
				if fi := c.g.fns[callee]; fi != nil && fi.stateful {
					if sel, ok := s.Fun.(*ast.SelectorExpr); ok {
						add(sel.X)
					}
				}
			}
		}
		return true
	})
	return out
}

func (c *fctx) calleeOf(call *ast.CallExpr) *types.Func {
	var id *ast.Ident
	switch f := call.Fun.(type) {
	case *ast.Ident:
		id = f
	case *ast.SelectorExpr:
		id = f.Sel
	case *ast.IndexExpr:
		switch g := f.X.(type) {
		case *ast.Ident:
			id = g
		case *ast.SelectorExpr:
			id = g.Sel
		}
	}
	if id == nil {
		return nil
	}
	if fn, ok := c.info.Uses[id].(*types.Func); ok {
		return fn.Origin()
	}
	return nil
}

// block translates statements; k() gives the term for "falling off the end".
func (c *fctx) block(stmts []ast.Stmt, k func() string) string {
	if len(stmts) == 0 {
		return k()
	}
	s := stmts[0]
	rest := func() string { return c.block(stmts[1:], k) }
	switch st := s.(type) {
	case *ast.ReturnStmt:
		return c.ret(st)
	case *ast.BlockStmt:
		return c.block(append(append([]ast.Stmt{}, st.List...), stmts[1:]...), k)
	case *ast.EmptyStmt:
		return rest()
	case *ast.DeclStmt:
		gd := st.Decl.(*ast.GenDecl)
		if gd.Tok == token.CONST || gd.Tok == token.TYPE {
			return rest()
		}
		var lines []string
		for _, sp := range gd.Specs {
			vs := sp.(*ast.ValueSpec)
			for i, n := range vs.Names {
				o := c.info.Defs[n]
				if c.g.classifyOK(o.Type(), c.f) == "erased" {
					continue
				}
				var v string
				if len(vs.Values) > i {
					v = c.exprTo(vs.Values[i], o.Type())
				} else {
					v = c.g.zero(o.Type(), c.f, n.Pos())
				}
				lines = append(lines, c.flushHoist()+fmt.Sprintf("let %s := %s\n", ident(n.Name), v))
			}
		}
		return strings.Join(lines, "") + rest()
	case *ast.ExprStmt:
		call, ok := st.X.(*ast.CallExpr)
		if !ok {
			fail(st.Pos(), "unsupported expression statement")
		}
		if id, ok := call.Fun.(*ast.Ident); ok && id.Name == "panic" {
			if !c.f.mayPanic {
				fail(st.Pos(), "internal: panic in function not marked mayPanic")
			}
			return "none"
		}
		if isLoggerPanic(c.info, call) {
			if !c.f.mayPanic {
				fail(st.Pos(), "internal: logger panic in function not marked mayPanic")
			}
			return "none"
		}
		if c.isErasedCall(call) {
			return rest()
		}
		v := c.expr(call)
		return c.flushHoist() + "let _ := " + v + "\n" + rest()
	case *ast.IncDecStmt:
		one := &ast.BasicLit{Kind: token.INT, Value: "1"}
		op := token.ADD
		if st.Tok == token.DEC {
			op = token.SUB
		}
		t := c.info.TypeOf(st.X)
		v := c.binop(op, c.expr(st.X), "1", t, t, st.Pos())
		_ = one
		return c.flushHoist() + c.assignTo(st.X, v) + rest()
	case *ast.AssignStmt:
		return c.assign(st) + rest()
	case *ast.IfStmt:
		var pre string
		if st.Init != nil {
			// scoped init: translate as a statement before the if (names are unique enough in this subset)
			return c.block(append([]ast.Stmt{st.Init, &ast.IfStmt{If: st.If, Cond: st.Cond, Body: st.Body, Else: st.Else}}, stmts[1:]...), k)
		}
		cond := c.cond(st.Cond)
		pre = c.flushHoist()
		var elseStmts []ast.Stmt
		if st.Else != nil {
			switch e := st.Else.(type) {
			case *ast.BlockStmt:
				elseStmts = e.List
			default:
				elseStmts = []ast.Stmt{e}
			}
		}
		if !containsReturn(st.Body) && (st.Else == nil || !containsReturn(st.Else)) {
			// join form
			objs := c.assignedOuter(st)
			if len(objs) == 0 {
				// no effect on outer state (e.g. only logging)
				return pre + rest()
			}
			var names []string
			for _, o := range objs {
				names = append(names, ident(o.Name()))
			}
			tup := names[0]
			if len(names) > 1 {
				tup = "(" + strings.Join(names, ", ") + ")"
			}
			yield := func() string { return tup }
			a := c.block(st.Body.List, yield)
			b := c.block(elseStmts, yield)
			return pre + fmt.Sprintf("let %s := if %s then\n%s\nelse\n%s\n", tup, cond, indent(a), indent(b)) + rest()
		}
		// CPS form: duplicate the continuation
		a := c.block(st.Body.List, rest)
		b := c.block(elseStmts, rest)
		return pre + fmt.Sprintf("if %s then\n%s\nelse\n%s", cond, indent(a), indent(b))
	case *ast.SwitchStmt:
		// switch on a tag or tagless, no fallthrough: rewrite as if-chain
		if st.Init != nil {
			fail(st.Pos(), "switch with init")
		}
		var chain ast.Stmt
		var clauses []*ast.CaseClause
		for _, cc := range st.Body.List {
			clauses = append(clauses, cc.(*ast.CaseClause))
		}
		var def *ast.CaseClause
		for i := len(clauses) - 1; i >= 0; i-- {
			cc := clauses[i]
			if cc.List == nil {
				def = cc
			}
		}
		if def != nil {
			chain = &ast.BlockStmt{List: def.Body}
		}
		for i := len(clauses) - 1; i >= 0; i-- {
			cc := clauses[i]
			if cc.List == nil {
				continue
			}
			var cond ast.Expr
			for _, e := range cc.List {
				var one ast.Expr = e
				if st.Tag != nil {
					be := &ast.BinaryExpr{X: st.Tag, Op: token.EQL, Y: e, OpPos: e.Pos()}
					c.info.Types[be] = types.TypeAndValue{Type: types.Typ[types.Bool]}
					one = be
				}
				if cond == nil {
					cond = one
				} else {
					be := &ast.BinaryExpr{X: cond, Op: token.LOR, Y: one, OpPos: e.Pos()}
					c.info.Types[be] = types.TypeAndValue{Type: types.Typ[types.Bool]}
					cond = be
				}
			}
			ifs := &ast.IfStmt{If: cc.Pos(), Cond: cond, Body: &ast.BlockStmt{List: cc.Body}}
			if chain != nil {
				ifs.Else = chain
			}
			chain = ifs
		}
		if chain == nil {
			return rest()
		}
		return c.block(append([]ast.Stmt{chain}, stmts[1:]...), k)
	}
	fail(s.Pos(), "unsupported statement %T", s)
	return ""
}

func indent(s string) string {
	lines := strings.Split(strings.TrimRight(s, "\n"), "\n")
	for i := range lines {
		lines[i] = "  " + lines[i]
	}
	return strings.Join(lines, "\n")
}

func (c *fctx) flushHoist() string {
	s := strings.Join(c.hoist, "")
	c.hoist = nil
	return s
}

func (c *fctx) ret(st *ast.ReturnStmt) string {
	if len(st.Results) == 0 {
		var vals []string
		for _, r := range c.results {
			if c.g.classifyOK(r.Type(), c.f) == "erased" {
				continue
			}
			vals = append(vals, ident(r.Name()))
		}
		return c.retTuple(vals)
	}
	res := c.sig.Results()
	var vals []string
	if len(st.Results) == 1 && res.Len() > 1 {
		// return f(...) forwarding a tuple
		call, ok := st.Results[0].(*ast.CallExpr)
		if !ok {
			fail(st.Pos(), "tuple return of non-call")
		}
		v := c.expr(call)
		names := make([]string, res.Len())
		for i := range names {
			names[i] = c.fresh("r")
		}
		pre := c.flushHoist()
		return pre + fmt.Sprintf("let (%s) := %s\n", strings.Join(names, ", "), v) + c.retTuple(names)
	}
	for i, e := range st.Results {
		vals = append(vals, c.exprTo(e, res.At(i).Type()))
	}
	pre := c.flushHoist()
	return pre + c.retTuple(vals)
}

func (c *fctx) assignTo(lhs ast.Expr, v string) string {
	switch l := lhs.(type) {
	case *ast.Ident:
		if l.Name == "_" {
			return ""
		}
		return fmt.Sprintf("let %s := %s\n", ident(l.Name), v)
	case *ast.ParenExpr:
		return c.assignTo(l.X, v)
	case *ast.SelectorExpr:
		// x.F = v  or x.F.G = v with erased single-field structs
		xt := c.info.TypeOf(l.X)
		cx := c.g.classify(xt, c.f, l.Pos())
		if cx.kind != "struct" {
			// erased single-field struct: assigning its field assigns the whole
			return c.assignTo(l.X, v)
		}
		c.g.structs[cx.named][l.Sel.Name] = true
		cur := c.expr(l.X)
		return c.assignTo(l.X, fmt.Sprintf("{ %s with %s := %s }", cur, ident(l.Sel.Name), v))
	}
	fail(lhs.Pos(), "unsupported assignment target %T", lhs)
	return ""
}

func (c *fctx) assign(st *ast.AssignStmt) string {
	if st.Tok != token.ASSIGN && st.Tok != token.DEFINE {
		// op=
		var op token.Token
		switch st.Tok {
		case token.ADD_ASSIGN:
			op = token.ADD
		case token.SUB_ASSIGN:
			op = token.SUB
		case token.MUL_ASSIGN:
			op = token.MUL
		case token.QUO_ASSIGN:
			op = token.QUO
		case token.REM_ASSIGN:
			op = token.REM
		default:
			fail(st.Pos(), "unsupported assignment op %s", st.Tok)
		}
		t := c.info.TypeOf(st.Lhs[0])
		v := c.binop(op, c.expr(st.Lhs[0]), c.exprTo(st.Rhs[0], t), t, t, st.Pos())
		return c.flushHoist() + c.assignTo(st.Lhs[0], v)
	}
	if len(st.Lhs) > 1 && len(st.Rhs) == 1 {
		v := c.expr(st.Rhs[0])
		pre := c.flushHoist()
		var names []string
		var post string
		for _, l := range st.Lhs {
			if id, ok := l.(*ast.Ident); ok {
				if id.Name != "_" && c.g.classifyOK(c.info.TypeOf(l), c.f) == "erased" {
					names = append(names, "_")
					continue
				}
				names = append(names, ident(id.Name))
			} else {
				t := c.fresh("t")
				names = append(names, t)
				post += c.assignTo(l, t)
			}
		}
		return pre + fmt.Sprintf("let (%s) := %s\n", strings.Join(names, ", "), v) + post
	}
	if len(st.Lhs) != len(st.Rhs) {
		fail(st.Pos(), "assignment arity")
	}
	if len(st.Lhs) == 1 {
		if c.g.classifyOK(c.info.TypeOf(st.Lhs[0]), c.f) == "erased" {
			return ""
		}
		v := c.exprTo(st.Rhs[0], c.info.TypeOf(st.Lhs[0]))
		return c.flushHoist() + c.assignTo(st.Lhs[0], v)
	}
	// parallel assignment: evaluate all, then bind
	var tmps []string
	out := ""
	for i := range st.Lhs {
		v := c.exprTo(st.Rhs[i], c.info.TypeOf(st.Lhs[i]))
		t := c.fresh("p")
		tmps = append(tmps, t)
		out += c.flushHoist() + fmt.Sprintf("let %s := %s\n", t, v)
	}
	for i, l := range st.Lhs {
		out += c.assignTo(l, tmps[i])
	}
	return out
}

func (g *gen) classifyOK(t types.Type, f *fnInfo) (kind string) {
	defer func() {
		if r := recover(); r != nil {
			kind = "bad"
		}
	}()
	return g.classify(t, f, token.NoPos).kind
}

func (c *fctx) isErasedCall(call *ast.CallExpr) bool {
	if sel, ok := call.Fun.(*ast.SelectorExpr); ok {
		if t := c.info.TypeOf(sel.X); t != nil && isLogger(t) {
			return true
		}
	}
	return false
}

// a logger call that does not return (Panic*, Fatal*)
func isLoggerPanic(info *types.Info, call *ast.CallExpr) bool {
	if sel, ok := call.Fun.(*ast.SelectorExpr); ok {
		if t := info.TypeOf(sel.X); t != nil && isLogger(t) {
			return strings.HasPrefix(sel.Sel.Name, "Panic") || strings.HasPrefix(sel.Sel.Name, "Fatal")
		}
	}
	return false
}

// cond translates a boolean expression to a Lean Prop-or-Bool usable after `if`.
func (c *fctx) cond(e ast.Expr) string {
	return c.expr(e) // all booleans are Bool (decide …) — `if b then` coerces
}

func (c *fctx) constLit(tv types.TypeAndValue, pos token.Pos) (string, bool) {
	if tv.Value == nil {
		return "", false
	}
	switch tv.Value.Kind() {
	case constant.Bool:
		if constant.BoolVal(tv.Value) {
			return "true", true
		}
		return "false", true
	case constant.Int, constant.Float:
		iv := constant.ToInt(tv.Value)
		if iv.Kind() != constant.Int {
			fail(pos, "non-integer constant")
		}
		s := iv.ExactString()
		if strings.HasPrefix(s, "-") {
			return "(" + s + " : Int)", true
		}
		k := c.g.classifyOK(tv.Type, c.f)
		if k == "i" {
			return "(" + s + " : Int)", true
		}
		return s, true
	}
	return "", false
}

func (c *fctx) exprTo(e ast.Expr, target types.Type) string {
	if target != nil && target.String() == "error" {
		if id, ok := e.(*ast.Ident); ok && id.Name == "nil" {
			return "false"
		}
		if t := c.info.TypeOf(e); t != nil && t.String() == "error" {
			return c.expr(e)
		}
		return "true" // a concrete error value: non-nil
	}
	// untyped constants take the target's type; otherwise same as expr
	tv := c.info.Types[e]
	if tv.Value != nil {
		tv2 := tv
		if b, ok := tv.Type.(*types.Basic); ok && b.Info()&types.IsUntyped != 0 {
			tv2.Type = target
		}
		if s, ok := c.constLit(tv2, e.Pos()); ok {
			return s
		}
	}
	return c.expr(e)
}

func (c *fctx) binop(op token.Token, a, b string, ta, tb types.Type, pos token.Pos) string {
	ca := c.g.classify(ta, c.f, pos)
	switch op {
	case token.LAND:
		return fmt.Sprintf("(%s && %s)", a, b)
	case token.LOR:
		return fmt.Sprintf("(%s || %s)", a, b)
	}
	if ca.kind == "bool" || ca.kind == "err" {
		switch op {
		case token.EQL:
			return fmt.Sprintf("(%s == %s)", a, b)
		case token.NEQ:
			return fmt.Sprintf("(%s != %s)", a, b)
		}
	}
	if ca.kind == "struct" {
		switch op {
		case token.EQL:
			c.g.needAllFields(ca.named, pos)
			return fmt.Sprintf("(%s == %s)", a, b)
		case token.NEQ:
			c.g.needAllFields(ca.named, pos)
			return fmt.Sprintf("(%s != %s)", a, b)
		}
	}
	switch op {
	case token.EQL:
		return fmt.Sprintf("decide (%s = %s)", a, b)
	case token.NEQ:
		return fmt.Sprintf("decide (%s ≠ %s)", a, b)
	case token.LSS:
		return fmt.Sprintf("decide (%s < %s)", a, b)
	case token.LEQ:
		return fmt.Sprintf("decide (%s ≤ %s)", a, b)
	case token.GTR:
		return fmt.Sprintf("decide (%s > %s)", a, b)
	case token.GEQ:
		return fmt.Sprintf("decide (%s ≥ %s)", a, b)
	}
	if ca.kind == "u" {
		w := ca.width
		switch op {
		case token.ADD:
			return fmt.Sprintf("uadd %s %s %s", w, paren(a), paren(b))
		case token.SUB:
			return fmt.Sprintf("usub %s %s %s", w, paren(a), paren(b))
		case token.MUL:
			return fmt.Sprintf("umul %s %s %s", w, paren(a), paren(b))
		case token.QUO:
			return fmt.Sprintf("%s / %s", paren(a), paren(b))
		case token.REM:
			return fmt.Sprintf("%s %% %s", paren(a), paren(b))
		case token.AND:
			return fmt.Sprintf("%s &&& %s", paren(a), paren(b))
		case token.OR:
			return fmt.Sprintf("%s ||| %s", paren(a), paren(b))
		case token.XOR:
			return fmt.Sprintf("%s ^^^ %s", paren(a), paren(b))
		case token.AND_NOT:
			return fmt.Sprintf("uandnot %s %s %s", w, paren(a), paren(b))
		case token.SHL:
			return fmt.Sprintf("ushl %s %s %s", w, paren(a), paren(b))
		case token.SHR:
			return fmt.Sprintf("%s >>> %s", paren(a), paren(b))
		}
	}
	if ca.kind == "i" {
		w := ca.width
		switch op {
		case token.ADD:
			return fmt.Sprintf("iwrap %s (%s + %s)", w, a, b)
		case token.SUB:
			return fmt.Sprintf("iwrap %s (%s - %s)", w, a, b)
		case token.MUL:
			return fmt.Sprintf("iwrap %s (%s * %s)", w, a, b)
		case token.QUO:
			return fmt.Sprintf("iwrap %s (Int.tdiv %s %s)", w, paren(a), paren(b))
		case token.REM:
			return fmt.Sprintf("Int.tmod %s %s", paren(a), paren(b))
		}
	}
	fail(pos, "unsupported operator %s on %s", op, ta)
	return ""
}

func (g *gen) needAllFields(n *types.Named, pos token.Pos) {
	st := n.Underlying().(*types.Struct)
	for i := 0; i < st.NumFields(); i++ {
		if g.classifyOK(st.Field(i).Type(), nil) == "bad" {
			fail(pos, "struct %s compared but field %s untranslatable", n, st.Field(i).Name())
		}
		g.structs[n][st.Field(i).Name()] = true
	}
}

func (c *fctx) convert(v string, from, to types.Type, pos token.Pos) string {
	cf := c.g.classify(from, c.f, pos)
	ct := c.g.classify(to, c.f, pos)
	switch {
	case cf.kind == "u" && ct.kind == "u":
		if cf.width == ct.width {
			return v
		}
		if isNum(cf.width) && isNum(ct.width) && atoi(cf.width) <= atoi(ct.width) {
			return v
		}
		return fmt.Sprintf("%s %% %s", paren(v), pow2(ct.width))
	case cf.kind == "u" && ct.kind == "i":
		return fmt.Sprintf("u2i %s %s", ct.width, paren(v))
	case cf.kind == "i" && ct.kind == "u":
		return fmt.Sprintf("i2u %s %s", ct.width, paren(v))
	case cf.kind == "i" && ct.kind == "i":
		if isNum(cf.width) && isNum(ct.width) && atoi(cf.width) <= atoi(ct.width) {
			return v
		}
		return fmt.Sprintf("iwrap %s %s", ct.width, paren(v))
	case cf.kind == ct.kind && cf.kind == "struct":
		return v
	case cf.kind == ct.kind:
		return v
	}
	fail(pos, "unsupported conversion %s → %s", from, to)
	return ""
}

func isNum(s string) bool { return s != "" && s[0] >= '0' && s[0] <= '9' }
func atoi(s string) int   { n := 0; fmt.Sscanf(s, "%d", &n); return n }

func (c *fctx) expr(e ast.Expr) string {
	tv, has := c.info.Types[e]
	if has {
		if s, ok := c.constLit(tv, e.Pos()); ok {
			return s
		}
	}
	switch x := e.(type) {
	case *ast.ParenExpr:
		return paren(c.expr(x.X))
	case *ast.Ident:
		switch x.Name {
		case "true", "false":
			return x.Name
		case "nil":
			return "false"
		}
		return ident(x.Name)
	case *ast.SelectorExpr:
		// package-qualified const handled by constLit; here: field access
		if sel := c.info.Selections[x]; sel != nil && sel.Kind() == types.FieldVal {
			xt := c.info.TypeOf(x.X)
			cx := c.g.classify(xt, c.f, x.Pos())
			if cx.kind != "struct" {
				return c.expr(x.X) // erased single-field struct
			}
			// embedded promotion is not supported
			if len(sel.Index()) != 1 {
				fail(x.Pos(), "promoted field access")
			}
			c.g.structs[cx.named][x.Sel.Name] = true
			// make sure the field type is translatable
			c.g.classify(sel.Obj().Type(), c.f, x.Pos())
			return fmt.Sprintf("%s.%s", paren(c.expr(x.X)), ident(x.Sel.Name))
		}
		fail(x.Pos(), "unsupported selector %s", x.Sel.Name)
	case *ast.StarExpr:
		return c.expr(x.X)
	case *ast.UnaryExpr:
		t := c.info.TypeOf(x.X)
		switch x.Op {
		case token.NOT:
			return fmt.Sprintf("(!%s)", c.expr(x.X))
		case token.AND:
			return c.expr(x.X)
		case token.SUB:
			ct := c.g.classify(t, c.f, x.Pos())
			if ct.kind == "i" {
				return fmt.Sprintf("iwrap %s (-%s)", ct.width, paren(c.expr(x.X)))
			}
			return fmt.Sprintf("usub %s 0 %s", ct.width, paren(c.expr(x.X)))
		case token.XOR:
			ct := c.g.classify(t, c.f, x.Pos())
			if ct.kind == "u" {
				return fmt.Sprintf("unot %s %s", ct.width, paren(c.expr(x.X)))
			}
		}
		fail(x.Pos(), "unsupported unary %s", x.Op)
	case *ast.BinaryExpr:
		ta, tb := c.info.TypeOf(x.X), c.info.TypeOf(x.Y)
		// give untyped constant operands the other side's type
		a := c.exprTo(x.X, tb)
		b := c.exprTo(x.Y, ta)
		t := ta
		if bt, ok := ta.(*types.Basic); ok && bt.Info()&types.IsUntyped != 0 {
			t = tb
		}
		if x.Op == token.SHL || x.Op == token.SHR {
			t = ta
			if has && tv.Type != nil {
				t = tv.Type
			}
		}
		return c.binop(x.Op, a, b, t, tb, x.Pos())
	case *ast.CompositeLit:
		t := c.info.TypeOf(x)
		ct := c.g.classify(t, c.f, x.Pos())
		st, _ := t.Underlying().(*types.Struct)
		if st == nil {
			fail(x.Pos(), "unsupported composite literal")
		}
		if ct.kind != "struct" {
			// erased single-field struct
			if len(x.Elts) == 0 {
				return c.g.zero(st.Field(0).Type(), c.f, x.Pos())
			}
			el := x.Elts[0]
			if kv, ok := el.(*ast.KeyValueExpr); ok {
				el = kv.Value
			}
			return c.exprTo(el, st.Field(0).Type())
		}
		if len(x.Elts) == 0 {
			return c.g.zero(t, c.f, x.Pos())
		}
		var parts []string
		for i, el := range x.Elts {
			var fname string
			var val ast.Expr
			if kv, ok := el.(*ast.KeyValueExpr); ok {
				fname = kv.Key.(*ast.Ident).Name
				val = kv.Value
			} else {
				fname = st.Field(i).Name()
				val = el
			}
			var ft types.Type
			for j := 0; j < st.NumFields(); j++ {
				if st.Field(j).Name() == fname {
					ft = st.Field(j).Type()
				}
			}
			c.g.structs[ct.named][fname] = true
			parts = append(parts, fmt.Sprintf("%s := %s", ident(fname), c.exprTo(val, ft)))
		}
		return fmt.Sprintf("{ (default : %s) with %s }", structLeanName(ct.named), strings.Join(parts, ", "))
	case *ast.CallExpr:
		return c.call(x)
	}
	fail(e.Pos(), "unsupported expression %T", e)
	return ""
}

func (c *fctx) call(x *ast.CallExpr) string {
	// conversion?
	if tv, ok := c.info.Types[x.Fun]; ok && tv.IsType() {
		if len(x.Args) != 1 {
			fail(x.Pos(), "conversion arity")
		}
		from := c.info.TypeOf(x.Args[0])
		if b, ok := from.(*types.Basic); ok && b.Info()&types.IsUntyped != 0 {
			return c.exprTo(x.Args[0], tv.Type)
		}
		return c.convert(c.expr(x.Args[0]), from, tv.Type, x.Pos())
	}
	// builtins
	if id, ok := x.Fun.(*ast.Ident); ok {
		if _, isB := c.info.Uses[id].(*types.Builtin); isB {
			switch id.Name {
			case "min", "max":
				t := c.info.TypeOf(x)
				acc := c.exprTo(x.Args[0], t)
				for _, a := range x.Args[1:] {
					acc = fmt.Sprintf("Nat.%s %s %s", id.Name, paren(acc), paren(c.exprTo(a, t)))
					if c.g.classify(t, c.f, x.Pos()).kind == "i" {
						fail(x.Pos(), "min/max on signed")
					}
				}
				return acc
			}
			fail(x.Pos(), "unsupported builtin %s", id.Name)
		}
	}
	callee := c.calleeOf(x)
	if callee == nil {
		fail(x.Pos(), "unsupported call")
	}
	sig := callee.Type().(*types.Signature)
	// intrinsics
	if callee.Pkg() != nil && callee.Pkg().Path() == "math/bits" {
		var args []string
		for _, a := range x.Args {
			args = append(args, paren(c.expr(a)))
		}
		switch callee.Name() {
		case "Mul64":
			return "mul64 " + strings.Join(args, " ")
		case "Div64":
			return "div64 " + strings.Join(args, " ")
		case "Add64":
			return "add64 " + strings.Join(args, " ")
		case "Len64":
			return "len64 " + strings.Join(args, " ")
		}
		fail(x.Pos(), "unsupported bits.%s", callee.Name())
	}
	fi := c.g.fns[callee]
	if fi == nil {
		fail(x.Pos(), "call to untranslated function %s", callee.FullName())
	}
	var args []string
	// width arguments from instantiation
	if len(fi.wparams) > 0 {
		args = append(args, c.widthArgs(x, callee, fi)...)
	}
	if sig.Recv() != nil {
		sel := x.Fun.(*ast.SelectorExpr)
		args = append(args, paren(c.expr(sel.X)))
	}
	for i, a := range x.Args {
		var pt types.Type
		if i < sig.Params().Len() {
			pt = sig.Params().At(i).Type()
		}
		if pt != nil && c.g.classifyOK(pt, fi) == "erased" {
			continue
		}
		// target type for untyped constants: the instantiated parameter type
		inst := c.info.TypeOf(x.Fun)
		if isig, ok := inst.(*types.Signature); ok && i < isig.Params().Len() {
			pt = isig.Params().At(i).Type()
		}
		args = append(args, paren(c.exprTo(a, pt)))
	}
	app := fi.name
	if len(args) > 0 {
		app += " " + strings.Join(args, " ")
	}
	needBind := fi.mayPanic || fi.stateful
	if !needBind {
		return app
	}
	// hoist: bind the result (and the updated receiver / Option) before the enclosing statement
	nres := sig.Results().Len()
	var names []string
	for i := 0; i < nres; i++ {
		names = append(names, c.fresh("c"))
	}
	lhs := append([]string{}, names...)
	if fi.stateful {
		sel := x.Fun.(*ast.SelectorExpr)
		recvName := c.rootIdent(sel.X)
		lhs = append(lhs, recvName)
	}
	pat := strings.Join(lhs, ", ")
	if len(lhs) > 1 {
		pat = "(" + pat + ")"
	}
	if len(lhs) == 0 {
		pat = "_"
	}
	if fi.mayPanic {
		if !c.f.mayPanic {
			fail(x.Pos(), "internal: call to panicking function from function not marked mayPanic")
		}
		c.hoist = append(c.hoist, fmt.Sprintf("match %s with\n| none => none\n| some %s =>\n", app, pat))
	} else {
		c.hoist = append(c.hoist, fmt.Sprintf("let %s := %s\n", pat, app))
	}
	switch len(names) {
	case 0:
		return "()"
	case 1:
		return names[0]
	}
	return "(" + strings.Join(names, ", ") + ")"
}

func (c *fctx) rootIdent(e ast.Expr) string {
	for {
		switch y := e.(type) {
		case *ast.ParenExpr:
			e = y.X
			continue
		case *ast.StarExpr:
			e = y.X
			continue
		case *ast.UnaryExpr:
			e = y.X
			continue
		}
		break
	}
	if id, ok := e.(*ast.Ident); ok {
		return ident(id.Name)
	}
	fail(e.Pos(), "stateful method call on a non-variable receiver")
	return ""
}

func (c *fctx) widthArgs(x *ast.CallExpr, callee *types.Func, fi *fnInfo) []string {
	var id *ast.Ident
	switch f := x.Fun.(type) {
	case *ast.Ident:
		id = f
	case *ast.SelectorExpr:
		id = f.Sel
	case *ast.IndexExpr:
		switch g := f.X.(type) {
		case *ast.Ident:
			id = g
		case *ast.SelectorExpr:
			id = g.Sel
		}
	}
	inst, ok := c.info.Instances[id]
	if !ok {
		fail(x.Pos(), "missing instantiation info")
	}
	sig := callee.Type().(*types.Signature)
	var out []string
	for i := 0; i < sig.TypeParams().Len(); i++ {
		tp := sig.TypeParams().At(i)
		w, ok := c.g.widthOfTypeParam(tp, fi)
		if !ok {
			fail(x.Pos(), "type parameter not unsigned")
		}
		if isNum(w) {
			continue
		}
		ta := inst.TypeArgs.At(i)
		ca := c.g.classify(ta, c.f, x.Pos())
		if ca.kind != "u" {
			fail(x.Pos(), "type argument not unsigned")
		}
		out = append(out, ca.width)
	}
	return out
}

// ---------------------------------------------------------------------------------------------

func (g *gen) collect(fn *types.Func) {
	fn = fn.Origin()
	if _, ok := g.fns[fn]; ok {
		return
	}
	for _, u := range g.used {
		if fi, ok := u.fns[fn]; ok {
			g.fns[fn] = fi // defined by a used module: referenced, not re-emitted
			return
		}
	}
	decl, p := findDecl(fn)
	if decl == nil || decl.Body == nil {
		panic(untranslatable{fmt.Sprintf("no source for %s", fn.FullName())})
	}
	fi := &fnInfo{obj: fn, decl: decl, pkg: p, name: leanFuncName(fn)}
	g.fns[fn] = fi
	sig := fn.Type().(*types.Signature)
	for i := 0; i < sig.TypeParams().Len(); i++ {
		w, ok := g.widthOfTypeParam(sig.TypeParams().At(i), fi)
		if !ok {
			fail(decl.Pos(), "unsupported type parameter constraint in %s", fn.Name())
		}
		if !isNum(w) {
			fi.wparams = append(fi.wparams, w)
		}
	}
	// direct panics, receiver field assignment, callees
	var recvObj types.Object
	if decl.Recv != nil && len(decl.Recv.List) == 1 && len(decl.Recv.List[0].Names) == 1 {
		recvObj = p.TypesInfo.Defs[decl.Recv.List[0].Names[0]]
	}
	_, recvIsPtr := sig.Recv(), false
	if sig.Recv() != nil {
		_, recvIsPtr = sig.Recv().Type().(*types.Pointer)
	}
	ast.Inspect(decl.Body, func(n ast.Node) bool {
		switch s := n.(type) {
		case *ast.CallExpr:
			if id, ok := s.Fun.(*ast.Ident); ok && id.Name == "panic" {
				fi.mayPanic = true
				return true
			}
			if isLoggerPanic(p.TypesInfo, s) {
				fi.mayPanic = true
				return false
			}
			if sel, ok := s.Fun.(*ast.SelectorExpr); ok {
				if t := p.TypesInfo.TypeOf(sel.X); t != nil && isLogger(t) {
					return false
				}
			}
			if tv, ok := p.TypesInfo.Types[s.Fun]; ok && tv.IsType() {
				return true
			}
			c := &fctx{g: g, f: fi, info: p.TypesInfo}
			if callee := c.calleeOf(s); callee != nil && callee.Pkg() != nil && strings.HasPrefix(callee.Pkg().Path(), modPrefix) {
				fi.callees = append(fi.callees, callee)
			}
		case *ast.AssignStmt:
			if recvIsPtr && recvObj != nil {
				for _, l := range s.Lhs {
					if sel, ok := l.(*ast.SelectorExpr); ok {
						if id, ok := sel.X.(*ast.Ident); ok && p.TypesInfo.Uses[id] == recvObj {
							fi.stateful = true
						}
					}
				}
			}
		}
		return true
	})
	for _, cal := range fi.callees {
		g.collect(cal)
	}
	g.order = append(g.order, fn) // post-order: callees first
}

func (g *gen) fixpoint() {
	for changed := true; changed; {
		changed = false
		for _, fi := range g.fns {
			for _, cal := range fi.callees {
				ci := g.fns[cal.Origin()]
				if ci == nil {
					for _, u := range g.used {
						if x := u.fns[cal.Origin()]; x != nil {
							ci = x
						}
					}
				}
				if ci == nil {
					continue
				}
				if ci.mayPanic && !fi.mayPanic {
					fi.mayPanic = true
					changed = true
				}
				// a pointer-receiver method calling a stateful method on its own receiver is stateful
				if ci.stateful && !fi.stateful && fi.obj.Type().(*types.Signature).Recv() != nil {
					if _, isPtr := fi.obj.Type().(*types.Signature).Recv().Type().(*types.Pointer); isPtr {
						if sameRecv(fi, ci) {
							fi.stateful = true
							changed = true
						}
					}
				}
			}
		}
	}
}

func sameRecv(a, b *fnInfo) bool {
	ra := a.obj.Type().(*types.Signature).Recv()
	rb := b.obj.Type().(*types.Signature).Recv()
	return ra != nil && rb != nil && types.Identical(ra.Type(), rb.Type())
}

func (g *gen) translate(fi *fnInfo) {
	decl, p := fi.decl, fi.pkg
	sig := fi.obj.Type().(*types.Signature)
	c := &fctx{g: g, f: fi, info: p.TypesInfo, sig: sig}
	var params []string
	for _, w := range fi.wparams {
		params = append(params, fmt.Sprintf("(%s : Nat)", w))
	}
	if sig.Recv() != nil {
		c.recv = sig.Recv()
		name := sig.Recv().Name()
		if name == "" || name == "_" {
			name = "_recv"
		}
		params = append(params, fmt.Sprintf("(%s : %s)", ident(name), g.leanType(sig.Recv().Type(), fi, decl.Pos())))
	}
	for i := 0; i < sig.Params().Len(); i++ {
		pv := sig.Params().At(i)
		if g.classifyOK(pv.Type(), fi) == "erased" {
			continue
		}
		name := pv.Name()
		if name == "" || name == "_" {
			name = fmt.Sprintf("_a%d", i)
		}
		params = append(params, fmt.Sprintf("(%s : %s)", ident(name), g.leanType(pv.Type(), fi, decl.Pos())))
	}
	var rts []string
	named := false
	for i := 0; i < sig.Results().Len(); i++ {
		rv := sig.Results().At(i)
		rts = append(rts, g.leanType(rv.Type(), fi, decl.Pos()))
		if rv.Name() != "" && rv.Name() != "_" {
			named = true
		}
	}
	if fi.stateful {
		rts = append(rts, g.leanType(sig.Recv().Type(), fi, decl.Pos()))
	}
	rt := "Unit"
	if len(rts) > 0 {
		rt = strings.Join(rts, " × ")
	}
	if fi.mayPanic {
		rt = "Option (" + rt + ")"
	}
	pre := ""
	if named {
		for i := 0; i < sig.Results().Len(); i++ {
			rv := sig.Results().At(i)
			c.results = append(c.results, rv)
			pre += fmt.Sprintf("let %s := %s\n", ident(rv.Name()), g.zero(rv.Type(), fi, decl.Pos()))
		}
	}
	body := pre + c.block(decl.Body.List, func() string {
		if sig.Results().Len() == 0 {
			return c.retTuple(nil)
		}
		if named {
			return c.ret(&ast.ReturnStmt{})
		}
		fail(decl.End(), "missing return")
		return ""
	})
	// source hash
	pos := fset.Position(decl.Pos())
	end := fset.Position(decl.End())
	src, _ := os.ReadFile(pos.Filename)
	// with -overlay the file name is the logical one; read through the overlay map if present
	if alt, ok := overlayMap[pos.Filename]; ok {
		src, _ = os.ReadFile(alt)
	}
	text := ""
	if end.Offset <= len(src) {
		text = string(src[pos.Offset:end.Offset])
	}
	fi.hash = fmt.Sprintf("%x", sha256.Sum256([]byte(text)))[:16]
	rel, _ := filepath.Rel(repoRoot, pos.Filename)
	fi.text = fmt.Sprintf("/-- %s:%d `%s` src-sha256=%s -/\ndef %s %s : %s :=\n%s\n",
		rel, pos.Line, fi.obj.FullName(), fi.hash, fi.name, strings.Join(params, " "), rt, indent(body))
}

var overlayMap = map[string]string{}
var repoRoot = "/repo"

func (g *gen) emitStructs() string {
	var b strings.Builder
	for _, n := range g.sorder {
		used := g.structs[n]
		st := n.Underlying().(*types.Struct)
		var fields []string
		for i := 0; i < st.NumFields(); i++ {
			f := st.Field(i)
			if !used[f.Name()] {
				continue
			}
			fields = append(fields, fmt.Sprintf("  %s : %s", ident(f.Name()), g.leanType(f.Type(), nil, f.Pos())))
		}
		fmt.Fprintf(&b, "/-- %s (fields used by the translated code) -/\nstructure %s where\n%s\n  deriving DecidableEq, Repr, Inhabited, BEq\n\n",
			n.String(), structLeanName(n), strings.Join(fields, "\n"))
		if len(fields) == 0 {
			panic(untranslatable{"struct with no used fields: " + n.String()})
		}
	}
	return b.String()
}

func lookupFunc(p *packages.Package, name string) *types.Func {
	if i := strings.Index(name, "."); i >= 0 {
		tn, _ := p.Types.Scope().Lookup(name[:i]).(*types.TypeName)
		if tn == nil {
			return nil
		}
		named := tn.Type().(*types.Named)
		for j := 0; j < named.NumMethods(); j++ {
			if named.Method(j).Name() == name[i+1:] {
				return named.Method(j)
			}
		}
		return nil
	}
	fn, _ := p.Types.Scope().Lookup(name).(*types.Func)
	return fn
}

func main() {
	cfgPath := flag.String("config", "", "json config")
	outDir := flag.String("out", "", "output directory for Gen/*.lean")
	ovl := flag.String("overlay", "", "overlay json (to read overlaid sources)")
	flag.StringVar(&repoRoot, "repo", "/repo", "repo root")
	flag.Parse()
	raw, err := os.ReadFile(*cfgPath)
	if err != nil {
		fmt.Fprintln(os.Stderr, err)
		os.Exit(2)
	}
	var mods []moduleSpec
	if err := json.Unmarshal(raw, &mods); err != nil {
		fmt.Fprintln(os.Stderr, err)
		os.Exit(2)
	}
	var flags []string
	flags = append(flags, "-tags=verif")
	if *ovl != "" {
		flags = append(flags, "-overlay="+*ovl)
		var o struct{ Replace map[string]string }
		if b, err := os.ReadFile(*ovl); err == nil {
			json.Unmarshal(b, &o)
			overlayMap = o.Replace
		}
	}
	pset := map[string]bool{}
	for _, m := range mods {
		for _, r := range m.Roots {
			pset[r.Pkg] = true
		}
	}
	// also load the packages roots may call into
	for _, extra := range []string{modPrefix + "/data/basics", modPrefix + "/data/bookkeeping", modPrefix + "/config"} {
		pset[extra] = true
	}
	var patterns []string
	for p := range pset {
		patterns = append(patterns, p)
	}
	sort.Strings(patterns)
	fset = token.NewFileSet()
	cfg := &packages.Config{
		Mode:       packages.NeedName | packages.NeedFiles | packages.NeedSyntax | packages.NeedTypes | packages.NeedTypesInfo | packages.NeedImports | packages.NeedDeps,
		Fset:       fset,
		Dir:        repoRoot,
		BuildFlags: flags,
	}
	// go list sees the overlay through BuildFlags; the parser needs the replaced file contents too
	cfg.Overlay = map[string][]byte{}
	for logical, actual := range overlayMap {
		if b, err := os.ReadFile(actual); err == nil {
			cfg.Overlay[logical] = b
		}
	}
	loaded, err := packages.Load(cfg, patterns...)
	if err != nil {
		fmt.Fprintln(os.Stderr, "load:", err)
		os.Exit(2)
	}
	pkgs = map[string]*packages.Package{}
	packages.Visit(loaded, nil, func(p *packages.Package) {
		if strings.HasPrefix(p.PkgPath, modPrefix) {
			pkgs[p.PkgPath] = p
		}
	})
	status := 0
	for _, m := range mods {
		func() {
			defer func() {
				if r := recover(); r != nil {
					if u, ok := r.(untranslatable); ok {
						fmt.Fprintf(os.Stderr, "UNTRANSLATABLE module=%s: %s\n", m.Module, u.msg)
						os.WriteFile(filepath.Join(*outDir, m.Module+".lean"), []byte(fmt.Sprintf("-- GENERATED by go2lean: translation FAILED\n-- %s\n#exit\n", strings.ReplaceAll(u.msg, "\n", " "))), 0o644)
						status = 3
						return
					}
					panic(r)
				}
			}()
			g := &gen{spec: m, fns: map[*types.Func]*fnInfo{}, structs: map[*types.Named]map[string]bool{}, shared: map[*types.Named]int{}}
			for _, u := range m.Uses {
				ug := doneGens[u]
				if ug == nil {
					panic(untranslatable{"module " + m.Module + " uses " + u + " which was not translated before it"})
				}
				g.used = append(g.used, ug)
			}
			for _, r := range m.Roots {
				p := pkgs[r.Pkg]
				if p == nil {
					panic(untranslatable{"package not loaded: " + r.Pkg})
				}
				if len(p.Errors) > 0 {
					panic(untranslatable{fmt.Sprintf("package %s has errors: %v", r.Pkg, p.Errors[0])})
				}
				for _, name := range r.Funcs {
					fn := lookupFunc(p, name)
					if fn == nil {
						panic(untranslatable{"function not found: " + r.Pkg + "." + name})
					}
					g.collect(fn)
				}
			}
			g.fixpoint()
			for _, fn := range g.order {
				g.translate(g.fns[fn])
			}
			for n, cnt := range g.shared {
				if len(g.structs[n]) != cnt {
					panic(untranslatable{fmt.Sprintf("struct %s is defined by a used module but module %s needs more of its fields", n, m.Module)})
				}
			}
			var b strings.Builder
			imports, opens := "", ""
			for _, u := range g.used {
				imports += "import AlgoVerif.Gen." + u.spec.Module + "\n"
				opens += " " + u.spec.Namespace
			}
			fmt.Fprintf(&b, "-- GENERATED by /verif/tools/go2lean from the current /repo working tree. DO NOT EDIT.\nimport AlgoVerif.Base.U64\n%sset_option linter.unusedVariables false\nnamespace %s\nopen AlgoVerif.U64%s\n\n", imports, m.Namespace, opens)
			b.WriteString(g.emitStructs())
			for _, fn := range g.order {
				b.WriteString(g.fns[fn].text)
				b.WriteString("\n")
			}
			fmt.Fprintf(&b, "end %s\n", m.Namespace)
			out := filepath.Join(*outDir, m.Module+".lean")
			old, _ := os.ReadFile(out)
			if string(old) != b.String() {
				if err := os.WriteFile(out, []byte(b.String()), 0o644); err != nil {
					fmt.Fprintln(os.Stderr, err)
					os.Exit(2)
				}
			}
			var names []string
			for _, fn := range g.order {
				names = append(names, g.fns[fn].name+"@"+g.fns[fn].hash)
			}
			doneGens[m.Module] = g
			fmt.Printf("module=%s functions=%d %s\n", m.Module, len(g.order), strings.Join(names, " "))
		}()
	}
	os.Exit(status)
}
