// Package c41reg: registry of the numeric values of the allocbound expressions of every package with msgp-generated code
// (C41).  A generated file `zz_verif_c41_bounds.go` (build tag verif, written by checks/C41.py from the facts the site
// extractor found in the current tree, injected through the check's private overlay only) registers, from inside each
// package, a thunk for every bound expression that is valid in that package's scope (several are variables that
// config's init() sets: they are evaluated when the harness runs, not at registration), and the `//msgp:allocbound`
// directives of its named collection types.  Leaf package: imports nothing.
package c41reg

// Bounds: package import path -> bound expression (as written in the struct tag / directive) -> value thunk.
var Bounds = map[string]map[string]func() int{}

// Directives: package import path -> type name -> directive text ("a" or "a,b"; "-" = exemption).
var Directives = map[string]map[string]string{}

// Register is called from the init() of the generated file of package pkg.
func Register(pkg string, bounds map[string]func() int, directives map[string]string) {
	Bounds[pkg] = bounds
	Directives[pkg] = directives
}

// Eval returns the value of expr in the scope of pkg.
func Eval(pkg, expr string) (int, bool) {
	if m := Bounds[pkg]; m != nil {
		if f := m[expr]; f != nil {
			return f(), true
		}
	}
	return 0, false
}
