package main

import "strings"

// Policy of the C41 site extractor: which decode call sites of the non-test code are decode ENTRY POINTS for untrusted bytes.
//
// The default is `net` (untrusted): a decode call in a file this table does not know is treated as reading bytes of a
// peer, so that a NEW decode entry point can never silently fall into the trusted class.  The trusted class `localdb`
// lists, with its reason, every file that decodes only what the node itself wrote earlier (its own databases, key files,
// crash-recovery state).  `file` = files obtained from elsewhere (catchpoint files are downloaded from peers).

type rule struct {
	prefix string // file path (relative to the repo root) or directory prefix ending in "/"
	class  string
	why    string
}

var rules = []rule{
	// ---- files obtained from elsewhere
	{"ledger/catchupaccessor.go", "file", "catchpoint file chunks downloaded from a peer"},
	{"ledger/catchpointfileheader.go", "file", "catchpoint file header downloaded from a peer"},
	// ---- the node's own state (trusted: written by this node, protected by the file system)
	{"agreement/persistence.go", "localdb", "crash-recovery state the agreement service wrote itself (crash.sqlite)"},
	{"agreement/autopsy.go", "localdb", "cadaver files written by this node, read by the offline autopsy tool"},
	{"ledger/acctdeltas.go", "localdb", "rows of the node's own account database"},
	{"ledger/store/", "localdb", "rows of the node's own tracker / block / catchpoint-staging databases"},
	{"ledger/tracker.go", "localdb", "rows of the node's own tracker database"},
	{"ledger/catchpointtracker.go", "localdb", "rows of the node's own catchpoint database"},
	{"ledger/acctonline.go", "localdb", "rows of the node's own account database"},
	{"data/account/", "localdb", "participation-key databases on the operator's disk"},
	{"crypto/merklesignature/persistentMerkleSignatureScheme.go", "localdb", "state-proof key database on the operator's disk"},
	{"stateproof/db.go", "localdb", "the state-proof worker's own signature / prover database"},
	{"data/pools/", "localdb", "in-process re-encoding"},
	{"data/transactions/logic/mocktracer/", "localdb", "test helper (clone by encode/decode of a local object)"},
	{"data/basics/units.go", "localdb", "hand-written decoder of MicroAlgos forwarding to the generated one (not an entry point)"},
	{"protocol/", "localdb", "the decode wrappers themselves (generic over the object)"},
	{"ledger/ledgercore/", "localdb", "in-process re-encoding"},
	{"ledger/eval/", "localdb", "in-process re-encoding"},
	{"ledger/apply/", "localdb", "in-process re-encoding"},
	{"data/bookkeeping/genesis.go", "localdb", "genesis file installed by the operator"},
	{"node/node.go", "localdb", "genesis / participation files of the operator"},
	{"config/", "localdb", "configuration files of the operator"},
}

// directories outside the node process (operator CLI tools, API clients, test frameworks, generators): not scanned
var skipped = []string{"test", "tools", "cmd", "libgoal", "shared", "gen", "netdeploy", "util", "debug", "scripts", "installer", "docker",
	"daemon/kmd", "daemon/algod/api/client", "internal", "logging", "nodecontrol", "catchup/fetcher_test", "crypto/libsodium-fork"}

func skipDir(rel string) bool {
	for _, s := range skipped {
		if rel == s || strings.HasPrefix(rel, s+"/") {
			return true
		}
	}
	return false
}

func classify(rel string) (string, string) {
	for _, r := range rules {
		if rel == r.prefix || (strings.HasSuffix(r.prefix, "/") && strings.HasPrefix(rel, r.prefix)) {
			return r.class, r.why
		}
	}
	return "net", "default: bytes of a peer (network handler, catch-up fetcher, REST body)"
}
