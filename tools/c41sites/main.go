// c41sites — fact extractor of property C41 (tie F).
//
// For EVERY msgp_gen.go of the current tree it lists every collection-read site of every generated
// UnmarshalMsgWithState (array / map header reads followed by an allocation, byte-string and string reads, fixed-array
// loops, struct header loops, the depth guard) together with the bound check that DOMINATES the allocation
// (`if zbN > B { err = msgp.ErrOverflow(…); …; return }` between the header read and the `make`), compares the
// bound the code enforces with the bound the struct tag / `//msgp:allocbound` directive DECLARES, and classifies a
// site without a check as an `allocbound=-` exemption (declared) or as MISSING.  It also extracts
//   - the decoder call graph (which generated decoder calls which),
//   - every decode entry point of the non-test code (protocol.Decode / DecodeMsgp / DecodeReflect / DecodeStream /
//     MsgpDecoderBytes.Decode / direct UnmarshalMsg calls) with the Go type it decodes into, classified by policy.go as
//     `net` (bytes of a peer), `file` (a file obtained from elsewhere) or `localdb` (the node's own databases / key files),
//   - reachability of every decoder from the net / file entry points,
//
// and writes lean/AlgoVerif/Gen/MsgpSites.lean (write-if-changed) plus a JSON with all details (used by the check to
// generate the per-package bound registries and by the evidence).
//
// Runs inside the repo's module through the overlay (zz_verif_tools/c41sites); never writes into the repo.
package main

import (
	"bytes"
	"encoding/json"
	"flag"
	"fmt"
	"go/ast"
	"go/constant"
	"go/printer"
	"go/token"
	"go/types"
	"os"
	"path/filepath"
	"reflect"
	"regexp"
	"sort"
	"strings"

	"golang.org/x/tools/go/packages"
)

const modPrefix = "github.com/algorand/go-algorand"

// Site is one collection-read site of a generated decoder.
type Site struct {
	Pkg      string `json:"pkg"`   // package dir relative to the repo root
	Type     string `json:"type"`  // receiver of the UnmarshalMsgWithState the site is in
	Line     int    `json:"line"`  // line of the read in msgp_gen.go
	Kind     string `json:"kind"`  // slice | map | bytes | str | array | tuple | exact | structmap | structarr | depth | unknown
	Target   string `json:"tgt"`   // the Go expression that receives the collection
	Check    string `json:"check"` // bound | intrinsic | fixed | loop | guard | exempt | missing | after | stale | undominated
	Bound    string `json:"bound"` // the bound expression the CODE enforces ("" if none)
	Declared string `json:"decl"`  // the bound the struct tag / directive declares ("" none, "-" exemption, "?" not determined)
	ElemSize int64  `json:"elem"`  // bytes per element the allocation requests (0 = no allocation / not applicable)
	Net      bool   `json:"net"`   // the decoder is reachable from a net / file decode entry point
	Path     string `json:"path"`  // "arr" = inside the struct-from-array branch, "map" = map branch, "" otherwise
}

type Entry struct {
	File  string   `json:"file"`
	Line  int      `json:"line"`
	Func  string   `json:"func"`
	Via   string   `json:"via"`
	Roots []string `json:"roots"` // pkgdir.Type
	Class string   `json:"class"`
	Why   string   `json:"why"`
}

type PkgInfo struct {
	Dir         string            `json:"dir"`
	Name        string            `json:"name"`
	Types       []string          `json:"types"`       // msgp-generated types (have a generated UnmarshalMsgWithState)
	Exprs       []string          `json:"exprs"`       // distinct bound expressions valid in the package scope
	Imports     map[string]string `json:"imports"`     // qualifier -> import path, for the qualifiers the expressions use
	Directives  map[string]string `json:"directives"`  // //msgp:allocbound T expr
	Handwritten []string          `json:"handwritten"` // types whose UnmarshalMsgWithState is not in msgp_gen.go
}

type Out struct {
	Sites    []Site              `json:"sites"`
	Entries  []Entry             `json:"entries"`
	Packages []PkgInfo           `json:"packages"`
	Edges    map[string][]string `json:"edges"`
	NetTypes []string            `json:"net_types"`
	Problems []string            `json:"problems"`
	MaxDepth int64               `json:"max_depth"` // protocol/codec.go: msgp.DefaultUnmarshalState.AllowableDepth = maxMsgpDecodeDepth
}

var fset = token.NewFileSet()
var sizes = types.SizesFor("gc", "amd64")

func exprStr(e ast.Expr) string {
	var b bytes.Buffer
	printer.Fprint(&b, fset, e)
	return strings.Join(strings.Fields(b.String()), "")
}

func relDir(pkgPath string) string {
	if pkgPath == modPrefix {
		return "."
	}
	return strings.TrimPrefix(pkgPath, modPrefix+"/")
}

func deref(t types.Type) types.Type {
	for {
		switch u := t.(type) {
		case *types.Pointer:
			t = u.Elem()
			continue
		case *types.Alias:
			t = types.Unalias(u)
			continue
		}
		return t
	}
}

func typeKey(t types.Type) string {
	t = deref(t)
	if n, ok := t.(*types.Named); ok {
		if n.Obj().Pkg() == nil {
			return n.Obj().Name()
		}
		return relDir(n.Obj().Pkg().Path()) + "." + n.Obj().Name()
	}
	return ""
}

// namedIn collects the named go-algorand types mentioned in t (without crossing a named type).
func namedIn(t types.Type, out map[string]bool, depth int) {
	if depth > 6 {
		return
	}
	switch u := t.(type) {
	case *types.Pointer:
		namedIn(u.Elem(), out, depth+1)
	case *types.Alias:
		namedIn(types.Unalias(u), out, depth+1)
	case *types.Named:
		if u.Obj().Pkg() != nil && strings.HasPrefix(u.Obj().Pkg().Path(), modPrefix) {
			out[typeKey(u)] = true
		}
	case *types.Slice:
		namedIn(u.Elem(), out, depth+1)
	case *types.Array:
		namedIn(u.Elem(), out, depth+1)
	case *types.Map:
		namedIn(u.Key(), out, depth+1)
		namedIn(u.Elem(), out, depth+1)
	}
}

// ------------------------------------------------------------------------------------------------ declared bounds

var directiveRE = regexp.MustCompile(`^//\s*msgp:allocbound\s+(\S+)\s+(\S+)`)

func directivesOf(p *packages.Package) map[string]string {
	res := map[string]string{}
	for _, f := range p.Syntax {
		for _, cg := range f.Comments {
			for _, c := range cg.List {
				if m := directiveRE.FindStringSubmatch(c.Text); m != nil {
					res[m[1]] = m[2]
				}
			}
		}
	}
	return res
}

// tagBound returns the allocbound options of a codec tag the way msgp's parser reads them (parse/getast.go): every
// `allocbound=x` option, joined by "," (repeated options = nested levels).
func tagBound(tag string) (string, bool) {
	ct := reflect.StructTag(tag).Get("codec")
	var bs []string
	for i, o := range strings.Split(ct, ",") {
		if i > 0 && strings.HasPrefix(o, "allocbound=") {
			bs = append(bs, strings.Split(o, "=")[1])
		}
	}
	if len(bs) == 0 {
		return "", false
	}
	return strings.Join(bs, ","), true
}

type declCtx struct {
	pkg        *packages.Package
	directives map[string]map[string]string // pkg path -> directives
}

func (d *declCtx) directive(t types.Type) (string, bool) {
	if a, ok := t.(*types.Alias); ok {
		t = types.Unalias(a)
	}
	n, ok := t.(*types.Named)
	if !ok || n.Obj().Pkg() == nil {
		return "", false
	}
	dm := d.directives[n.Obj().Pkg().Path()]
	if dm == nil {
		return "", false
	}
	b, ok := dm[n.Obj().Name()]
	return b, ok
}

// fieldTag finds the struct tag of the selected field.
func fieldTag(s *types.Selection) (string, bool) {
	t := s.Recv()
	idx := s.Index()
	for i, ix := range idx {
		t = deref(t)
		st, ok := t.Underlying().(*types.Struct)
		if !ok {
			return "", false
		}
		if i == len(idx)-1 {
			return st.Tag(ix), true
		}
		t = st.Field(ix).Type()
	}
	return "", false
}

// declared returns the bound DECLARED for the collection stored into target: the struct tag of the field the selector
// chain ends in (component k for k levels of indexing), else the `//msgp:allocbound` directive of the collection's named
// type; "" when nothing is declared.
func (d *declCtx) declared(target ast.Expr) string {
	k := 0
	e := target
loop:
	for {
		switch x := e.(type) {
		case *ast.ParenExpr:
			e = x.X
		case *ast.IndexExpr:
			k++
			e = x.X
		default:
			break loop
		}
	}
	if sel, ok := e.(*ast.SelectorExpr); ok {
		if s := d.pkg.TypesInfo.Selections[sel]; s != nil {
			if v, ok := s.Obj().(*types.Var); ok && v.IsField() {
				if tag, ok := fieldTag(s); ok {
					if b, ok := tagBound(tag); ok {
						parts := strings.Split(b, ",")
						if k < len(parts) {
							return parts[k]
						}
					}
				}
			}
		}
	}
	if tv := d.pkg.TypesInfo.TypeOf(target); tv != nil {
		if b, ok := d.directive(tv); ok {
			return strings.Split(b, ",")[0]
		}
	}
	if k > 0 { // a nested level of a named outer type: directive "T a,b"
		if bt := d.pkg.TypesInfo.TypeOf(e); bt != nil {
			if b, ok := d.directive(bt); ok {
				parts := strings.Split(b, ",")
				if k < len(parts) {
					return parts[k]
				}
			}
		}
	}
	return ""
}

// ------------------------------------------------------------------------------------------------ site scan

type hdr struct {
	kind     string // arr | map | byteshdr
	line     int
	bound    string // ErrOverflow check seen before any allocation
	arrBound string // ArrayError `>` check
	tupleEq  string // ArrayError `!=` check
	allocIdx int    // 1 + index of the allocation site that used this header, 0 = none
	loopFor  bool   // used as `i < zb` bound of a for loop
	loopDec  bool   // `for zb > 0`
	ifDec    bool   // `if zb > 0 { zb-- … }`
	path     string
}

const pendingKey = "\x00pending"

type scanner struct {
	pkg   *packages.Package
	dir   string
	typ   string
	decl  *declCtx
	sites *[]Site
	hdrs  []*hdr
	calls map[string]bool
	inArr bool
	inMap bool
}

func msgpCallName(e ast.Expr) string {
	c, ok := e.(*ast.CallExpr)
	if !ok {
		return ""
	}
	s, ok := c.Fun.(*ast.SelectorExpr)
	if !ok {
		return ""
	}
	x, ok := s.X.(*ast.Ident)
	if !ok || x.Name != "msgp" {
		return ""
	}
	return s.Sel.Name
}

func (s *scanner) line(n ast.Node) int { return fset.Position(n.Pos()).Line }

func (s *scanner) curPath() string {
	if s.inArr {
		return "arr"
	}
	if s.inMap {
		return "map"
	}
	return ""
}

func endsInReturn(b *ast.BlockStmt) bool {
	if len(b.List) == 0 {
		return false
	}
	_, ok := b.List[len(b.List)-1].(*ast.ReturnStmt)
	return ok
}

func bodyMentions(b *ast.BlockStmt, what string) bool {
	found := false
	ast.Inspect(b, func(n ast.Node) bool {
		switch x := n.(type) {
		case *ast.CallExpr:
			if msgpCallName(x) == what {
				found = true
			}
		case *ast.CompositeLit:
			if se, ok := x.Type.(*ast.SelectorExpr); ok && se.Sel.Name == what {
				found = true
			}
		}
		return true
	})
	return found
}

func copyEnv(env map[string]*hdr) map[string]*hdr {
	n := make(map[string]*hdr, len(env))
	for k, v := range env {
		if k != pendingKey {
			n[k] = v
		}
	}
	return n
}

func (s *scanner) block(list []ast.Stmt, env map[string]*hdr) {
	for i, st := range list {
		s.stmt(st, env, list[i+1:])
	}
}

func elemSize(t types.Type) int64 {
	switch u := t.Underlying().(type) {
	case *types.Slice:
		return sizes.Sizeof(u.Elem())
	case *types.Map:
		return sizes.Sizeof(u.Key()) + sizes.Sizeof(u.Elem()) + 1 // a bucket slot; the runtime adds headers (constant factor)
	}
	return 0
}

// realTarget: a read into a temporary (`zbT, bts, err = msgp.ReadStringBytes(bts)`) that a later statement of the same block
// converts and stores (`X = T(zbT)`): X.
func realTarget(tmp string, rest []ast.Stmt) ast.Expr {
	for _, st := range rest {
		as, ok := st.(*ast.AssignStmt)
		if !ok || len(as.Rhs) != 1 || len(as.Lhs) < 1 {
			continue
		}
		c, ok := as.Rhs[0].(*ast.CallExpr)
		if !ok || len(c.Args) != 1 {
			continue
		}
		if id, ok := c.Args[0].(*ast.Ident); ok && id.Name == tmp {
			return as.Lhs[0]
		}
	}
	return nil
}

func (s *scanner) simple(st ast.Stmt, env map[string]*hdr, rest []ast.Stmt) {
	if as, ok := st.(*ast.AssignStmt); ok && len(as.Rhs) == 1 {
		name := msgpCallName(as.Rhs[0])
		switch name {
		case "ReadArrayHeaderBytes", "ReadMapHeaderBytes":
			if id, ok := as.Lhs[0].(*ast.Ident); ok {
				k := "arr"
				if name == "ReadMapHeaderBytes" {
					k = "map"
				}
				h := &hdr{kind: k, line: s.line(as), path: s.curPath()}
				env[id.Name] = h
				s.hdrs = append(s.hdrs, h)
			}
			return
		case "ReadBytesBytesHeader":
			if id, ok := as.Lhs[0].(*ast.Ident); ok {
				h := &hdr{kind: "byteshdr", line: s.line(as), path: s.curPath()}
				env[id.Name] = h
				env[pendingKey] = h
			}
			return
		case "ReadBytesBytes", "ReadStringBytes":
			kind := "bytes"
			if name == "ReadStringBytes" {
				kind = "str"
			}
			site := Site{Pkg: s.dir, Type: s.typ, Line: s.line(as), Kind: kind, Target: exprStr(as.Lhs[0]), ElemSize: 1, Path: s.curPath()}
			tgt := as.Lhs[0]
			if id, ok := tgt.(*ast.Ident); ok {
				if rt := realTarget(id.Name, rest); rt != nil {
					tgt = rt
					site.Target = exprStr(rt)
				}
			}
			site.Declared = s.decl.declared(tgt)
			if p := env[pendingKey]; p != nil && p.bound != "" {
				site.Check, site.Bound = "bound", p.bound
			} else {
				site.Check = "intrinsic" // the runtime compares the length with the remaining input before it allocates
			}
			switch {
			case site.Check == "bound" && site.Declared != "" && site.Declared != site.Bound:
				site.Check = "stale"
			case site.Check == "intrinsic" && site.Declared != "" && site.Declared != "-":
				site.Check = "missing"
			}
			delete(env, pendingKey)
			*s.sites = append(*s.sites, site)
			return
		case "ReadExactBytes":
			*s.sites = append(*s.sites, Site{Pkg: s.dir, Type: s.typ, Line: s.line(as), Kind: "exact",
				Target: exprStr(as.Rhs[0].(*ast.CallExpr).Args[1]), Check: "fixed", Path: s.curPath()})
			return
		}
	}
	// allocations and nested decoder calls anywhere in the statement
	ast.Inspect(st, func(n ast.Node) bool {
		c, ok := n.(*ast.CallExpr)
		if !ok {
			return true
		}
		if id, ok := c.Fun.(*ast.Ident); ok && id.Name == "make" && len(c.Args) >= 2 {
			s.makeCall(st, c, env)
		}
		if se, ok := c.Fun.(*ast.SelectorExpr); ok && (se.Sel.Name == "UnmarshalMsgWithState" || se.Sel.Name == "UnmarshalMsg") {
			callee := ""
			if t := s.pkg.TypesInfo.TypeOf(se.X); t != nil {
				if k := typeKey(t); k != "" {
					s.calls[k] = true
					callee = k
				}
			}
			// depth accounting: a nested decoder must be entered with THIS function's state (`st`, already decremented);
			// `.UnmarshalMsg(bts)` restarts from msgp.DefaultUnmarshalState, i.e. resets the remaining depth
			site := Site{Pkg: s.dir, Type: s.typ, Line: s.line(c), Kind: "call", Target: exprStr(se.X), Bound: callee, Check: "resets", Path: s.curPath()}
			if se.Sel.Name == "UnmarshalMsgWithState" && len(c.Args) == 2 {
				if a1, ok := c.Args[1].(*ast.Ident); ok && a1.Name == "st" {
					site.Check = "passes"
				}
			}
			*s.sites = append(*s.sites, site)
		}
		return true
	})
}

func (s *scanner) makeCall(st ast.Stmt, c *ast.CallExpr, env map[string]*hdr) {
	var target ast.Expr
	ast.Inspect(st, func(n ast.Node) bool {
		if as, ok := n.(*ast.AssignStmt); ok && len(as.Rhs) == 1 && as.Rhs[0] == ast.Expr(c) {
			target = as.Lhs[0]
		}
		return true
	})
	site := Site{Pkg: s.dir, Type: s.typ, Line: s.line(c), Kind: "unknown", Path: s.curPath()}
	if target != nil {
		site.Target = exprStr(target)
	}
	if t := s.pkg.TypesInfo.TypeOf(c); t != nil {
		switch t.Underlying().(type) {
		case *types.Slice:
			site.Kind = "slice"
		case *types.Map:
			site.Kind = "map"
		}
		site.ElemSize = elemSize(t)
	}
	var h *hdr
	if szid, ok := c.Args[1].(*ast.Ident); ok {
		h = env[szid.Name]
	}
	if h == nil {
		site.Check = "undominated" // an allocation whose size is not a tracked header value
		*s.sites = append(*s.sites, site)
		return
	}
	if target != nil {
		site.Declared = s.decl.declared(target)
	}
	switch {
	case h.bound != "":
		site.Check, site.Bound = "bound", h.bound
		if site.Declared != h.bound {
			site.Check = "stale" // the code enforces a bound different from the declared one
		}
	case site.Declared == "-":
		site.Check = "exempt"
	default:
		site.Check = "missing"
	}
	*s.sites = append(*s.sites, site)
	h.allocIdx = len(*s.sites)
}

func (s *scanner) stmt(st ast.Stmt, env map[string]*hdr, rest []ast.Stmt) {
	switch x := st.(type) {
	case *ast.BlockStmt:
		s.block(x.List, copyEnv(env))
	case *ast.IfStmt:
		if be, ok := x.Cond.(*ast.BinaryExpr); ok {
			if id, ok := be.X.(*ast.Ident); ok {
				if h := env[id.Name]; h != nil {
					switch {
					case be.Op == token.GTR && bodyMentions(x.Body, "ErrOverflow") && endsInReturn(x.Body):
						if h.allocIdx > 0 { // the check comes after the allocation it was meant to guard
							(*s.sites)[h.allocIdx-1].Check = "after"
							(*s.sites)[h.allocIdx-1].Bound = exprStr(be.Y)
						} else {
							h.bound = exprStr(be.Y)
						}
						return
					case be.Op == token.GTR && bodyMentions(x.Body, "ArrayError") && endsInReturn(x.Body):
						if !h.loopFor {
							h.arrBound = exprStr(be.Y)
						}
						return
					case be.Op == token.NEQ && bodyMentions(x.Body, "ArrayError") && endsInReturn(x.Body):
						h.tupleEq = exprStr(be.Y)
						return
					case be.Op == token.GTR && exprStr(be.Y) == "0":
						h.ifDec = true
					}
				}
			}
		}
		// struct decoding: `if _, ok := err.(msgp.TypeError); ok { array branch } else { map branch }`
		isStructSwitch := false
		if as, ok := x.Init.(*ast.AssignStmt); ok && len(as.Rhs) == 1 {
			if ta, ok := as.Rhs[0].(*ast.TypeAssertExpr); ok && strings.HasSuffix(exprStr(ta.Type), "msgp.TypeError") {
				isStructSwitch = true
			}
		}
		if isStructSwitch {
			oa, om := s.inArr, s.inMap
			s.inArr, s.inMap = true, false
			s.block(x.Body.List, copyEnv(env))
			s.inArr, s.inMap = false, true
			if x.Else != nil {
				s.stmt(x.Else, copyEnv(env), nil)
			}
			s.inArr, s.inMap = oa, om
			return
		}
		if x.Init != nil {
			s.stmt(x.Init, env, nil)
		}
		s.block(x.Body.List, copyEnv(env))
		if x.Else != nil {
			s.stmt(x.Else, copyEnv(env), nil)
		}
	case *ast.ForStmt:
		if be, ok := x.Cond.(*ast.BinaryExpr); ok {
			if id, ok := be.Y.(*ast.Ident); ok && be.Op == token.LSS {
				if h := env[id.Name]; h != nil {
					h.loopFor = true
				}
			}
			if id, ok := be.X.(*ast.Ident); ok && be.Op == token.GTR {
				if h := env[id.Name]; h != nil {
					h.loopDec = true
				}
			}
		}
		s.block(x.Body.List, copyEnv(env))
	case *ast.RangeStmt:
		s.block(x.Body.List, copyEnv(env))
	case *ast.SwitchStmt:
		for _, cc := range x.Body.List {
			if c, ok := cc.(*ast.CaseClause); ok {
				s.block(c.Body, copyEnv(env))
			}
		}
	default:
		s.simple(st, env, rest)
	}
}

// finish emits the header reads that allocate nothing: struct headers, fixed-size arrays, tuples.
func (s *scanner) finish() {
	for _, h := range s.hdrs {
		if h.allocIdx > 0 || h.kind == "byteshdr" {
			continue
		}
		site := Site{Pkg: s.dir, Type: s.typ, Line: h.line, Path: h.path}
		switch {
		case h.loopFor:
			// `for i := 0; i < zb; i++ { X[i] … }` over a fixed-size Go array: the ArrayError check keeps the index in range
			site.Kind = "array"
			if h.arrBound != "" {
				site.Check, site.Bound = "fixed", h.arrBound
			} else {
				site.Check = "missing"
			}
		case h.tupleEq != "":
			site.Kind, site.Check, site.Bound = "tuple", "fixed", h.tupleEq
		case h.kind == "map" && h.loopDec:
			site.Kind, site.Check = "structmap", "loop" // every iteration reads a key: consumes >= 1 byte or fails
		case h.kind == "arr" && h.ifDec:
			site.Kind, site.Check = "structarr", "loop" // at most one step per declared field, then ErrTooManyArrayFields
		case h.kind == "map" && h.path == "":
			// the first ReadMapHeaderBytes of a struct: its value is used in the else branch (loopDec is recorded on the same hdr)
			site.Kind, site.Check = "structmap", "loop"
		default:
			site.Kind, site.Check = "unknown", "undominated"
		}
		*s.sites = append(*s.sites, site)
	}
}

func hasDepthGuard(fd *ast.FuncDecl) bool {
	if fd.Body == nil || len(fd.Body.List) < 2 {
		return false
	}
	is, ok := fd.Body.List[0].(*ast.IfStmt)
	if !ok || exprStr(is.Cond) != "st.AllowableDepth==0" || !bodyMentions(is.Body, "ErrMaxDepthExceeded") || !endsInReturn(is.Body) {
		return false
	}
	inc, ok := fd.Body.List[1].(*ast.IncDecStmt)
	return ok && inc.Tok == token.DEC && exprStr(inc.X) == "st.AllowableDepth"
}

func recvName(fd *ast.FuncDecl) string {
	if fd.Recv == nil || len(fd.Recv.List) == 0 {
		return ""
	}
	t := fd.Recv.List[0].Type
	if st, ok := t.(*ast.StarExpr); ok {
		t = st.X
	}
	if id, ok := t.(*ast.Ident); ok {
		return id.Name
	}
	return ""
}

// ------------------------------------------------------------------------------------------------ entry points

func enclosingFunc(f *ast.File, pos token.Pos) string {
	for _, d := range f.Decls {
		if fd, ok := d.(*ast.FuncDecl); ok && fd.Pos() <= pos && pos <= fd.End() {
			if r := recvName(fd); r != "" {
				return r + "." + fd.Name.Name
			}
			return fd.Name.Name
		}
	}
	return ""
}

func scanEntries(p *packages.Package, repo string, entries *[]Entry) {
	for i, f := range p.Syntax {
		if i >= len(p.CompiledGoFiles) {
			continue
		}
		path := p.CompiledGoFiles[i]
		rel, err := filepath.Rel(repo, path)
		if err != nil || strings.HasPrefix(rel, "..") {
			continue
		}
		base := filepath.Base(rel)
		if base == "msgp_gen.go" || strings.HasSuffix(base, "_test.go") || strings.HasPrefix(base, "zz_verif") {
			continue
		}
		ast.Inspect(f, func(n ast.Node) bool {
			c, ok := n.(*ast.CallExpr)
			if !ok {
				return true
			}
			se, ok := c.Fun.(*ast.SelectorExpr)
			if !ok {
				return true
			}
			var via string
			var arg ast.Expr
			if x, ok := se.X.(*ast.Ident); ok {
				if pn, ok := p.TypesInfo.Uses[x].(*types.PkgName); ok && pn.Imported().Path() == modPrefix+"/protocol" {
					switch se.Sel.Name {
					case "Decode", "DecodeMsgp", "DecodeReflect", "DecodeStream", "DecodeJSON":
						if se.Sel.Name == "DecodeJSON" {
							return true
						}
						if len(c.Args) == 2 {
							via, arg = "protocol."+se.Sel.Name, c.Args[1]
						}
					}
				}
			}
			if via == "" {
				switch se.Sel.Name {
				case "UnmarshalMsg", "UnmarshalMsgWithState":
					if len(c.Args) >= 1 {
						via, arg = "."+se.Sel.Name, se.X
					}
				case "Decode":
					if t := p.TypesInfo.TypeOf(se.X); t != nil && len(c.Args) == 1 {
						k := typeKey(t)
						ts := t.String()
						if k == "protocol.MsgpDecoderBytes" || k == "protocol.Decoder" || strings.HasSuffix(ts, "codec.Decoder") {
							via, arg = "("+ts[strings.LastIndex(ts, "/")+1:]+").Decode", c.Args[0]
						}
					}
				}
			}
			if via == "" || arg == nil {
				return true
			}
			t := p.TypesInfo.TypeOf(arg)
			if t == nil {
				return true
			}
			roots := map[string]bool{}
			namedIn(t, roots, 0)
			if _, isIface := deref(t).Underlying().(*types.Interface); isIface && len(roots) <= 1 {
				// decoding through an interface (protocol.Decode's own body, generic helpers): not an entry point by itself
				if strings.HasPrefix(rel, "protocol/") {
					return true
				}
			}
			var rl []string
			for r := range roots {
				rl = append(rl, r)
			}
			sort.Strings(rl)
			cls, why := classify(rel)
			*entries = append(*entries, Entry{File: rel, Line: fset.Position(c.Pos()).Line, Func: enclosingFunc(f, c.Pos()), Via: via, Roots: rl, Class: cls, Why: why})
			return true
		})
	}
}

// ------------------------------------------------------------------------------------------------ main

func leanStr(s string) string {
	return `"` + strings.ReplaceAll(strings.ReplaceAll(s, `\`, `\\`), `"`, `\"`) + `"`
}

func writeIfChanged(path string, data []byte) {
	if old, err := os.ReadFile(path); err == nil && bytes.Equal(old, data) {
		return
	}
	os.MkdirAll(filepath.Dir(path), 0o755)
	tmp := fmt.Sprintf("%s.tmp%d", path, os.Getpid())
	if err := os.WriteFile(tmp, data, 0o644); err != nil {
		fmt.Fprintln(os.Stderr, "write:", err)
		os.Exit(2)
	}
	os.Rename(tmp, path)
}

func main() {
	repo := flag.String("repo", ".", "repository root")
	ovl := flag.String("overlay", "", "go -overlay file")
	leanOut := flag.String("lean", "", "output Gen/MsgpSites.lean (the per-chunk theorems go to MsgpSitesOk.lean beside it)")
	jsonOut := flag.String("json", "", "output JSON")
	flag.Parse()
	repoAbs, _ := filepath.Abs(*repo)

	// 1. which packages: every directory with a msgp_gen.go, plus every directory whose non-test sources mention a decode call
	genDirs := map[string]bool{}
	callDirs := map[string]bool{}
	callRE := regexp.MustCompile(`protocol\.Decode|\.UnmarshalMsg\(|\.UnmarshalMsgWithState\(|NewMsgpDecoderBytes|protocol\.NewDecoder`)
	filepath.Walk(repoAbs, func(path string, info os.FileInfo, err error) error {
		if err != nil {
			return nil
		}
		rel, _ := filepath.Rel(repoAbs, path)
		if info.IsDir() {
			b := info.Name()
			if rel != "." && (strings.HasPrefix(b, ".") || b == "node_modules" || b == "libsodium-fork" || b == "zz_verif_tools" || b == "testdata") {
				return filepath.SkipDir
			}
			if skipDir(rel) {
				return filepath.SkipDir
			}
			return nil
		}
		if !strings.HasSuffix(path, ".go") || strings.HasSuffix(path, "_test.go") || strings.HasPrefix(info.Name(), "zz_verif") {
			return nil
		}
		d := filepath.Dir(rel)
		if info.Name() == "msgp_gen.go" {
			genDirs[d] = true
			return nil
		}
		if b, err := os.ReadFile(path); err == nil && callRE.Match(b) {
			callDirs[d] = true
		}
		return nil
	})
	var patterns []string
	for d := range genDirs {
		patterns = append(patterns, "./"+d)
	}
	for d := range callDirs {
		if !genDirs[d] {
			patterns = append(patterns, "./"+d)
		}
	}
	sort.Strings(patterns)

	cfg := &packages.Config{
		Mode: packages.NeedName | packages.NeedFiles | packages.NeedCompiledGoFiles | packages.NeedSyntax | packages.NeedTypes | packages.NeedTypesInfo | packages.NeedImports,
		Fset: fset,
		Dir:  repoAbs,
	}
	if *ovl != "" {
		cfg.BuildFlags = []string{"-overlay", *ovl}
		var om struct{ Replace map[string]string }
		if b, err := os.ReadFile(*ovl); err == nil {
			json.Unmarshal(b, &om)
		}
		cfg.Overlay = map[string][]byte{}
		for l, a := range om.Replace {
			if bb, err := os.ReadFile(a); err == nil {
				cfg.Overlay[l] = bb
			}
		}
	}
	loaded, err := packages.Load(cfg, patterns...)
	if err != nil {
		fmt.Fprintln(os.Stderr, "load:", err)
		os.Exit(2)
	}
	out := Out{Edges: map[string][]string{}}
	directives := map[string]map[string]string{}
	for _, p := range loaded {
		for _, e := range p.Errors {
			out.Problems = append(out.Problems, "package "+p.PkgPath+": "+e.Error())
		}
		directives[p.PkgPath] = directivesOf(p)
	}
	sort.Slice(loaded, func(i, j int) bool { return loaded[i].PkgPath < loaded[j].PkgPath })

	generated := map[string]bool{} // typeKey of every type with a generated decoder
	handwritten := map[string]bool{}
	for _, p := range loaded {
		dir := relDir(p.PkgPath)
		if !genDirs[dir] {
			continue
		}
		info := PkgInfo{Dir: dir, Name: p.Name, Imports: map[string]string{}, Directives: directives[p.PkgPath], Types: []string{}, Exprs: []string{}, Handwritten: []string{}}
		decl := &declCtx{pkg: p, directives: directives}
		exprs := map[string]bool{}
		var genFile *ast.File
		for i, f := range p.Syntax {
			if i < len(p.CompiledGoFiles) && filepath.Base(p.CompiledGoFiles[i]) == "msgp_gen.go" {
				genFile = f
			}
		}
		if genFile == nil {
			out.Problems = append(out.Problems, "msgp_gen.go of "+dir+" was not loaded")
			continue
		}
		for _, d := range genFile.Decls {
			fd, ok := d.(*ast.FuncDecl)
			if !ok || fd.Name.Name != "UnmarshalMsgWithState" || fd.Body == nil {
				continue
			}
			tn := recvName(fd)
			key := dir + "." + tn
			generated[key] = true
			info.Types = append(info.Types, tn)
			sc := &scanner{pkg: p, dir: dir, typ: tn, decl: decl, sites: &out.Sites, calls: map[string]bool{}}
			g := Site{Pkg: dir, Type: tn, Line: fset.Position(fd.Pos()).Line, Kind: "depth", Check: "guard"}
			if !hasDepthGuard(fd) {
				// a dangling type forwards to its base type's decoder (`return ((*(T))(z)).UnmarshalMsgWithState(bts, st)`): the callee guards
				if len(fd.Body.List) == 1 {
					if _, ok := fd.Body.List[0].(*ast.ReturnStmt); ok {
						g.Check = "fixed"
					} else {
						g.Check = "missing"
					}
				} else {
					g.Check = "missing"
				}
			}
			out.Sites = append(out.Sites, g)
			first := len(out.Sites)
			sc.block(fd.Body.List, map[string]*hdr{})
			sc.finish()
			for i := first; i < len(out.Sites); i++ {
				if b := out.Sites[i].Bound; b != "" && out.Sites[i].Kind != "array" && out.Sites[i].Kind != "tuple" && out.Sites[i].Kind != "call" {
					exprs[b] = true
				}
			}
			var cl []string
			for c := range sc.calls {
				cl = append(cl, c)
			}
			sort.Strings(cl)
			out.Edges[key] = cl
		}
		// declared bounds of the package (struct tags and directives), so that the harness registry can evaluate all of them
		for _, b := range info.Directives {
			for _, q := range strings.Split(b, ",") {
				if q != "-" && q != "" {
					exprs[q] = true
				}
			}
		}
		scope := p.Types.Scope()
		for _, n := range scope.Names() {
			tn, ok := scope.Lookup(n).(*types.TypeName)
			if !ok {
				continue
			}
			collectTagExprs(tn.Type().Underlying(), exprs, 0)
		}
		// hand-written decoders of the package
		for i, f := range p.Syntax {
			if i < len(p.CompiledGoFiles) && filepath.Base(p.CompiledGoFiles[i]) == "msgp_gen.go" {
				continue
			}
			if i < len(p.CompiledGoFiles) && strings.HasSuffix(p.CompiledGoFiles[i], "_test.go") {
				continue
			}
			for _, d := range f.Decls {
				if fd, ok := d.(*ast.FuncDecl); ok && fd.Name.Name == "UnmarshalMsgWithState" && fd.Body != nil {
					tn := recvName(fd)
					info.Handwritten = append(info.Handwritten, tn)
					handwritten[dir+"."+tn] = true
					// its callees still matter for reachability
					sc := &scanner{pkg: p, dir: dir, typ: tn, decl: decl, sites: new([]Site), calls: map[string]bool{}}
					sc.block(fd.Body.List, map[string]*hdr{})
					var cl []string
					for c := range sc.calls {
						cl = append(cl, c)
					}
					sort.Strings(cl)
					out.Edges[dir+"."+tn] = cl
				}
			}
		}
		// qualifiers used by the expressions
		quals := map[string]bool{}
		qre := regexp.MustCompile(`([A-Za-z_][A-Za-z0-9_]*)\.[A-Za-z_]`)
		for e := range exprs {
			for _, m := range qre.FindAllStringSubmatch(e, -1) {
				quals[m[1]] = true
			}
		}
		for _, f := range p.Syntax {
			for _, im := range f.Imports {
				ipath := strings.Trim(im.Path.Value, `"`)
				pn := p.TypesInfo.PkgNameOf(im)
				if pn == nil {
					continue
				}
				name := pn.Name()
				if quals[name] {
					if old, ok := info.Imports[name]; ok && old != ipath {
						out.Problems = append(out.Problems, fmt.Sprintf("package %s: qualifier %s names both %s and %s", dir, name, old, ipath))
					}
					info.Imports[name] = ipath
				}
			}
		}
		for q := range quals {
			if _, ok := info.Imports[q]; !ok {
				out.Problems = append(out.Problems, fmt.Sprintf("package %s: qualifier %s of a bound expression is not an import of the package", dir, q))
			}
		}
		for e := range exprs {
			info.Exprs = append(info.Exprs, e)
		}
		sort.Strings(info.Exprs)
		sort.Strings(info.Types)
		sort.Strings(info.Handwritten)
		out.Packages = append(out.Packages, info)
	}

	// the depth limit: protocol/codec.go init() sets msgp.DefaultUnmarshalState.AllowableDepth to a constant
	out.MaxDepth = -1
	for _, p := range loaded {
		if relDir(p.PkgPath) != "protocol" {
			continue
		}
		for _, f := range p.Syntax {
			ast.Inspect(f, func(n ast.Node) bool {
				as, ok := n.(*ast.AssignStmt)
				if !ok || len(as.Lhs) != 1 || len(as.Rhs) != 1 || exprStr(as.Lhs[0]) != "msgp.DefaultUnmarshalState.AllowableDepth" {
					return true
				}
				if tv, ok := p.TypesInfo.Types[as.Rhs[0]]; ok && tv.Value != nil {
					if v, exact := constant.Int64Val(tv.Value); exact {
						out.MaxDepth = v
					}
				}
				return true
			})
		}
	}
	if out.MaxDepth < 0 {
		out.Problems = append(out.Problems, "protocol/codec.go no longer sets msgp.DefaultUnmarshalState.AllowableDepth to a constant (depth limit of the decoders not found)")
		out.MaxDepth = 0
	}

	// 2. entry points
	for _, p := range loaded {
		scanEntries(p, repoAbs, &out.Entries)
	}
	sort.Slice(out.Entries, func(i, j int) bool {
		if out.Entries[i].File != out.Entries[j].File {
			return out.Entries[i].File < out.Entries[j].File
		}
		return out.Entries[i].Line < out.Entries[j].Line
	})

	// 3. reachability from the net / file entry points
	reach := map[string]bool{}
	var todo []string
	for _, e := range out.Entries {
		if e.Class == "net" || e.Class == "file" {
			for _, r := range e.Roots {
				if !reach[r] {
					reach[r] = true
					todo = append(todo, r)
				}
			}
		}
	}
	for len(todo) > 0 {
		t := todo[len(todo)-1]
		todo = todo[:len(todo)-1]
		for _, c := range out.Edges[t] {
			if !reach[c] {
				reach[c] = true
				todo = append(todo, c)
			}
		}
	}
	for t := range reach {
		if generated[t] || handwritten[t] {
			out.NetTypes = append(out.NetTypes, t)
		}
	}
	sort.Strings(out.NetTypes)
	for i := range out.Sites {
		out.Sites[i].Net = reach[out.Sites[i].Pkg+"."+out.Sites[i].Type]
	}
	sort.SliceStable(out.Sites, func(i, j int) bool {
		a, b := out.Sites[i], out.Sites[j]
		if a.Pkg != b.Pkg {
			return a.Pkg < b.Pkg
		}
		return a.Line < b.Line
	})
	sort.Strings(out.Problems)

	if *jsonOut != "" {
		b, _ := json.MarshalIndent(out, "", " ")
		writeIfChanged(*jsonOut, append(b, '\n'))
	}
	if *leanOut != "" {
		data, okf := leanFiles(&out)
		writeIfChanged(*leanOut, []byte(data))
		writeIfChanged(strings.TrimSuffix(*leanOut, ".lean")+"Ok.lean", []byte(okf))
	}
	fmt.Printf("c41sites: %d sites in %d packages, %d entry points, %d net-reachable decoders, %d problems\n",
		len(out.Sites), len(out.Packages), len(out.Entries), len(out.NetTypes), len(out.Problems))
	for _, p := range out.Problems {
		fmt.Println("PROBLEM", p)
	}
}

func collectTagExprs(t types.Type, exprs map[string]bool, depth int) {
	st, ok := t.(*types.Struct)
	if !ok || depth > 3 {
		return
	}
	for i := 0; i < st.NumFields(); i++ {
		isColl := false
		switch u := st.Field(i).Type().Underlying().(type) {
		case *types.Slice, *types.Map:
			isColl = true
		case *types.Basic:
			isColl = u.Kind() == types.String
		}
		if b, ok := tagBound(st.Tag(i)); ok && isColl { // msgp ignores an allocbound on anything else (e.g. on a [32]byte)
			for _, q := range strings.Split(b, ",") {
				if q != "-" && q != "" {
					exprs[q] = true
				}
			}
		}
		if _, named := st.Field(i).Type().(*types.Named); !named {
			collectTagExprs(st.Field(i).Type().Underlying(), exprs, depth+1)
		}
	}
}

const chunk = 64

func leanFiles(o *Out) (string, string) {
	var b, t strings.Builder
	b.WriteString("-- GENERATED by /verif/tools/c41sites from every msgp_gen.go of the current tree. DO NOT EDIT.\n")
	b.WriteString("-- One `Site` per collection-read site of a generated UnmarshalMsgWithState; fields: Model/MsgpSite.lean.\n")
	b.WriteString("import AlgoVerif.Model.MsgpSite\nnamespace AlgoVerif.Gen.MsgpSites\nopen AlgoVerif.MsgpSite\n\n")
	t.WriteString("-- GENERATED by /verif/tools/c41sites. DO NOT EDIT.  Per-chunk evaluation of `siteOK` over Gen.MsgpSites (kernel `decide`).\n")
	t.WriteString("import AlgoVerif.Gen.MsgpSites\nnamespace AlgoVerif.Gen.MsgpSites\nopen AlgoVerif.MsgpSite\n\n")
	n := 0
	for i := 0; i < len(o.Sites); i += chunk {
		j := i + chunk
		if j > len(o.Sites) {
			j = len(o.Sites)
		}
		fmt.Fprintf(&b, "def chunk%d : List Site := [\n", n)
		for k := i; k < j; k++ {
			s := o.Sites[k]
			sep := ","
			if k == j-1 {
				sep = ""
			}
			fmt.Fprintf(&b, "  ⟨%s, %s, %d, .%s, .%s, %s, %s, %s, %v⟩%s\n", leanStr(s.Pkg), leanStr(s.Type), s.Line, kindCtor(s.Kind), checkCtor(s.Check),
				leanStr(s.Target), leanStr(s.Bound), leanStr(s.Declared), s.Net, sep)
		}
		b.WriteString("]\n\n")
		fmt.Fprintf(&t, "theorem chunk%d_ok : chunk%d.all siteOK = true := by decide\n", n, n)
		n++
	}
	b.WriteString("def chunks : List (List Site) := [")
	t.WriteString("\ntheorem chunks_ok : ∀ c ∈ chunks, c.all siteOK = true := by\n  intro c hc\n  simp only [chunks, List.mem_cons, List.not_mem_nil, or_false] at hc\n  rcases hc with ")
	for i := 0; i < n; i++ {
		if i > 0 {
			b.WriteString(", ")
			t.WriteString(" | ")
		}
		fmt.Fprintf(&b, "chunk%d", i)
		t.WriteString("rfl")
	}
	b.WriteString("]\n\n")
	t.WriteString("\n")
	for i := 0; i < n; i++ {
		fmt.Fprintf(&t, "  · exact chunk%d_ok\n", i)
	}
	fmt.Fprintf(&b, "def numSites : Nat := %d\n", len(o.Sites))
	fmt.Fprintf(&b, "def numProblems : Nat := %d\n", len(o.Problems))
	fmt.Fprintf(&b, "/-- protocol/codec.go: `msgp.DefaultUnmarshalState.AllowableDepth = maxMsgpDecodeDepth` -/\ndef maxDepth : Nat := %d\n", o.MaxDepth)
	b.WriteString("\nend AlgoVerif.Gen.MsgpSites\n")
	t.WriteString("\nend AlgoVerif.Gen.MsgpSites\n")
	return b.String(), t.String()
}

func kindCtor(k string) string {
	switch k {
	case "slice", "map", "bytes", "str", "array", "tuple", "exact", "structmap", "structarr", "depth", "call":
		return k
	}
	return "unknown"
}

func checkCtor(c string) string {
	switch c {
	case "bound", "intrinsic", "fixed", "loop", "guard", "exempt", "missing", "after", "stale", "undominated", "passes", "resets":
		return c
	}
	return "undominated"
}
