// Package c40h: the C40 (one canonical encoding) harness core, shared by the per-package test files that the check
// generates from the msgp_gen.go files of the current tree (injected by the overlay as
// github.com/algorand/go-algorand/zz_verif_tools/c40h; never committed to /repo).
//
// Op line:      <pkg>.<Type> <mode> <instance-seed> <hex of protocol.Encode(obj)>
// Result line:  canon <dump>            every implementation-side check passed; <dump> is the walk of the bytes by
//
//	                        the msgp library's own read primitives (compared with the Lean decoder)
//	FAIL <what> …           the two encoders disagree / the round trip is not the identity / an id changed
//	SKIP <why>              type cannot be randomized (msgp.Raw field)
package c40h

import (
	"bytes"
	"crypto/sha512"
	"encoding/hex"
	"fmt"
	"hash/fnv"
	"reflect"
	"sort"
	"strconv"
	"strings"
	"testing"

	"github.com/algorand/msgp/msgp"

	"github.com/algorand/go-algorand/protocol"
	"github.com/algorand/go-algorand/zz_verif_tools/vh"
)

// MU is what every msgp-generated type provides (on its pointer).
type MU interface {
	msgp.Marshaler
	msgp.Unmarshaler
}

// T is one msgp-generated type of a package.
type T struct {
	Name string
	New  func() MU
}

type hashable interface {
	ToBeHashed() (protocol.HashID, []byte)
}

// ---------------------------------------------------------------------------------------------- randomizer
// A port of protocol.RandomizeObject (codec_tester.go) drawing from vh.Rng instead of math/rand (rand.Seed is a
// no-op with the repo's Go version), with boundary-heavy and zero-heavy modes.

type cfg struct {
	mode       string
	zeroEveryN int  // leave a nested value zero with probability 1/n
	allSizes   bool // uint magnitudes spread over all msgpack size classes
	edges      bool // boundary integers, boundary lengths
	empties    bool // nil / empty-but-non-nil collections
	bound1     bool // collections carrying an allocbound get exactly one element (as the repo's randomizer does)
	ptrEmpty   bool // keep non-nil pointers to all-empty values
	structKeys bool // maps keyed by a struct may get several keys (only the informational "structkeys" stream)
	maxLen     int
}

var rawMsgpType = reflect.TypeOf(msgp.Raw{})

type skipErr struct{ why string }

func (s skipErr) Error() string { return s.why }

var uintEdges = []uint64{0, 1, 127, 128, 255, 256, 65535, 65536, 1<<32 - 1, 1 << 32, 1<<63 - 1, 1 << 63, ^uint64(0)}
var intEdges = []int64{0, 1, -1, -32, -33, -128, -129, -32768, -32769, -2147483648, -2147483649, -9223372036854775808, 127, 128, 9223372036854775807}
var lenEdges = []int{0, 1, 15, 16, 17, 31, 32, 33, 255, 256, 257}

func hasTagOpt(tag reflect.StructTag, opt string) (string, bool) {
	for _, o := range strings.Split(tag.Get("codec"), ",") {
		if o == opt {
			return "", true
		}
		if strings.HasPrefix(o, opt+"=") {
			return o[len(opt)+1:], true
		}
	}
	return "", false
}

var allocBoundCache = map[reflect.Type]bool{}

// typeHasAllocBound: a named collection type with a `//msgp:allocbound T …` directive in its package (looked up with the
// repo's own helper through RandomizeObject is not possible; approximate by name lookup in the sources is done by
// protocol's unexported code) — we simply treat every NAMED slice/map/string type as bounded: one element.
func typeHasAllocBound(t reflect.Type) bool {
	return t.Name() != "" && t.PkgPath() != ""
}

func (c *cfg) randomize(r *vh.Rng, v reflect.Value, depth int, path string, tag reflect.StructTag, onStack map[reflect.Type]int) error {
	_, required := hasTagOpt(tag, "required")
	if required && (c.zeroEveryN != 0 || c.empties) {
		// a `required` field must be present in the encoding (the type's own decoder rejects the object otherwise):
		// nothing below it is left zero / empty
		nc := *c
		nc.zeroEveryN, nc.empties = 0, false
		c = &nc
	}
	if depth != 0 && c.zeroEveryN > 0 && !hasRequired(v.Type()) && r.Intn(c.zeroEveryN) == 0 {
		return nil
	}
	switch v.Kind() {
	case reflect.Uint, reflect.Uintptr, reflect.Uint8, reflect.Uint16, reflect.Uint32, reflect.Uint64:
		if strings.HasSuffix(v.Type().PkgPath(), "go-algorand/crypto") && v.Type().Name() == "HashType" {
			v.SetUint(r.U64() % 3) // crypto.MaxHashType; HashFactory.Validate rejects anything else
			break
		}
		var num uint64
		switch {
		case c.edges && r.Intn(3) == 0:
			num = uintEdges[r.Intn(len(uintEdges))]
		case c.allSizes:
			switch r.Intn(5) {
			case 0:
				num = r.U64() % 128
			case 1:
				num = r.U64() % 256
			case 2:
				num = r.U64() % 65536
			case 3:
				num = r.U64() % (1 << 32)
			default:
				num = r.U64()
			}
		default:
			num = r.U64()
		}
		v.SetUint(num) // truncates to the field's width
		if required && v.Uint() == 0 {
			v.SetUint(1)
		}
	case reflect.Int, reflect.Int8, reflect.Int16, reflect.Int32, reflect.Int64:
		var num int64
		switch {
		case c.edges && r.Intn(2) == 0:
			num = intEdges[r.Intn(len(intEdges))]
		case c.allSizes:
			num = int64(r.U64()) >> uint(r.Intn(64))
		default:
			num = int64(r.U64())
		}
		v.SetInt(num)
		if required && v.Int() == 0 {
			v.SetInt(1)
		}
	case reflect.String:
		_, bounded := hasTagOpt(tag, "allocbound")
		bounded = bounded || typeHasAllocBound(v.Type())
		var n int
		switch {
		case strings.HasSuffix(v.Type().PkgPath(), "go-algorand/agreement") && v.Type().Name() == "serializableError":
			n = r.Intn(63) + 1 // a nil *string and "" serialize differently by design (codec_tester.go)
		case strings.HasSuffix(v.Type().PkgPath(), "go-algorand/protocol") && v.Type().Name() == "TxType":
			n = r.Intn(6) + 1
		case bounded && c.bound1:
			n = 1
		case bounded:
			n = r.Intn(4)
		case c.edges && r.Intn(2) == 0:
			n = lenEdges[r.Intn(len(lenEdges))]
		default:
			n = r.Intn(64)
		}
		if required && n == 0 {
			n = 1
		}
		v.SetString(string(r.Bytes(n)))
	case reflect.Ptr:
		if onStack[v.Type().Elem()] > 0 {
			return nil
		}
		v.Set(reflect.New(v.Type().Elem()))
		if err := c.randomize(r, reflect.Indirect(v), depth+1, path, tag, onStack); err != nil {
			return err
		}
		if !c.ptrEmpty && isEmptyVal(reflect.Indirect(v)) {
			// a non-nil pointer to an all-empty value is normalised to nil: the generated code tests the POINTER for
			// omitempty, go-codec (RecursiveEmptyCheck) tests the pointee; see mode "ptrempty" for the un-normalised form
			v.Set(reflect.Zero(v.Type()))
		}
	case reflect.Struct:
		st := v.Type()
		if onStack[st] > 0 {
			return nil // recursive type: stop
		}
		onStack[st]++
		defer func() { onStack[st]-- }()
		for i := 0; i < v.NumField(); i++ {
			f := st.Field(i)
			if f.PkgPath != "" && !f.Anonymous {
				continue // unexported
			}
			if f.Type == rawMsgpType {
				return skipErr{"msgp.Raw field " + path + "/" + f.Name}
			}
			if !v.Field(i).CanSet() {
				continue
			}
			if err := c.randomize(r, v.Field(i), depth+1, path+"/"+f.Name, f.Tag, onStack); err != nil {
				return err
			}
		}
	case reflect.Array:
		for i := 0; i < v.Len(); i++ {
			if err := c.randomize(r, v.Index(i), depth+1, path, "", onStack); err != nil {
				return err
			}
		}
	case reflect.Slice:
		if v.Type() == rawMsgpType {
			return skipErr{"msgp.Raw " + path}
		}
		if el := v.Type().Elem(); el.Kind() == reflect.Struct && onStack[el] > 0 {
			return nil
		}
		_, bounded := hasTagOpt(tag, "allocbound")
		bounded = bounded || typeHasAllocBound(v.Type())
		isBytes := v.Type().Elem().Kind() == reflect.Uint8
		var l int
		switch {
		case bounded && c.bound1:
			l = 1
		case bounded:
			l = 1 + r.Intn(3)
		case c.edges && r.Intn(2) == 0 && (isBytes || depth < 3):
			l = lenEdges[1+r.Intn(len(lenEdges)-1)]
			if !isBytes && l > 33 {
				l = 17
			}
		case isBytes:
			l = 1 + r.Intn(48)
		default:
			l = 1 + r.Intn(c.lenAt(depth))
		}
		if c.empties && r.Intn(3) == 0 {
			if r.Bool() {
				v.Set(reflect.MakeSlice(v.Type(), 0, 0)) // empty, non-nil
			}
			return nil // else nil
		}
		s := reflect.MakeSlice(v.Type(), l, l)
		for i := 0; i < l; i++ {
			if err := c.randomize(r, s.Index(i), depth+1, path, "", onStack); err != nil {
				return err
			}
		}
		v.Set(s)
	case reflect.Bool:
		v.SetBool(r.Bool())
	case reflect.Map:
		_, bounded := hasTagOpt(tag, "allocbound")
		bounded = bounded || typeHasAllocBound(v.Type())
		mt := v.Type()
		if c.empties && r.Intn(3) == 0 {
			if r.Bool() {
				v.Set(reflect.MakeMap(mt))
			}
			return nil
		}
		v.Set(reflect.MakeMap(mt))
		var l int
		switch {
		case bounded && c.bound1:
			l = 1
		case bounded:
			l = 1 + r.Intn(3)
		case c.edges && depth < 3 && r.Intn(3) == 0:
			l = []int{15, 16, 17}[r.Intn(3)]
		default:
			l = r.Intn(c.lenAt(depth) + 1)
		}
		if mt.Key().Kind() == reflect.Struct {
			// map[proposalValue]… (agreement crash-recovery state only): msgp orders struct keys field by field,
			// go-codec by their encoding; out of the property's scope, kept to one key except in "structkeys"
			if c.structKeys {
				l = 2 + r.Intn(3)
			} else if l > 1 {
				l = 1
			}
		}
		for i := 0; i < l; i++ {
			mk := reflect.New(mt.Key())
			// keys are never left zero on purpose (zeroEveryN applies below depth 0 only to values)
			kc := *c
			kc.zeroEveryN = 0
			if err := kc.randomize(r, mk.Elem(), depth+1, path, "", onStack); err != nil {
				return err
			}
			mv := reflect.New(mt.Elem())
			if err := c.randomize(r, mv.Elem(), depth+1, path, "", onStack); err != nil {
				return err
			}
			v.SetMapIndex(mk.Elem(), mv.Elem())
		}
	case reflect.Interface:
		return skipErr{"interface field " + path}
	default:
		return skipErr{fmt.Sprintf("unsupported kind %v at %s", v.Kind(), path)}
	}
	return nil
}

var hasRequiredMemo = map[reflect.Type]bool{}

// hasRequired: the zero value of t cannot be decoded back because a struct inside it (not behind a slice, map or
// pointer) has a `required` field.
func hasRequired(t reflect.Type) bool {
	if r, ok := hasRequiredMemo[t]; ok {
		return r
	}
	hasRequiredMemo[t] = false // recursion guard
	res := false
	switch t.Kind() {
	case reflect.Struct:
		for i := 0; i < t.NumField() && !res; i++ {
			f := t.Field(i)
			if _, req := hasTagOpt(f.Tag, "required"); req {
				res = true
			} else if f.Type.Kind() == reflect.Struct || f.Type.Kind() == reflect.Array {
				res = hasRequired(f.Type)
			}
		}
	case reflect.Array:
		res = t.Len() > 0 && hasRequired(t.Elem())
	}
	hasRequiredMemo[t] = res
	return res
}

// HasStructKeyMap: t contains a map keyed by a struct type.
func HasStructKeyMap(t reflect.Type, seen map[reflect.Type]bool) bool {
	if seen[t] {
		return false
	}
	seen[t] = true
	switch t.Kind() {
	case reflect.Map:
		return t.Key().Kind() == reflect.Struct || HasStructKeyMap(t.Elem(), seen)
	case reflect.Ptr, reflect.Slice, reflect.Array:
		return HasStructKeyMap(t.Elem(), seen)
	case reflect.Struct:
		for i := 0; i < t.NumField(); i++ {
			if HasStructKeyMap(t.Field(i).Type, seen) {
				return true
			}
		}
	}
	return false
}

// isEmptyVal is go-codec's recursive emptiness (RecursiveEmptyCheck): zero scalars, zero-length collections and strings,
// nil or empty-pointee pointers, structs and arrays all of whose members are empty.
func isEmptyVal(v reflect.Value) bool {
	switch v.Kind() {
	case reflect.Bool:
		return !v.Bool()
	case reflect.Int, reflect.Int8, reflect.Int16, reflect.Int32, reflect.Int64:
		return v.Int() == 0
	case reflect.Uint, reflect.Uintptr, reflect.Uint8, reflect.Uint16, reflect.Uint32, reflect.Uint64:
		return v.Uint() == 0
	case reflect.String, reflect.Slice, reflect.Map:
		return v.Len() == 0
	case reflect.Ptr, reflect.Interface:
		return v.IsNil() || isEmptyVal(v.Elem())
	case reflect.Array:
		for i := 0; i < v.Len(); i++ {
			if !isEmptyVal(v.Index(i)) {
				return false
			}
		}
		return true
	case reflect.Struct:
		for i := 0; i < v.NumField(); i++ {
			if !isEmptyVal(v.Field(i)) {
				return false
			}
		}
		return true
	}
	return v.IsZero()
}

func (c *cfg) lenAt(depth int) int {
	n := c.maxLen
	for d := 1; d < depth && n > 2; d += 2 {
		n = n/2 + 1
	}
	if n < 1 {
		n = 1
	}
	return n
}

// Modes lists the instance distributions.
var Modes = []string{"rand", "zero", "edge", "empty", "rand1", "zero1"}

func modeCfg(mode string) *cfg {
	switch mode {
	case "rand": // the repo's RandomizeObject default, but bounded collections may get up to 3 elements
		return &cfg{mode: mode, maxLen: 8}
	case "zero": // zero-heavy, all size classes
		return &cfg{mode: mode, zeroEveryN: 3, allSizes: true, maxLen: 6}
	case "edge": // boundary integers and lengths
		return &cfg{mode: mode, zeroEveryN: 7, allSizes: true, edges: true, maxLen: 6}
	case "empty": // nil vs empty-but-allocated collections
		return &cfg{mode: mode, zeroEveryN: 4, allSizes: true, empties: true, maxLen: 4}
	case "rand1": // exactly the repo's rule for bounded collections (one element)
		return &cfg{mode: mode, bound1: true, maxLen: 8}
	case "zero1":
		return &cfg{mode: mode, zeroEveryN: 3, allSizes: true, bound1: true, maxLen: 6}
	case "structkeys": // informational only
		return &cfg{mode: mode, structKeys: true, bound1: true, maxLen: 3}
	}
	return nil
}

// Instance builds the (type, mode, seed) instance deterministically.
func Instance(t T, mode string, seed uint64) (MU, error) { return instance(t, mode, seed, false) }

func instance(t T, mode string, seed uint64, bound1 bool) (MU, error) {
	c := modeCfg(mode)
	if c == nil {
		return nil, fmt.Errorf("unknown mode %s", mode)
	}
	if bound1 {
		c.bound1 = true
	}
	obj := t.New()
	r := vh.NewRng(seed)
	err := c.randomize(r, reflect.ValueOf(obj).Elem(), 0, t.Name, "", map[reflect.Type]int{})
	return obj, err
}

// ---------------------------------------------------------------------------------------------- dump
// Walk the bytes with the msgp library's read primitives; same text format as Base.Msgpack.dump.

func dumpBytes(b []byte, sb *strings.Builder, depth int) ([]byte, error) {
	if depth > 300 {
		return nil, fmt.Errorf("too deep")
	}
	if len(b) == 0 {
		return nil, fmt.Errorf("short")
	}
	switch msgp.NextType(b) {
	case msgp.NilType:
		sb.WriteString("n")
		return msgp.ReadNilBytes(b)
	case msgp.BoolType:
		v, o, err := msgp.ReadBoolBytes(b)
		if v {
			sb.WriteString("t")
		} else {
			sb.WriteString("f")
		}
		return o, err
	case msgp.UintType:
		u, o, err := msgp.ReadUint64Bytes(b)
		sb.WriteString("u" + strconv.FormatUint(u, 10))
		return o, err
	case msgp.IntType:
		i, o, err := msgp.ReadInt64Bytes(b)
		if i >= 0 {
			sb.WriteString("u" + strconv.FormatInt(i, 10))
		} else {
			sb.WriteString("i" + strconv.FormatInt(i, 10))
		}
		return o, err
	case msgp.BinType:
		v, o, err := msgp.ReadBytesZC(b)
		sb.WriteString("b" + hex.EncodeToString(v))
		return o, err
	case msgp.StrType:
		v, o, err := msgp.ReadStringZC(b)
		sb.WriteString("s" + hex.EncodeToString(v))
		return o, err
	case msgp.ArrayType:
		n, _, o, err := msgp.ReadArrayHeaderBytes(b)
		if err != nil {
			return o, err
		}
		sb.WriteString("[")
		for i := 0; i < n; i++ {
			if i > 0 {
				sb.WriteString(",")
			}
			if o, err = dumpBytes(o, sb, depth+1); err != nil {
				return o, err
			}
		}
		sb.WriteString("]")
		return o, nil
	case msgp.MapType:
		n, _, o, err := msgp.ReadMapHeaderBytes(b)
		if err != nil {
			return o, err
		}
		sb.WriteString("{")
		for i := 0; i < n; i++ {
			if i > 0 {
				sb.WriteString(",")
			}
			if o, err = dumpBytes(o, sb, depth+1); err != nil {
				return o, err
			}
			sb.WriteString(":")
			if o, err = dumpBytes(o, sb, depth+1); err != nil {
				return o, err
			}
		}
		sb.WriteString("}")
		return o, nil
	}
	return nil, fmt.Errorf("unsupported msgpack type %v (tag %#x)", msgp.NextType(b), b[0])
}

// Dump returns the normalised tree text of one complete msgpack value.
func Dump(b []byte) string {
	var sb strings.Builder
	rest, err := dumpBytes(b, &sb, 0)
	if err != nil {
		return "undumpable(" + err.Error() + ")"
	}
	if len(rest) != 0 {
		return fmt.Sprintf("trailing(%d)", len(rest))
	}
	return sb.String()
}

// ---------------------------------------------------------------------------------------------- executor

func short(b []byte) string {
	if len(b) > 4096 {
		return hex.EncodeToString(b[:4096]) + "…"
	}
	return hex.EncodeToString(b)
}

func diffAt(a, b []byte) int {
	n := len(a)
	if len(b) < n {
		n = len(b)
	}
	for i := 0; i < n; i++ {
		if a[i] != b[i] {
			return i
		}
	}
	return n
}

func idOf(o interface{}) (string, bool) {
	h, ok := o.(hashable)
	if !ok {
		return "", false
	}
	id, data := h.ToBeHashed()
	sum := sha512.Sum512_256(append([]byte(id), data...))
	return hex.EncodeToString(sum[:]), true
}

// Check runs every implementation-side check on one object and returns (encoding, result line).
func Check(t T, obj MU) (e1 []byte, res string) {
	res = vh.Catch(func() string {
		e1 = protocol.Encode(obj)         // the generated encoder (falls back to reflection only when CanMarshalMsg says no)
		em := obj.MarshalMsg(nil)         // the generated encoder, directly
		e2 := protocol.EncodeReflect(obj) // go-codec, canonical handle
		if !bytes.Equal(e1, em) {
			return fmt.Sprintf("FAIL encode-vs-marshalmsg at=%d encode=%s marshalmsg=%s", diffAt(e1, em), short(e1), short(em))
		}
		if !bytes.Equal(e1, e2) {
			return fmt.Sprintf("FAIL encoders-disagree at=%d msgp=%s reflect=%s", diffAt(e1, e2), short(e1), short(e2))
		}
		// decode with both decoders
		v1, v2 := t.New(), t.New()
		if err := protocol.Decode(e1, v1); err != nil {
			return "FAIL decode-msgp " + err.Error()
		}
		if err := protocol.DecodeReflect(e1, v2); err != nil {
			return "FAIL decode-reflect " + err.Error()
		}
		if !reflect.DeepEqual(v1, v2) {
			return "FAIL decoders-disagree"
		}
		// re-encode the decoded object with both encoders
		r1, r2 := protocol.Encode(v1), protocol.EncodeReflect(v1)
		if !bytes.Equal(r1, e1) {
			return fmt.Sprintf("FAIL roundtrip-msgp at=%d first=%s again=%s", diffAt(e1, r1), short(e1), short(r1))
		}
		if !bytes.Equal(r2, e1) {
			return fmt.Sprintf("FAIL roundtrip-reflect at=%d first=%s again=%s", diffAt(e1, r2), short(e1), short(r2))
		}
		// identifiers derived from the encoding
		if id0, ok := idOf(obj); ok {
			id1, _ := idOf(v1)
			id2, _ := idOf(v2)
			if id0 != id1 || id0 != id2 {
				return fmt.Sprintf("FAIL id-changed original=%s msgp-roundtrip=%s reflect-roundtrip=%s", id0, id1, id2)
			}
		}
		// msgp.Skip must consume exactly the value
		if left, err := msgp.Skip(e1); err != nil || len(left) != 0 {
			return fmt.Sprintf("FAIL skip left=%d err=%v", len(left), err)
		}
		return "canon " + Dump(e1)
	})
	return
}

func instSeed(seed uint64, name, mode string, i int) uint64 {
	h := fnv.New64a()
	fmt.Fprintf(h, "%d|%s|%s|%d", seed, name, mode, i)
	return h.Sum64() >> 1
}

// Run is the body of every generated TestVerifC40.
func Run(t *testing.T, pkg string, types []T) {
	sort.Slice(types, func(i, j int) bool { return types[i].Name < types[j].Name })
	byName := map[string]T{}
	for _, ty := range types {
		byName[pkg+"."+ty.Name] = ty
	}
	out := vh.Open("c40_" + strings.ReplaceAll(pkg, "/", "_"))
	defer out.Close()
	schemaOK := map[string]bool{}
	schemaDone := map[string]bool{}
	emitSchema := func(ty T) {
		name := pkg + "." + ty.Name
		if schemaDone[name] {
			return
		}
		schemaDone[name] = true
		tytext, err := DescribeType(reflect.TypeOf(ty.New()).Elem(), map[reflect.Type]bool{})
		if err != nil {
			out.Emit(fmt.Sprintf("schema %s -", name), "schema-skip "+err.Error())
			return
		}
		schemaOK[name] = true
		out.Emit(fmt.Sprintf("schema %s %s", name, tytext), "schema-ok")
	}
	// describe returns the object text for the schema tie ("-" when the type / value is outside the model) and the
	// suffix the Lean driver must reproduce
	describe := func(name string, obj MU) (string, string) {
		if !schemaOK[name] {
			return "-", ""
		}
		var sb strings.Builder
		if err := DescribeValue(reflect.ValueOf(obj).Elem(), &sb); err != nil {
			return "-", ""
		}
		return sb.String(), " schema=ok"
	}
	one := func(ty T, mode string, seed uint64, rawHex string) {
		name := pkg + "." + ty.Name
		emitSchema(ty)
		var obj MU
		if mode == "raw" {
			b, err := hex.DecodeString(rawHex)
			if err != nil {
				out.Emit(fmt.Sprintf("%s raw 0 %s", name, rawHex), "FAIL bad-hex")
				return
			}
			obj = ty.New()
			if err := protocol.Decode(b, obj); err != nil {
				out.Emit(fmt.Sprintf("%s raw 0 %s", name, rawHex), "REJECT "+err.Error())
				return
			}
		} else {
			var err error
			obj, err = Instance(ty, mode, seed)
			if err != nil {
				if _, ok := err.(skipErr); ok {
					out.Emit(fmt.Sprintf("%s %s %d -", name, mode, seed), "SKIP "+err.Error())
					return
				}
				out.Emit(fmt.Sprintf("%s %s %d -", name, mode, seed), "FAIL randomize "+err.Error())
				return
			}
		}
		if mode == "structkeys" {
			// informational: do the two encoders order ≥2 struct keys the same way? (op carries the msgp bytes)
			em, er := protocol.Encode(obj), protocol.EncodeReflect(obj)
			verdict := "same"
			if !bytes.Equal(em, er) {
				verdict = "differ"
			}
			out.Emit(fmt.Sprintf("%s %s %d %s", name, mode, seed, hex.EncodeToString(em)), "INFO struct-key-order "+verdict)
			return
		}
		e1, res := Check(ty, obj)
		if mode != "raw" && strings.HasPrefix(res, "FAIL decode-") && strings.Contains(res, "length overflow") {
			// some allocbounds are tiny (e.g. one state-proof type): the same instance again with every bounded
			// collection holding exactly one element (deterministic: replay takes the same path)
			if obj2, err := instance(ty, mode, seed, true); err == nil {
				obj = obj2
				e1, res = Check(ty, obj)
			}
		}
		otext, suffix := describe(name, obj)
		if strings.HasPrefix(res, "canon") {
			res += suffix
		} else {
			otext = "-"
		}
		out.Emit(fmt.Sprintf("%s %s %d %s %s", name, mode, seed, hex.EncodeToString(e1), otext), res)
	}
	if ops, ok := vh.ReplayOps(); ok {
		for _, op := range ops {
			f := strings.Fields(op)
			if len(f) < 4 {
				continue
			}
			ty, ok := byName[f[0]]
			if !ok {
				continue // another package's op
			}
			one(ty, f[1], vh.U(f[2]), f[3])
		}
		return
	}
	k := vh.Budget(8, 40) // instances per type and mode
	for _, ty := range types {
		// the zero value first (not an instance of a type with a `required` field: its own decoder rejects it)
		emitSchema(ty)
		zero := ty.New()
		e1, res := Check(ty, zero)
		otext := "-"
		if strings.HasPrefix(res, "FAIL decode-") && strings.Contains(res, "missing required field") {
			res = "SKIP zero value lacks a required field"
		} else if strings.HasPrefix(res, "canon") {
			var suffix string
			otext, suffix = describe(pkg+"."+ty.Name, zero)
			res += suffix
		}
		out.Emit(fmt.Sprintf("%s.%s raw 0 %s %s", pkg, ty.Name, hex.EncodeToString(e1), otext), res)
		for _, mode := range Modes {
			for i := 0; i < k; i++ {
				one(ty, mode, instSeed(vh.Seed(), ty.Name, mode, i), "")
			}
		}
		if HasStructKeyMap(reflect.TypeOf(ty.New()), map[reflect.Type]bool{}) {
			for i := 0; i < k; i++ {
				one(ty, "structkeys", instSeed(vh.Seed(), ty.Name, "structkeys", i), "")
			}
		}
	}
}
