package c40h

// Schema tie: describe a Go type (its codec struct tags) and a Go value in the text syntax of the Lean model
// Model.CodecSchema (Ty / Obj).  The Lean driver computes enc (toV ty obj) — the bytes the schema theorems speak
// about — and compares them with the bytes the real encoders produced.
//
//   Ty:  B | U<bits> | I<bits> | S | Y ([]byte) | F<n> ([n]byte) | L(<ty>) | A<n>(<ty>) | M(<ty>,<ty>) |
//        T(<hexname>:<0|1 omitempty>:<ty>;…)           fields sorted by codec name
//   Obj: t | f | u<n> | i<n> | s<hex> | yn | y<hex> | x<hex> | ln | l(<o>,…) | a(<o>,…) | mn | m(<k>=<v>,…) | r(<o>,…)
//
// The field collection follows go-codec's rget/parseTag: unexported fields skipped, tag name "-" skipped, embedded
// structs without a tag name inlined (with the OUTER struct's omitempty flags), `_struct` carries the struct-level
// omitempty / omitemptyarray flags.  Anything outside the Lean model makes the type "unsupported" (reported, skipped).

import (
	"bytes"
	"encoding/hex"
	"fmt"
	"reflect"
	"sort"
	"strconv"
	"strings"

	"github.com/algorand/go-codec/codec"
)

type unsupported struct{ why string }

func (u unsupported) Error() string { return u.why }

var uint8Type = reflect.TypeOf(uint8(0))
var selferType = reflect.TypeOf((*codec.Selfer)(nil)).Elem()

type fieldDesc struct {
	name  string
	oe    bool
	typ   reflect.Type
	index []int
	ptr   bool // pointer-to-struct field under omitempty: described as its pointee, nil = the zero pointee
}

func isMicroAlgos(t reflect.Type) bool {
	return t.Name() == "MicroAlgos" && strings.HasSuffix(t.PkgPath(), "go-algorand/data/basics")
}

func structFlags(t reflect.Type) (omitEmpty, omitEmptyArray bool) {
	if f, ok := t.FieldByName("_struct"); ok {
		for i, s := range strings.Split(f.Tag.Get("codec"), ",") {
			if i == 0 {
				continue
			}
			switch s {
			case "omitempty":
				omitEmpty = true
			case "omitemptyarray":
				omitEmptyArray = true
			}
		}
	}
	return
}

func collectFields(t reflect.Type, oe, oea bool, index []int, depth int, out *[]fieldDesc) error {
	if depth > 8 {
		return unsupported{"embedding too deep"}
	}
	for j := 0; j < t.NumField(); j++ {
		f := t.Field(j)
		switch f.Type.Kind() {
		case reflect.Func, reflect.Complex64, reflect.Complex128, reflect.UnsafePointer:
			continue
		}
		unexp := f.PkgPath != ""
		if unexp && !f.Anonymous {
			continue
		}
		stag := f.Tag.Get("codec")
		if stag == "" {
			stag = f.Tag.Get("json")
		}
		if stag == "-" {
			continue
		}
		parts := strings.Split(stag, ",")
		name := parts[0]
		foe, foea := oe, oea
		for _, p := range parts[1:] {
			switch p {
			case "omitempty":
				foe = true
			case "omitemptyarray":
				foea = true
			}
		}
		idx := append(append([]int{}, index...), j)
		if f.Anonymous {
			ft := f.Type
			isPtr := ft.Kind() == reflect.Ptr
			for ft.Kind() == reflect.Ptr {
				ft = ft.Elem()
			}
			isStruct := ft.Kind() == reflect.Struct
			if (unexp && !isStruct) || (unexp && isPtr) {
				continue
			}
			if name == "" && isStruct {
				if isPtr {
					return unsupported{"inlined embedded pointer " + f.Name}
				}
				if err := collectFields(ft, oe, oea, idx, depth+1, out); err != nil {
					return err
				}
				continue
			}
		}
		if unexp {
			continue
		}
		if name == "" {
			name = f.Name
		}
		fd := fieldDesc{name: name, typ: f.Type, index: idx}
		switch f.Type.Kind() {
		case reflect.Array:
			fd.oe = foe && foea // without omitemptyarray a non-zero-length array is never empty
			if foe && !foea && f.Type.Len() == 0 {
				return unsupported{"zero-length array under omitempty"}
			}
		case reflect.Ptr:
			if !foe || f.Type.Elem().Kind() != reflect.Struct {
				return unsupported{"pointer field outside omitempty / not to a struct: " + f.Name}
			}
			fd.oe, fd.ptr, fd.typ = true, true, f.Type.Elem()
		default:
			fd.oe = foe
		}
		*out = append(*out, fd)
	}
	return nil
}

func fieldsOf(t reflect.Type) ([]fieldDesc, error) {
	oe, oea := structFlags(t)
	if oe != oea {
		// nested arrays inherit the outer field's omitemptyarray flag in go-codec; the model has one flag per field
		return nil, unsupported{"struct-level omitempty without omitemptyarray (or vice versa) in " + t.String()}
	}
	var fs []fieldDesc
	if err := collectFields(t, oe, oea, nil, 0, &fs); err != nil {
		return nil, err
	}
	sort.SliceStable(fs, func(i, j int) bool { return fs[i].name < fs[j].name })
	for i := 1; i < len(fs); i++ {
		if fs[i].name == fs[i-1].name {
			return nil, unsupported{"duplicate codec name " + fs[i].name + " in " + t.String()}
		}
	}
	return fs, nil
}

// DescribeType renders the schema type of t.
func DescribeType(t reflect.Type, onStack map[reflect.Type]bool) (string, error) {
	if t == rawMsgpType {
		return "", unsupported{"msgp.Raw"}
	}
	if isMicroAlgos(t) {
		return "U64", nil
	}
	if t.Kind() != reflect.Ptr && t.Kind() != reflect.Interface && (t.Implements(selferType) || reflect.PtrTo(t).Implements(selferType)) {
		return "", unsupported{"codec.Selfer " + t.String()}
	}
	switch t.Kind() {
	case reflect.Bool:
		return "B", nil
	case reflect.Uint, reflect.Uintptr, reflect.Uint64:
		return "U64", nil
	case reflect.Uint8:
		return "U8", nil
	case reflect.Uint16:
		return "U16", nil
	case reflect.Uint32:
		return "U32", nil
	case reflect.Int, reflect.Int64:
		return "I64", nil
	case reflect.Int8:
		return "I8", nil
	case reflect.Int16:
		return "I16", nil
	case reflect.Int32:
		return "I32", nil
	case reflect.String:
		return "S", nil
	case reflect.Slice:
		if t.Elem() == uint8Type {
			return "Y", nil
		}
		// a slice of a NAMED byte-sized type ([]actionType) is an array of integers for both encoders, not a bin
		e, err := DescribeType(t.Elem(), onStack)
		return "L(" + e + ")", err
	case reflect.Array:
		if t.Elem() == uint8Type {
			return "F" + strconv.Itoa(t.Len()), nil
		}
		if t.Elem().Kind() == reflect.Uint8 {
			return "", unsupported{"array of a named byte type " + t.String()}
		}
		e, err := DescribeType(t.Elem(), onStack)
		return "A" + strconv.Itoa(t.Len()) + "(" + e + ")", err
	case reflect.Map:
		switch k := t.Key().Kind(); {
		case k == reflect.String, k >= reflect.Uint && k <= reflect.Uintptr:
		case k == reflect.Array && t.Key().Elem() == uint8Type:
		default:
			return "", unsupported{"map key kind " + t.Key().String()}
		}
		k, err := DescribeType(t.Key(), onStack)
		if err != nil {
			return "", err
		}
		v, err := DescribeType(t.Elem(), onStack)
		return "M(" + k + "," + v + ")", err
	case reflect.Struct:
		if onStack[t] {
			// recursive type (EvalDelta → InnerTxns → … → EvalDelta): the finite schema cuts the second occurrence to a
			// field-less struct; DescribeValue accepts only EMPTY values there (the generator never nests deeper)
			return "T()", nil
		}
		onStack[t] = true
		defer delete(onStack, t)
		fs, err := fieldsOf(t)
		if err != nil {
			return "", err
		}
		var sb strings.Builder
		sb.WriteString("T(")
		for i, f := range fs {
			if i > 0 {
				sb.WriteString(";")
			}
			ft, err := DescribeType(f.typ, onStack)
			if err != nil {
				return "", err
			}
			oe := "0"
			if f.oe {
				oe = "1"
			}
			sb.WriteString(hex.EncodeToString([]byte(f.name)) + ":" + oe + ":" + ft)
		}
		sb.WriteString(")")
		return sb.String(), nil
	}
	return "", unsupported{"kind " + t.Kind().String() + " (" + t.String() + ")"}
}

// DescribeValue renders v (of a type DescribeType accepted).
func DescribeValue(v reflect.Value, sb *strings.Builder) error {
	return describeValue(v, sb, map[reflect.Type]bool{})
}

func describeValue(v reflect.Value, sb *strings.Builder, onStack map[reflect.Type]bool) error {
	t := v.Type()
	if isMicroAlgos(t) {
		sb.WriteString("u" + strconv.FormatUint(v.FieldByName("Raw").Uint(), 10))
		return nil
	}
	switch t.Kind() {
	case reflect.Bool:
		if v.Bool() {
			sb.WriteString("t")
		} else {
			sb.WriteString("f")
		}
	case reflect.Uint, reflect.Uintptr, reflect.Uint8, reflect.Uint16, reflect.Uint32, reflect.Uint64:
		sb.WriteString("u" + strconv.FormatUint(v.Uint(), 10))
	case reflect.Int, reflect.Int8, reflect.Int16, reflect.Int32, reflect.Int64:
		sb.WriteString("i" + strconv.FormatInt(v.Int(), 10))
	case reflect.String:
		sb.WriteString("s" + hex.EncodeToString([]byte(v.String())))
	case reflect.Slice:
		if t.Elem() == uint8Type {
			if v.IsNil() {
				sb.WriteString("yn")
			} else {
				sb.WriteString("y" + hex.EncodeToString(v.Bytes()))
			}
			return nil
		}
		if v.IsNil() {
			sb.WriteString("ln")
			return nil
		}
		sb.WriteString("l(")
		for i := 0; i < v.Len(); i++ {
			if i > 0 {
				sb.WriteString(",")
			}
			if err := describeValue(v.Index(i), sb, onStack); err != nil {
				return err
			}
		}
		sb.WriteString(")")
	case reflect.Array:
		if t.Elem() == uint8Type {
			b := make([]byte, v.Len())
			for i := range b {
				b[i] = byte(v.Index(i).Uint())
			}
			sb.WriteString("x" + hex.EncodeToString(b))
			return nil
		}
		sb.WriteString("a(")
		for i := 0; i < v.Len(); i++ {
			if i > 0 {
				sb.WriteString(",")
			}
			if err := describeValue(v.Index(i), sb, onStack); err != nil {
				return err
			}
		}
		sb.WriteString(")")
	case reflect.Map:
		if v.IsNil() {
			sb.WriteString("mn")
			return nil
		}
		keys := v.MapKeys()
		// the canonical association list: unsigned keys numerically, strings and byte arrays bytewise
		// (Props.C40.key_order_uint / _str / _bin: that IS the order of the encoded keys)
		sort.Slice(keys, func(i, j int) bool {
			a, b := keys[i], keys[j]
			switch a.Kind() {
			case reflect.String:
				return a.String() < b.String()
			case reflect.Array:
				var ka, kb strings.Builder
				DescribeValue(a, &ka)
				DescribeValue(b, &kb)
				return bytes.Compare([]byte(ka.String()), []byte(kb.String())) < 0 // equal-length lower-case hex: same order
			}
			return a.Uint() < b.Uint()
		})
		sb.WriteString("m(")
		for i, k := range keys {
			if i > 0 {
				sb.WriteString(",")
			}
			if err := describeValue(k, sb, onStack); err != nil {
				return err
			}
			sb.WriteString("=")
			if err := describeValue(v.MapIndex(k), sb, onStack); err != nil {
				return err
			}
		}
		sb.WriteString(")")
	case reflect.Struct:
		if onStack[t] {
			if !isEmptyVal(v) {
				return unsupported{"non-empty value at the recursion cut of " + t.String()}
			}
			sb.WriteString("r()")
			return nil
		}
		onStack[t] = true
		defer delete(onStack, t)
		fs, err := fieldsOf(t)
		if err != nil {
			return err
		}
		sb.WriteString("r(")
		for i, f := range fs {
			if i > 0 {
				sb.WriteString(",")
			}
			fv, ok := fieldByIndexNoAlloc(v, f.index)
			if !ok {
				return unsupported{"nil embedded pointer on the path to " + f.name}
			}
			if f.ptr {
				if fv.IsNil() {
					fv = reflect.Zero(f.typ)
				} else {
					fv = fv.Elem()
				}
			}
			if err := describeValue(fv, sb, onStack); err != nil {
				return err
			}
		}
		sb.WriteString(")")
	default:
		return unsupported{"kind " + t.Kind().String()}
	}
	return nil
}

func fieldByIndexNoAlloc(v reflect.Value, index []int) (reflect.Value, bool) {
	for _, i := range index {
		if v.Kind() == reflect.Ptr {
			if v.IsNil() {
				return reflect.Value{}, false
			}
			v = v.Elem()
		}
		v = v.Field(i)
	}
	return v, true
}

// Describe returns (type text, object text) or the reason the type is outside the schema model.
func Describe(obj interface{}) (string, string, error) {
	v := reflect.ValueOf(obj).Elem()
	ty, err := DescribeType(v.Type(), map[reflect.Type]bool{})
	if err != nil {
		return "", "", err
	}
	var sb strings.Builder
	if err := DescribeValue(v, &sb); err != nil {
		return "", "", err
	}
	return ty, sb.String(), nil
}

var _ = fmt.Sprintf
