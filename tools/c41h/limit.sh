#!/bin/bash
# run a C41 test binary under an address-space limit (24 GiB): see checks/C41.py
ulimit -v 25165824
exec "$@"
