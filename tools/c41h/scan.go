package c41h

// A positional msgpack walker (own code: the msgp library does not expose header positions) and the byte-level mutators
// built on it.

import "encoding/binary"

type mnode struct {
	pos, hdr, end int    // value occupies [pos,end); header [pos,pos+hdr)
	kind          byte   // 'a' array 'm' map 'b' bin 's' str 'o' other scalar
	count         int    // elements / pairs / payload bytes
	kids          []*mnode
}

// scan parses one value at pos; nil on malformed input. all collects every node in pre-order.
func scan(b []byte, pos int, depth int, all *[]*mnode) *mnode {
	if pos >= len(b) || depth > 64 {
		return nil
	}
	t := b[pos]
	n := &mnode{pos: pos, kind: 'o'}
	need := func(k int) bool { return pos+1+k <= len(b) }
	be := func(k int) int {
		switch k {
		case 1:
			return int(b[pos+1])
		case 2:
			return int(binary.BigEndian.Uint16(b[pos+1:]))
		}
		return int(binary.BigEndian.Uint32(b[pos+1:]))
	}
	scalar := func(k int) *mnode {
		if !need(k) {
			return nil
		}
		n.hdr, n.end = 1+k, pos+1+k
		return n
	}
	switch {
	case t < 0x80, t >= 0xe0, t == 0xc0, t == 0xc2, t == 0xc3:
		n.hdr, n.end = 1, pos+1
	case t < 0x90:
		n.kind, n.count, n.hdr = 'm', int(t-0x80), 1
	case t < 0xa0:
		n.kind, n.count, n.hdr = 'a', int(t-0x90), 1
	case t < 0xc0:
		n.kind, n.count, n.hdr = 's', int(t-0xa0), 1
	case t == 0xc4, t == 0xc5, t == 0xc6:
		k := 1 << (t - 0xc4)
		if !need(k) {
			return nil
		}
		n.kind, n.count, n.hdr = 'b', be(k), 1+k
	case t == 0xd9, t == 0xda, t == 0xdb:
		k := 1 << (t - 0xd9)
		if !need(k) {
			return nil
		}
		n.kind, n.count, n.hdr = 's', be(k), 1+k
	case t == 0xdc, t == 0xdd:
		k := 2 << (t - 0xdc)
		if !need(k) {
			return nil
		}
		n.kind, n.count, n.hdr = 'a', be(k), 1+k
	case t == 0xde, t == 0xdf:
		k := 2 << (t - 0xde)
		if !need(k) {
			return nil
		}
		n.kind, n.count, n.hdr = 'm', be(k), 1+k
	case t == 0xcc, t == 0xd0:
		return addNode(scalar(1), all)
	case t == 0xcd, t == 0xd1:
		return addNode(scalar(2), all)
	case t == 0xce, t == 0xd2, t == 0xca:
		return addNode(scalar(4), all)
	case t == 0xcf, t == 0xd3, t == 0xcb:
		return addNode(scalar(8), all)
	default:
		return nil
	}
	if all != nil {
		*all = append(*all, n)
	}
	switch n.kind {
	case 'o':
		return n
	case 'b', 's':
		n.end = pos + n.hdr + n.count
		if n.end > len(b) {
			return nil
		}
		return n
	}
	p := pos + n.hdr
	kids := n.count
	if n.kind == 'm' {
		kids *= 2
	}
	if kids > len(b) {
		return nil
	}
	for i := 0; i < kids; i++ {
		k := scan(b, p, depth+1, all)
		if k == nil {
			return nil
		}
		n.kids = append(n.kids, k)
		p = k.end
	}
	n.end = p
	return n
}

func addNode(n *mnode, all *[]*mnode) *mnode {
	if n != nil && all != nil {
		*all = append(*all, n)
	}
	return n
}

// wideHdr: the 32-bit form of a collection header announcing count.
func wideHdr(kind byte, count uint32) []byte {
	var tag byte
	switch kind {
	case 'a':
		tag = 0xdd
	case 'm':
		tag = 0xdf
	case 'b':
		tag = 0xc6
	default:
		tag = 0xdb
	}
	h := []byte{tag, 0, 0, 0, 0}
	binary.BigEndian.PutUint32(h[1:], count)
	return h
}

// anyHdr: the shortest form.
func anyHdr(kind byte, count int) []byte {
	switch kind {
	case 'a':
		if count < 16 {
			return []byte{0x90 | byte(count)}
		}
		if count < 65536 {
			return []byte{0xdc, byte(count >> 8), byte(count)}
		}
	case 'm':
		if count < 16 {
			return []byte{0x80 | byte(count)}
		}
		if count < 65536 {
			return []byte{0xde, byte(count >> 8), byte(count)}
		}
	case 'b':
		if count < 256 {
			return []byte{0xc4, byte(count)}
		}
		if count < 65536 {
			return []byte{0xc5, byte(count >> 8), byte(count)}
		}
	case 's':
		if count < 32 {
			return []byte{0xa0 | byte(count)}
		}
		if count < 256 {
			return []byte{0xd9, byte(count)}
		}
		if count < 65536 {
			return []byte{0xda, byte(count >> 8), byte(count)}
		}
	}
	return wideHdr(kind, uint32(count))
}

func splice(b []byte, from, to int, with []byte) []byte {
	out := make([]byte, 0, len(b)-(to-from)+len(with))
	out = append(out, b[:from]...)
	out = append(out, with...)
	return append(out, b[to:]...)
}

// inflate: the header of n announces count; cut = drop everything after the header.
func inflate(b []byte, n *mnode, count uint32, cut bool) []byte {
	if cut {
		return append(append([]byte{}, b[:n.pos]...), wideHdr(n.kind, count)...)
	}
	return splice(b, n.pos, n.pos+n.hdr, wideHdr(n.kind, count))
}
