package c41h

// The declared shape of a msgp-generated type, read from the SOURCE OF TRUTH the generator itself reads: the Go type, its
// codec struct tags (`allocbound=…`, `required`) and the `//msgp:allocbound` directives (through the c41reg registry that
// a generated file fills from inside every package).  Used for
//   * the bounded schema text the Lean driver parses (Model.BoundedDecoder.BTy),
//   * the result-size monitor (every decoded collection ≤ its declared bound),
//   * the allocation budget of the allocation monitor.
//
//   BTy text:  B | U<bits> | I<bits> | S<b> | Y<b> | F<n> | L<b>(<ty>) | A<n>(<ty>) | M<b>(<ty>,<ty>) | P(<ty>) | N(<ty>) |
//              V<max>(<ty>) | T(<hexname>:<0|1 required>:<ty>;…) | C
//   <b> = decimal bound, or `-` (no bound: `allocbound=-` on slices / maps, nothing declared on strings / byte strings);
//   struct fields in DECLARATION order (the order the struct-from-array path uses); N = call into another generated decoder
//   (one level of AllowableDepth); V = post-unmarshal check "first field ≤ max" (crypto.HashFactory.Validate);
//   C = recursion cut (the model answers `cut`, the comparison skips the case).

import (
	"encoding/hex"
	"fmt"
	"reflect"
	"strconv"
	"strings"

	"github.com/algorand/msgp/msgp"

	"github.com/algorand/go-algorand/zz_verif_tools/c41reg"
)

type bnd struct {
	known  bool // a numeric bound is declared
	exempt bool // `allocbound=-`
	n      int
}

func (b bnd) text() string {
	if b.known {
		return strconv.Itoa(b.n)
	}
	return "-"
}

type tfield struct {
	name     string
	required bool
	t        *tnode
	index    []int
}

type tnode struct {
	kind   string // bool uint int str bytes fixed slice array map struct ptr named post cut
	bits   int
	n      int
	b      bnd
	elem   *tnode
	key    *tnode
	fields []tfield
	esize  uintptr
	rt     reflect.Type
	keyAdv *bnd // map: the key bound the directive / tag declares but the generated decoder does not enforce
}

type unsupported struct{ why string }

func (u unsupported) Error() string { return u.why }

var unmarshalerType = reflect.TypeOf((*msgp.Unmarshaler)(nil)).Elem()
var rawType = reflect.TypeOf(msgp.Raw{})
var uint8Type = reflect.TypeOf(uint8(0))

func hasDecoder(t reflect.Type) bool {
	return t.Name() != "" && t.PkgPath() != "" && reflect.PtrTo(t).Implements(unmarshalerType)
}

func isMicroAlgos(t reflect.Type) bool {
	return t.Name() == "MicroAlgos" && strings.HasSuffix(t.PkgPath(), "go-algorand/data/basics")
}

func isHashFactory(t reflect.Type) bool {
	return t.Name() == "HashFactory" && strings.HasSuffix(t.PkgPath(), "go-algorand/crypto")
}

// tagBounds: the allocbound options of a codec tag as msgp's parser reads them (every `allocbound=x`, one per nesting level).
func tagBounds(pkg string, tag reflect.StructTag) ([]bnd, error) {
	var res []bnd
	for i, o := range strings.Split(tag.Get("codec"), ",") {
		if i == 0 || !strings.HasPrefix(o, "allocbound=") {
			continue
		}
		b, err := evalBound(pkg, strings.Split(o, "=")[1])
		if err != nil {
			return nil, err
		}
		res = append(res, b)
	}
	return res, nil
}

func evalBound(pkg, expr string) (bnd, error) {
	if expr == "-" {
		return bnd{exempt: true}, nil
	}
	if v, err := strconv.Atoi(expr); err == nil {
		return bnd{known: true, n: v}, nil
	}
	if v, ok := c41reg.Eval(pkg, expr); ok {
		return bnd{known: true, n: v}, nil
	}
	return bnd{}, unsupported{"bound expression " + expr + " of " + pkg + " is not in the registry"}
}

func directiveBounds(t reflect.Type) ([]bnd, error) {
	if t.Name() == "" {
		return nil, nil
	}
	d, ok := c41reg.Directives[t.PkgPath()][t.Name()]
	if !ok {
		return nil, nil
	}
	var res []bnd
	for _, q := range strings.Split(d, ",") {
		b, err := evalBound(t.PkgPath(), q)
		if err != nil {
			return nil, err
		}
		res = append(res, b)
	}
	return res, nil
}

func hasOpt(tag reflect.StructTag, opt string) bool {
	for i, o := range strings.Split(tag.Get("codec"), ",") {
		if i > 0 && o == opt {
			return true
		}
	}
	return false
}

type builder struct {
	onStack map[reflect.Type]int
	unfold  int
}

// build describes a value of type t found at a position whose declared bounds (outer levels first) are bs.
func (bl *builder) build(t reflect.Type, bs []bnd, top bool) (*tnode, error) {
	if t == rawType {
		return nil, unsupported{"msgp.Raw"}
	}
	if isMicroAlgos(t) {
		return &tnode{kind: "uint", bits: 64, rt: t}, nil
	}
	if !top && hasDecoder(t) {
		// the generated code calls t's own decoder: its bounds come from its own directive, not from the field tag
		inner, err := bl.named(t)
		if err != nil {
			return nil, err
		}
		return &tnode{kind: "named", elem: inner, rt: t}, nil
	}
	if len(bs) == 0 {
		var err error
		if bs, err = directiveBounds(t); err != nil {
			return nil, err
		}
	}
	first := bnd{}
	var rest []bnd
	if len(bs) > 0 {
		first, rest = bs[0], bs[1:]
	}
	switch t.Kind() {
	case reflect.Bool:
		return &tnode{kind: "bool", rt: t}, nil
	case reflect.Uint, reflect.Uintptr, reflect.Uint64:
		return &tnode{kind: "uint", bits: 64, rt: t}, nil
	case reflect.Uint8:
		return &tnode{kind: "uint", bits: 8, rt: t}, nil
	case reflect.Uint16:
		return &tnode{kind: "uint", bits: 16, rt: t}, nil
	case reflect.Uint32:
		return &tnode{kind: "uint", bits: 32, rt: t}, nil
	case reflect.Int, reflect.Int64:
		return &tnode{kind: "int", bits: 64, rt: t}, nil
	case reflect.Int8:
		return &tnode{kind: "int", bits: 8, rt: t}, nil
	case reflect.Int16:
		return &tnode{kind: "int", bits: 16, rt: t}, nil
	case reflect.Int32:
		return &tnode{kind: "int", bits: 32, rt: t}, nil
	case reflect.String:
		return &tnode{kind: "str", b: first, esize: 1, rt: t}, nil
	case reflect.Slice:
		if t.Elem() == uint8Type {
			return &tnode{kind: "bytes", b: first, esize: 1, rt: t}, nil
		}
		e, err := bl.build(t.Elem(), rest, false)
		if err != nil {
			return nil, err
		}
		return &tnode{kind: "slice", b: first, elem: e, esize: t.Elem().Size(), rt: t}, nil
	case reflect.Array:
		if t.Elem() == uint8Type {
			return &tnode{kind: "fixed", n: t.Len(), rt: t}, nil
		}
		if t.Elem().Kind() == reflect.Uint8 {
			return nil, unsupported{"array of a named byte type " + t.String()}
		}
		e, err := bl.build(t.Elem(), nil, false)
		if err != nil {
			return nil, err
		}
		return &tnode{kind: "array", n: t.Len(), elem: e, rt: t}, nil
	case reflect.Map:
		// the generator's gMap does NOT hand the second component of "a,b" to the key (gSlice does, to the element): the
		// generated decoder enforces nothing on the key; the declared key bound is kept as an advisory
		k, err := bl.build(t.Key(), nil, false)
		if err != nil {
			return nil, err
		}
		v, err := bl.build(t.Elem(), nil, false)
		if err != nil {
			return nil, err
		}
		n := &tnode{kind: "map", b: first, key: k, elem: v, esize: t.Key().Size() + t.Elem().Size() + 8, rt: t}
		if len(rest) > 0 && rest[0].known {
			n.keyAdv = &rest[0]
		}
		return n, nil
	case reflect.Ptr:
		e, err := bl.build(t.Elem(), bs, false)
		if err != nil {
			return nil, err
		}
		return &tnode{kind: "ptr", elem: e, esize: t.Elem().Size(), rt: t}, nil
	case reflect.Struct:
		if bl.onStack[t] >= bl.unfold {
			return &tnode{kind: "cut", rt: t}, nil
		}
		bl.onStack[t]++
		defer func() { bl.onStack[t]-- }()
		n := &tnode{kind: "struct", rt: t}
		if err := bl.collect(t, nil, 0, n); err != nil {
			return nil, err
		}
		return n, nil
	}
	return nil, unsupported{"kind " + t.Kind().String() + " (" + t.String() + ")"}
}

// collect: the exported fields in declaration order, embedded structs without a codec name inlined in place (msgp's rule).
func (bl *builder) collect(t reflect.Type, index []int, depth int, out *tnode) error {
	if depth > 8 {
		return unsupported{"embedding too deep"}
	}
	for j := 0; j < t.NumField(); j++ {
		f := t.Field(j)
		switch f.Type.Kind() {
		case reflect.Func, reflect.Chan, reflect.Complex64, reflect.Complex128, reflect.UnsafePointer, reflect.Interface:
			if f.PkgPath == "" && f.Tag.Get("codec") != "-" {
				return unsupported{"field " + f.Name + " of kind " + f.Type.Kind().String()}
			}
			continue
		}
		unexp := f.PkgPath != ""
		if unexp && !f.Anonymous {
			continue
		}
		stag := f.Tag.Get("codec")
		if stag == "-" {
			continue
		}
		name := strings.Split(stag, ",")[0]
		idx := append(append([]int{}, index...), j)
		if f.Anonymous {
			ft := f.Type
			if ft.Kind() == reflect.Ptr && name == "" {
				return unsupported{"inlined embedded pointer " + f.Name}
			}
			if name == "" && ft.Kind() == reflect.Struct {
				if err := bl.collect(ft, idx, depth+1, out); err != nil {
					return err
				}
				continue
			}
		}
		if unexp {
			continue
		}
		if name == "" {
			name = f.Name
		}
		var bs []bnd
		ct := f.Type
		for ct.Kind() == reflect.Ptr {
			ct = ct.Elem()
		}
		if k := ct.Kind(); k == reflect.Slice || k == reflect.Map || k == reflect.String { // msgp ignores an allocbound on anything else
			var err error
			if bs, err = tagBounds(t.PkgPath(), f.Tag); err != nil {
				return err
			}
		}
		ft, err := bl.build(f.Type, bs, false)
		if err != nil {
			return err
		}
		out.fields = append(out.fields, tfield{name: name, required: hasOpt(f.Tag, "required"), t: ft, index: idx})
	}
	for i := range out.fields {
		for k := 0; k < i; k++ {
			if out.fields[i].name == out.fields[k].name {
				return unsupported{"duplicate codec name " + out.fields[i].name}
			}
		}
	}
	return nil
}

// named: the body of t's own generated decoder.
func (bl *builder) named(t reflect.Type) (*tnode, error) {
	bs, err := directiveBounds(t)
	if err != nil {
		return nil, err
	}
	n, err := bl.build(t, bs, true)
	if err != nil {
		return nil, err
	}
	if isHashFactory(t) {
		// `//msgp:postunmarshalcheck HashFactory Validate`: HashType < MaxHashType; the largest valid value is probed on the real method
		max := -1
		for k := 0; k < 256; k++ {
			v := reflect.New(t)
			v.Elem().Field(v.Elem().NumField() - 1).SetUint(uint64(k))
			m := v.MethodByName("Validate")
			if !m.IsValid() {
				return nil, unsupported{"HashFactory without Validate"}
			}
			if res := m.Call(nil); len(res) == 1 && res[0].IsNil() {
				max = k
			} else {
				break
			}
		}
		if max < 0 {
			return nil, unsupported{"HashFactory.Validate accepts nothing"}
		}
		return &tnode{kind: "post", n: max, elem: n, rt: t}, nil
	}
	return n, nil
}

// DescribeRoot builds the shape of a root type (a type with a generated decoder).
func DescribeRoot(t reflect.Type) (*tnode, error) {
	bl := &builder{onStack: map[reflect.Type]int{}, unfold: 2}
	inner, err := bl.named(t)
	if err != nil {
		return nil, err
	}
	return &tnode{kind: "named", elem: inner, rt: t}, nil
}

func (n *tnode) text(sb *strings.Builder) {
	switch n.kind {
	case "bool":
		sb.WriteString("B")
	case "uint":
		fmt.Fprintf(sb, "U%d", n.bits)
	case "int":
		fmt.Fprintf(sb, "I%d", n.bits)
	case "str":
		sb.WriteString("S" + n.b.text())
	case "bytes":
		sb.WriteString("Y" + n.b.text())
	case "fixed":
		fmt.Fprintf(sb, "F%d", n.n)
	case "slice":
		sb.WriteString("L" + n.b.text() + "(")
		n.elem.text(sb)
		sb.WriteString(")")
	case "array":
		fmt.Fprintf(sb, "A%d(", n.n)
		n.elem.text(sb)
		sb.WriteString(")")
	case "map":
		sb.WriteString("M" + n.b.text() + "(")
		n.key.text(sb)
		sb.WriteString(",")
		n.elem.text(sb)
		sb.WriteString(")")
	case "ptr":
		sb.WriteString("P(")
		n.elem.text(sb)
		sb.WriteString(")")
	case "named":
		sb.WriteString("N(")
		n.elem.text(sb)
		sb.WriteString(")")
	case "post":
		fmt.Fprintf(sb, "V%d(", n.n)
		n.elem.text(sb)
		sb.WriteString(")")
	case "cut":
		sb.WriteString("C")
	case "struct":
		sb.WriteString("T(")
		for i, f := range n.fields {
			if i > 0 {
				sb.WriteString(";")
			}
			r := "0"
			if f.required {
				r = "1"
			}
			sb.WriteString(hex.EncodeToString([]byte(f.name)) + ":" + r + ":")
			f.t.text(sb)
		}
		sb.WriteString(")")
	}
}

func (n *tnode) Text() string {
	var sb strings.Builder
	n.text(&sb)
	return sb.String()
}

// ---------------------------------------------------------------------------------------------- budget

type budget struct {
	c      uint64 // bytes allocated per input byte in the worst case (largest element a single byte can stand for)
	chain  uint64 // bytes the collections that are OPEN at the same time may have requested before the first element arrives
	hasCut bool
	exempt bool // an `allocbound=-` collection (or an unbounded one) is reachable
	bounds map[int]bool
}

const exemptCap = 4096 // the largest count the generators announce to a type with an exempt collection

func (n *tnode) budgetInto(b *budget) uint64 {
	switch n.kind {
	case "str", "bytes":
		if b.c < 1 {
			b.c = 1
		}
		if n.b.known {
			b.bounds[n.b.n] = true
		}
		return 0
	case "slice", "map":
		cnt := uint64(2 * 65535) // no bound: the generators announce at most exemptCap through 32-bit headers, random bytes may hold any 16-bit header (doubled by map flattening)
		if n.b.known {
			cnt = uint64(n.b.n)
			b.bounds[n.b.n] = true
		} else {
			b.exempt = true
		}
		es := uint64(n.esize)
		if n.kind == "map" {
			es *= 3 // bucket / group overhead of a map pre-sized with make(map, n)
		}
		if b.c < es {
			b.c = es
		}
		sub := n.elem.budgetInto(b)
		if n.key != nil {
			if k := n.key.budgetInto(b); k > sub {
				sub = k
			}
		}
		return cnt*es + sub
	case "array":
		return uint64(n.n) * n.elem.budgetInto(b)
	case "ptr":
		if b.c < uint64(n.esize) {
			b.c = uint64(n.esize)
		}
		return uint64(n.esize) + n.elem.budgetInto(b)
	case "named", "post":
		return n.elem.budgetInto(b)
	case "cut":
		b.hasCut = true
		return 0
	case "struct":
		var m uint64
		for _, f := range n.fields {
			if v := f.t.budgetInto(b); v > m {
				m = v
			}
		}
		return m
	}
	return 0
}

func (n *tnode) Budget() budget {
	b := budget{bounds: map[int]bool{}}
	b.chain = n.budgetInto(&b)
	if b.hasCut {
		b.chain *= 128 // a recursive type can be open once per level of the depth limit
	}
	if b.c < 64 {
		b.c = 64
	}
	return b
}

// ---------------------------------------------------------------------------------------------- result-size monitor

// advisories counts accepted map keys longer than the key bound their directive declares (not enforced by the generated code).
var advisories int
var advisoryExample string

// oversize walks a decoded object along its shape and reports the first collection longer than its declared bound.
func (n *tnode) oversize(v reflect.Value, path string) string {
	switch n.kind {
	case "str", "bytes":
		if n.b.known && v.Len() > n.b.n {
			return fmt.Sprintf("%s: len %d > declared bound %d", path, v.Len(), n.b.n)
		}
	case "slice":
		if n.b.known && v.Len() > n.b.n {
			return fmt.Sprintf("%s: len %d > declared bound %d", path, v.Len(), n.b.n)
		}
		for i := 0; i < v.Len(); i++ {
			if s := n.elem.oversize(v.Index(i), path+"[]"); s != "" {
				return s
			}
		}
	case "array":
		for i := 0; i < v.Len(); i++ {
			if s := n.elem.oversize(v.Index(i), path+"[]"); s != "" {
				return s
			}
		}
	case "map":
		if n.b.known && v.Len() > n.b.n {
			return fmt.Sprintf("%s: map len %d > declared bound %d", path, v.Len(), n.b.n)
		}
		it := v.MapRange()
		for it.Next() {
			if n.keyAdv != nil && (it.Key().Kind() == reflect.String || it.Key().Kind() == reflect.Slice) && it.Key().Len() > n.keyAdv.n {
				advisories++
				if advisoryExample == "" {
					advisoryExample = fmt.Sprintf("%s: map key of %d bytes, declared key bound %d", path, it.Key().Len(), n.keyAdv.n)
				}
			}
			if s := n.key.oversize(it.Key(), path+"{k}"); s != "" {
				return s
			}
			if s := n.elem.oversize(it.Value(), path+"{v}"); s != "" {
				return s
			}
		}
	case "ptr":
		if !v.IsNil() {
			return n.elem.oversize(v.Elem(), path)
		}
	case "named", "post":
		return n.elem.oversize(v, path)
	case "cut":
		// below the unfolding: describe the value's type afresh
		if sub, err := DescribeRoot(v.Type()); err == nil {
			return sub.oversize(v, path)
		}
	case "struct":
		for _, f := range n.fields {
			fv := v
			for _, i := range f.index {
				fv = fv.Field(i)
			}
			if s := f.t.oversize(fv, path+"."+f.name); s != "" {
				return s
			}
		}
	}
	return ""
}
