// Package c41h: the C41 (decoding untrusted bytes is safe and bounded) harness core, shared by the per-package test files
// that checks/C41.py generates from the msgp_gen.go files of the current tree (injected by the check's private overlay as
// github.com/algorand/go-algorand/zz_verif_tools/c41h; never committed to /repo).  It reuses the C40 machinery
// (zz_verif_tools/c40h: type table, seeded instance randomizer) for the VALID encodings it then mutates.
//
//	op line      <pkg>.<Type> <kind> <hex bytes>           |  schema <pkg>.<Type> <BTy text | ->
//	result line  <verdict> ; mon=<ok|VIOL …> ; <info…>      |  schema-ok | schema-skip <why>
//	verdict      ok <bytes consumed> | err <class> | PANIC <msg>        — of the DIRECT UnmarshalMsg call; this is what the
//	             Lean bounded decoder (driver c41) must reproduce for the types inside its schema model
//	class        short type overflow arraysize nofield toomany depth intrange required check other
//
// Monitors (on the implementation alone, evaluated here):
//   - no panic escapes protocol.Decode / protocol.DecodeReflect; a panic escaping the direct UnmarshalMsg is a violation
//     for the types some handler decodes that way (extractor fact `Direct`), information otherwise; a panic RECOVERED by
//     DecodeMsgp into an error is information (`rec=1`);
//   - after a successful decode every collection of the object is no longer than its declared bound;
//   - bytes allocated by the decode (runtime.MemStats.TotalAlloc delta) ≤ 3·(c·len(input) + chain) + 256 KiB, with c and
//     chain computed from the DECLARED shape of the type (schema.go: Budget);
//   - wall time of one decode ≤ 10 s.
package c41h

import (
	"encoding/hex"
	"fmt"
	"hash/fnv"
	"os"
	"path/filepath"
	"reflect"
	"runtime"
	"sort"
	"strconv"
	"strings"
	"testing"
	"time"

	"github.com/algorand/msgp/msgp"

	"github.com/algorand/go-algorand/protocol"
	"github.com/algorand/go-algorand/zz_verif_tools/c40h"
	"github.com/algorand/go-algorand/zz_verif_tools/c41reg"
	"github.com/algorand/go-algorand/zz_verif_tools/vh"
)

const modPrefix = "github.com/algorand/go-algorand"

// TI is one msgp-generated type plus the extractor's facts about it.
type TI struct {
	Name   string
	New    func() c40h.MU
	Class  string // "net" | "file" | "localdb" | "" : class of the decode entry points that decode INTO this type ("" = none: inner type)
	Net    bool   // reachable from a net / file entry point
	Direct bool   // reachable from an entry point that calls UnmarshalMsg without the DecodeMsgp recover wrapper
	Exempt bool   // an `allocbound=-` site is reachable from this type's decoder
}

// ---------------------------------------------------------------------------------------------- verdicts

func classOf(err error) string {
	if err == nil {
		return ""
	}
	c := err
	for i := 0; i < 64; i++ { // WrapError nests; Cause unwraps one level
		n := msgp.Cause(c)
		if n == c {
			break
		}
		c = n
	}
	if c == protocol.ErrInvalidObject {
		return "check"
	}
	switch c.(type) {
	case msgp.TypeError, msgp.InvalidPrefixError:
		return "type"
	case msgp.ArrayError:
		return "arraysize"
	case msgp.ErrNoField:
		return "nofield"
	case msgp.ErrTooManyArrayFields:
		return "toomany"
	case msgp.ErrMaxDepthExceeded:
		return "depth"
	case msgp.IntOverflow, msgp.UintOverflow, msgp.UintBelowZero:
		return "intrange"
	}
	if c == msgp.ErrShortBytes {
		return "short"
	}
	s := c.Error()
	switch {
	case strings.Contains(s, "length overflow"):
		return "overflow"
	case strings.Contains(s, "missing required field"):
		return "required"
	case strings.Contains(s, "too few bytes"):
		return "short"
	case strings.Contains(s, "HashType") || strings.Contains(s, "hash type") || strings.Contains(s, "invalid hash"):
		return "check"
	}
	return "other"
}

type opRes struct {
	verdict  string
	viol     string
	alloc    uint64
	el       time.Duration
	recov    bool   // DecodeMsgp recovered a panic
	dirPanic string // the direct call panicked
	refl     string
	dec      string
	dupmap   string
}

type typeCtx struct {
	ti     TI
	full   string
	shape  *tnode
	shErr  error
	bud    budget
	intent string
	noBig  bool // an allocation violation was seen: stop announcing big counts to this type
	maxBound int
}

func memNow() uint64 {
	var m runtime.MemStats
	runtime.ReadMemStats(&m)
	return m.TotalAlloc
}

func (tc *typeCtx) exec(kind string, b []byte) opRes {
	var r opRes
	// 1. the direct call, measured
	obj := tc.ti.New()
	in := append([]byte{}, b...) // the decoder must not see our buffer's spare capacity
	m0 := memNow()
	t0 := time.Now()
	var rem []byte
	var err error
	func() {
		defer func() {
			if x := recover(); x != nil {
				r.dirPanic = strings.ReplaceAll(fmt.Sprint(x), "\n", " ")
			}
		}()
		rem, err = obj.UnmarshalMsg(in)
	}()
	r.el = time.Since(t0)
	r.alloc = memNow() - m0
	switch {
	case r.dirPanic != "":
		r.verdict = "PANIC " + r.dirPanic
	case err != nil:
		r.verdict = "err " + classOf(err)
	default:
		r.verdict = fmt.Sprintf("ok %d", len(in)-len(rem))
	}
	// 2. protocol.Decode (DecodeMsgp recovers panics into errors)
	o2 := tc.ti.New()
	r.dec = vh.Catch(func() string {
		e := protocol.Decode(append([]byte{}, b...), o2)
		if e == nil {
			return "ok"
		}
		if strings.HasPrefix(e.Error(), "DecodeMsgp: ") {
			r.recov = true
		}
		return "err"
	})
	// 3. protocol.DecodeReflect (go-codec)
	o3 := tc.ti.New()
	r.refl = vh.Catch(func() string {
		if e := protocol.DecodeReflect(append([]byte{}, b...), o3); e != nil {
			return "err"
		}
		return "ok"
	})
	// monitors
	var v []string
	if strings.HasPrefix(r.dec, "PANIC") {
		v = append(v, "panic escapes protocol.Decode: "+r.dec)
	}
	if strings.HasPrefix(r.refl, "PANIC") {
		v = append(v, "panic escapes protocol.DecodeReflect: "+r.refl)
	}
	if r.dirPanic != "" && tc.ti.Direct {
		v = append(v, "panic escapes UnmarshalMsg on a type a handler decodes without the recover wrapper: "+r.dirPanic)
	}
	if (r.dec == "ok") != (err == nil && r.dirPanic == "") {
		v = append(v, "protocol.Decode and UnmarshalMsg disagree on acceptance")
	}
	if err == nil && r.dirPanic == "" && tc.shape != nil {
		if s := tc.shape.oversize(reflect.ValueOf(obj).Elem(), tc.ti.Name); s != "" {
			if kind == "dupmap" && strings.Contains(s, ": map len ") {
				// a map-typed field named twice accumulates (generator rule: an existing map is kept): reported separately
				r.dupmap = s
			} else {
				v = append(v, "collection exceeds its declared bound: "+s)
			}
		}
	}
	if tc.shape != nil {
		limit := 3*(tc.bud.c*uint64(len(b))+tc.bud.chain) + 256<<10
		if r.alloc > limit {
			v = append(v, fmt.Sprintf("allocated %d bytes for %d input bytes; budget 3*(%d*len+%d)+256KiB = %d", r.alloc, len(b), tc.bud.c, tc.bud.chain, limit))
			tc.noBig = true
		}
	}
	if kind == "nest-deep" && r.verdict != "err depth" {
		v = append(v, "a recursion nested deeper than the decoders' depth limit (msgp AllowableDepth, protocol/codec.go: 255) was not stopped by msgp.ErrMaxDepthExceeded: "+r.verdict)
	}
	if r.el > 120*time.Second {
		v = append(v, fmt.Sprintf("one decode took %v", r.el))
	}
	r.viol = strings.Join(v, " && ")
	return r
}

// ---------------------------------------------------------------------------------------------- generators

func seedOf(seed uint64, parts ...interface{}) uint64 {
	h := fnv.New64a()
	fmt.Fprint(h, seed)
	for _, p := range parts {
		fmt.Fprint(h, "|", p)
	}
	return h.Sum64() >> 1
}

var junkValues = [][]byte{{0xc0}, {0x01}, {0xff}, {0xa1, 'x'}, {0xc4, 0x01, 0x00}, {0x90}, {0x80}, {0x91, 0xc0}, {0x81, 0xa1, 'k', 0xc0}, {0xc3},
	{0xcf, 0xff, 0xff, 0xff, 0xff, 0xff, 0xff, 0xff, 0xff}, {0xd3, 0x80, 0, 0, 0, 0, 0, 0, 0}, {0xca, 0, 0, 0, 0}, {0xc1}, {0xd4, 1, 2}, {0xc7, 1, 1, 1}}

type gen struct {
	tc   *typeCtx
	emit func(kind string, b []byte)
	r    *vh.Rng
}

// counts to announce at a header, ascending; the caller stops escalating at the first allocation violation.
// n+1, the 3 (thorough: 8) declared bounds of the type next above n (B and B+1), 65536, 2^20, 2^31, 2^32-1 (thorough: every
// size-class edge).
func (g *gen) counts(cur int) []uint32 {
	set := map[uint32]bool{uint32(cur + 1): true}
	var bs []int
	for b := range g.tc.bud.bounds {
		if b >= 0 && b < 1<<31 {
			bs = append(bs, b)
		}
	}
	sort.Ints(bs)
	taken := 0
	for _, b := range bs {
		if b < cur || taken >= vh.Budget(3, 8) {
			continue
		}
		set[uint32(b)] = true
		set[uint32(b+1)] = true
		taken++
	}
	fixed := []uint32{65536, 1 << 20, 1 << 31, 1<<32 - 1}
	if vh.Thorough() {
		fixed = []uint32{0, 15, 16, 255, 256, 65535, 65536, 1 << 20, 1 << 24, 1<<31 - 1, 1 << 31, 1<<32 - 1}
	}
	for _, c := range fixed {
		set[c] = true
	}
	var res []uint32
	for c := range set {
		if g.tc.ti.Exempt && c > exemptCap {
			continue // an exempt (local-database) type allocates what the header says: do not ask for gigabytes
		}
		if int(c) <= g.tc.maxBound && uint64(c)*g.tc.bud.c > 1<<30 {
			continue // a count the declared bounds ALLOW and that stands for more than 1 GiB (bookkeeping.Genesis: 10^8 allocations): not announced
		}
		res = append(res, c)
	}
	sort.Slice(res, func(i, j int) bool { return res[i] < res[j] })
	return res
}

func (g *gen) mutations(valid []byte, budgetHdrs int, directed bool) {
	var all []*mnode
	root := scan(valid, 0, 0, &all)
	if root == nil {
		return
	}
	// truncations
	if len(valid) <= 48 {
		for i := 0; i < len(valid); i++ {
			g.emit("trunc", valid[:i])
		}
	} else {
		for k := 0; k < 12; k++ {
			g.emit("trunc", valid[:g.r.Intn(len(valid))])
		}
		g.emit("trunc", valid[:len(valid)-1])
	}
	// trailing bytes
	g.emit("trail", append(append([]byte{}, valid...), 0xc0))
	g.emit("trail", append(append([]byte{}, valid...), g.r.Bytes(1+g.r.Intn(8))...))
	// byte flips
	for k := 0; k < 16 && len(valid) > 0; k++ {
		m := append([]byte{}, valid...)
		i := g.r.Intn(len(m))
		switch g.r.Intn(3) {
		case 0:
			m[i] = byte(g.r.U64())
		case 1:
			m[i] ^= 1 << uint(g.r.Intn(8))
		default:
			m[i] = []byte{0xc0, 0xc1, 0xdd, 0xdf, 0xc6, 0xdb, 0x9f, 0x8f, 0xcf, 0xd3, 0xff, 0x00}[g.r.Intn(12)]
		}
		g.emit("flip", m)
	}
	// collection headers: inflated counts (with and without the rest of the message)
	var hdrs, maps, vals []*mnode
	for _, n := range all {
		if n.kind != 'o' {
			hdrs = append(hdrs, n)
		}
		if n.kind == 'm' {
			maps = append(maps, n)
		}
		vals = append(vals, n)
	}
	pick := func(ns []*mnode, k int) []*mnode {
		if len(ns) <= k {
			return ns
		}
		var res []*mnode
		for _, i := range permN(g.r, len(ns), k) {
			res = append(res, ns[i])
		}
		return res
	}
	for _, n := range pick(hdrs, budgetHdrs) {
		for _, c := range g.counts(n.count) {
			if g.tc.noBig && c > 1<<16 {
				break
			}
			g.emit("inflate-cut", inflate(valid, n, c, true))
			if c == uint32(n.count+1) || (c <= 1<<16 && (g.tc.bud.bounds[int(c)] || g.tc.bud.bounds[int(c)-1])) || g.r.Intn(8) == 0 {
				g.emit("inflate", inflate(valid, n, c, false))
			}
		}
	}
	// maps: duplicate key, unknown key, array form (struct-from-array), nil in place of the map
	for _, n := range pick(maps, 6) {
		if len(n.kids) >= 2 {
			pair := valid[n.kids[0].pos:n.kids[1].end]
			m := splice(valid, n.pos, n.pos+n.hdr, anyHdr('m', n.count+1))
			d := len(anyHdr('m', n.count+1)) - n.hdr
			g.emit("dupkey", splice(m, n.pos+n.hdr+d, n.pos+n.hdr+d, pair))
			// the duplicate at the END (the second occurrence overwrites the first)
			g.emit("dupkey", splice(m, n.end+d, n.end+d, pair))
		}
		m := splice(valid, n.pos, n.pos+n.hdr, anyHdr('m', n.count+1))
		d := len(anyHdr('m', n.count+1)) - n.hdr
		g.emit("unknownkey", splice(m, n.pos+n.hdr+d, n.pos+n.hdr+d, []byte{0xa3, 'z', 'z', 'z', 0xc0}))
		// array form: the values in the order of the map
		var vs []byte
		for i := 1; i < len(n.kids); i += 2 {
			vs = append(vs, valid[n.kids[i].pos:n.kids[i].end]...)
		}
		g.emit("arrayform", splice(valid, n.pos, n.end, append(anyHdr('a', n.count), vs...)))
		g.emit("arrayform", splice(valid, n.pos, n.end, append(anyHdr('a', n.count+40), vs...)))
	}
	maxIn := vh.Budget(32<<10, 64<<10) // size cap of a directed at-bound input
	if !directed {
		maxIn = 0
	}
	// a map-valued struct field named TWICE, each occurrence holding `b` entries with keys of its own (b = each declared
	// bound of the type): the generated decoder keeps an existing map and adds to it
	for _, n := range pick(maps, 4) {
		for i := 1; i < len(n.kids); i += 2 {
			v := n.kids[i]
			if v.kind != 'm' || v.count == 0 || len(v.kids) < 2 {
				continue
			}
			k0, v0 := v.kids[0], v.kids[1]
			if k0.end-k0.pos < 2 {
				continue
			}
			for b := range g.tc.bud.bounds {
				if b < 1 || b > 4096 || 2*b*(v0.end-k0.pos) > maxIn {
					continue
				}
				mk := func(from int) []byte {
					res := anyHdr('m', b)
					for j := 0; j < b; j++ {
						key := append([]byte{}, valid[k0.pos:k0.end]...)
						key[len(key)-1] = byte(from + j)
						if len(key) > 2 {
							key[len(key)-2] = byte((from + j) >> 8)
						}
						res = append(res, key...)
						res = append(res, valid[v0.pos:v0.end]...)
					}
					return res
				}
				name := valid[n.kids[i-1].pos:n.kids[i-1].end]
				body := append(append(append(append([]byte{}, name...), mk(0)...), name...), mk(b)...)
				m := append(anyHdr('m', 2), body...)
				g.emit("dupmap", splice(valid, n.pos, n.end, m))
			}
			break
		}
	}
	// one collection AT its bound and ONE PAST it (complete, well-formed): b and b+1 copies of the first element / pair / byte
	var arrs, strs []*mnode
	for _, n := range all {
		if n.kind == 'a' && n.count >= 1 {
			arrs = append(arrs, n)
		}
		if (n.kind == 'b' || n.kind == 's') && n.count >= 1 {
			strs = append(strs, n)
		}
	}
	for b := range g.tc.bud.bounds {
		if b < 1 {
			continue
		}
		for _, n := range pick(arrs, vh.Budget(2, 6)) {
			el := valid[n.kids[0].pos:n.kids[0].end]
			if (b+1)*len(el) > maxIn {
				continue
			}
			for _, c := range []int{b, b + 1} {
				g.emit("atbound-arr", splice(valid, n.pos, n.end, append(anyHdr('a', c), repeatSeq(el, c)...)))
			}
		}
		for _, n := range pick(strs, vh.Budget(2, 6)) {
			if b+1 > maxIn {
				continue
			}
			for _, c := range []int{b, b + 1} {
				g.emit("atbound-bytes", splice(valid, n.pos, n.end, append(anyHdr(n.kind, c), make([]byte, c)...)))
			}
		}
		for _, n := range pick(maps, vh.Budget(2, 6)) {
			if len(n.kids) < 2 || b+1 > 4096 || n.kids[0].end-n.kids[0].pos < 2 || (b+1)*(n.kids[1].end-n.kids[0].pos) > maxIn {
				continue
			}
			k0, v0 := n.kids[0], n.kids[1]
			for _, c := range []int{b, b + 1} {
				body := anyHdr('m', c)
				for j := 0; j < c; j++ {
					key := append([]byte{}, valid[k0.pos:k0.end]...)
					key[len(key)-1] = byte(j)
					if len(key) > 2 {
						key[len(key)-2] = byte(j >> 8)
					}
					body = append(append(body, key...), valid[v0.pos:v0.end]...)
				}
				g.emit("atbound-map", splice(valid, n.pos, n.end, body))
			}
		}
	}
	// wrong types: a value replaced by a value of another shape
	for _, n := range pick(vals, 10) {
		j := junkValues[g.r.Intn(len(junkValues))]
		g.emit("wrongtype", splice(valid, n.pos, n.end, j))
	}
}

// announcesHuge: some 32-bit array / map header of b announces more than exemptCap elements (blind scan: any position)
func announcesHuge(b []byte) bool {
	for i := 0; i+4 < len(b); i++ {
		if b[i] == 0xdd || b[i] == 0xdf {
			if n := uint32(b[i+1])<<24 | uint32(b[i+2])<<16 | uint32(b[i+3])<<8 | uint32(b[i+4]); n > exemptCap {
				return true
			}
		}
	}
	return false
}

func permN(r *vh.Rng, n, k int) []int {
	idx := make([]int, n)
	for i := range idx {
		idx[i] = i
	}
	for i := 0; i < k && i < n; i++ {
		j := i + r.Intn(n-i)
		idx[i], idx[j] = idx[j], idx[i]
	}
	if k > n {
		k = n
	}
	res := append([]int{}, idx[:k]...)
	sort.Ints(res)
	return res
}

// cycle finds a path of codec names / collections from the struct type t back to itself (for deep nesting of a recursive type).
type step struct {
	key  string // map key (struct field codec name); "" for an array step
	kind byte   // 'f' struct field, 'a' slice element
}

func findCycle(t, target reflect.Type, path []step, seen map[reflect.Type]bool, depth int) []step {
	if depth > 12 {
		return nil
	}
	switch t.Kind() {
	case reflect.Ptr:
		return findCycle(t.Elem(), target, path, seen, depth+1)
	case reflect.Slice:
		if t.Elem().Kind() == reflect.Uint8 {
			return nil
		}
		return findCycle(t.Elem(), target, append(append([]step{}, path...), step{kind: 'a'}), seen, depth+1)
	case reflect.Struct:
		if t == target && len(path) > 0 {
			return path
		}
		if seen[t] {
			return nil
		}
		seen[t] = true
		for i := 0; i < t.NumField(); i++ {
			f := t.Field(i)
			if f.PkgPath != "" && !f.Anonymous {
				continue
			}
			tag := f.Tag.Get("codec")
			if tag == "-" {
				continue
			}
			name := strings.Split(tag, ",")[0]
			p := path
			if !(f.Anonymous && name == "") {
				if name == "" {
					name = f.Name
				}
				p = append(append([]step{}, path...), step{key: name, kind: 'f'})
			}
			if res := findCycle(f.Type, target, p, seen, depth+1); res != nil {
				return res
			}
		}
	}
	return nil
}

func nestBytes(cyc []step, levels int) []byte {
	var b []byte
	for l := 0; l < levels; l++ {
		for _, s := range cyc {
			if s.kind == 'a' {
				b = append(b, 0x91)
			} else {
				b = append(b, 0x81)
				b = append(b, anyHdr('s', len(s.key))...)
				b = append(b, s.key...)
			}
		}
	}
	return append(b, 0x80)
}

func (g *gen) nesting(t reflect.Type) {
	deep := []int{10, 100, 300, 3000}
	if vh.Thorough() {
		deep = append(deep, 100000)
	}
	for _, d := range deep {
		g.emit("nest-arr", append(repeat(0x91, d), 0xc0))
		g.emit("nest-map", append(repeatSeq([]byte{0x81, 0xa1, 'a'}, d), 0xc0))
		g.emit("nest-arrhdr", repeat(0xdd, d))
	}
	// the recursion of the message schema (SignedTxnWithAD -> ApplyData -> EvalDelta -> InnerTxns -> SignedTxnWithAD): every type
	// that reaches a self-referential struct gets that cycle nested around and beyond the depth limit of the decoders
	if prefix, cyc := findRecursion(t, nil, map[reflect.Type]bool{}, 0); cyc != nil {
		pre := nestBytes(prefix, 1)
		pre = pre[:len(pre)-1] // without the closing empty map
		for _, d := range []int{1, 5, 40, 100} {
			g.emit("nest-cycle", append(append([]byte{}, pre...), nestBytes(cyc, d)...))
		}
		deepLevels := []int{260, 300, 2000}
		if vh.Thorough() {
			deepLevels = append(deepLevels, 20000)
		}
		for _, d := range deepLevels {
			// every level of the cycle enters at least one generated decoder: more than AllowableDepth (255) levels must end in
			// msgp.ErrMaxDepthExceeded (monitor in exec)
			g.emit("nest-deep", append(append([]byte{}, pre...), nestBytes(cyc, d)...))
		}
	}
}

// findRecursion: a path from t to a struct type that contains itself, and that type's cycle.
func findRecursion(t reflect.Type, path []step, seen map[reflect.Type]bool, depth int) ([]step, []step) {
	if depth > 12 {
		return nil, nil
	}
	switch t.Kind() {
	case reflect.Ptr:
		return findRecursion(t.Elem(), path, seen, depth+1)
	case reflect.Slice:
		if t.Elem().Kind() == reflect.Uint8 {
			return nil, nil
		}
		return findRecursion(t.Elem(), append(append([]step{}, path...), step{kind: 'a'}), seen, depth+1)
	case reflect.Struct:
		if seen[t] {
			return nil, nil
		}
		seen[t] = true
		if cyc := findCycle(t, t, nil, map[reflect.Type]bool{}, 0); cyc != nil {
			return path, cyc
		}
		for i := 0; i < t.NumField(); i++ {
			f := t.Field(i)
			if f.PkgPath != "" && !f.Anonymous {
				continue
			}
			tag := f.Tag.Get("codec")
			if tag == "-" {
				continue
			}
			name := strings.Split(tag, ",")[0]
			p := path
			if !(f.Anonymous && name == "") {
				if name == "" {
					name = f.Name
				}
				p = append(append([]step{}, path...), step{key: name, kind: 'f'})
			}
			if pre, cyc := findRecursion(f.Type, p, seen, depth+1); cyc != nil {
				return pre, cyc
			}
		}
	}
	return nil, nil
}

func repeat(b byte, n int) []byte {
	r := make([]byte, n)
	for i := range r {
		r[i] = b
	}
	return r
}

func repeatSeq(s []byte, n int) []byte {
	r := make([]byte, 0, n*len(s))
	for i := 0; i < n; i++ {
		r = append(r, s...)
	}
	return r
}

func (g *gen) random() {
	for k := 0; k < vh.Budget(24, 200); k++ {
		n := 1 + g.r.Intn(40)
		b := g.r.Bytes(n)
		if g.r.Bool() {
			// msgpack-ish: bias the first bytes to collection tags with small counts
			tags := []byte{0x81, 0x82, 0x91, 0x92, 0xa1, 0xc4, 0xdc, 0xde, 0xc0, 0x80, 0x90, 0xdd, 0xdf, 0xc6}
			for i := 0; i < n && i < 6; i++ {
				if g.r.Bool() {
					b[i] = tags[g.r.Intn(len(tags))]
				}
			}
		}
		g.emit("random", b)
	}
	g.emit("random", nil)
}

// ---------------------------------------------------------------------------------------------- Run

// Run is the body of every generated TestVerifC41.
func Run(t *testing.T, pkg string, types []TI) {
	if only := os.Getenv("VERIF_C41_ONLY"); only != "" {
		// the combined (external) test binary is started once per package, in parallel
		found := false
		for _, p := range strings.Split(only, ",") {
			found = found || p == pkg
		}
		if !found {
			return
		}
	}
	sort.Slice(types, func(i, j int) bool { return types[i].Name < types[j].Name })
	fname := "c41_" + strings.ReplaceAll(pkg, "/", "_")
	out := vh.Open(fname)
	defer out.Close()
	intentPath := filepath.Join(os.Getenv("VERIF_OUT"), fname+".intent")
	if os.Getenv("VERIF_OUT") == "" {
		intentPath = filepath.Join(os.TempDir(), fname+".intent")
	}
	// the numeric values of the package's bound expressions, as evaluated inside the package (compared with the pinned baseline)
	if _, replaying := vh.ReplayOps(); !replaying {
		bm := c41reg.Bounds[modPrefix+"/"+pkg]
		var exprs []string
		for e := range bm {
			exprs = append(exprs, e)
		}
		sort.Strings(exprs)
		for _, e := range exprs {
			out.Emit("bound "+pkg+" "+e, strconv.Itoa(bm[e]()))
		}
	}
	ctxs := map[string]*typeCtx{}
	ctxOf := func(ti TI) *typeCtx {
		full := pkg + "." + ti.Name
		if tc, ok := ctxs[full]; ok {
			return tc
		}
		tc := &typeCtx{ti: ti, full: full}
		tc.shape, tc.shErr = DescribeRoot(reflect.TypeOf(ti.New()).Elem())
		if tc.shErr != nil {
			tc.shape = nil
			out.Emit("schema "+full+" -", "schema-skip "+tc.shErr.Error())
		} else {
			tc.bud = tc.shape.Budget()
			for b := range tc.bud.bounds {
				if b > tc.maxBound {
					tc.maxBound = b
				}
			}
			out.Emit("schema "+full+" "+tc.shape.Text(), "schema-ok")
		}
		ctxs[full] = tc
		return tc
	}
	skipped := 0
	one := func(tc *typeCtx, kind string, b []byte) {
		if tc.ti.Exempt && announcesHuge(b) {
			skipped++ // an exempt (local-database) decoder allocates what a header says: gigabyte headers would only kill the test process
			return
		}
		op := fmt.Sprintf("%s %s %s", tc.full, kind, hex.EncodeToString(b))
		if len(b) == 0 {
			op = fmt.Sprintf("%s %s -", tc.full, kind)
		}
		dangerous := strings.HasPrefix(kind, "inflate") || strings.HasPrefix(kind, "nest")
		if dangerous {
			out.Flush()
			os.WriteFile(intentPath, []byte(op+"\n"), 0o644)
		}
		r := tc.exec(kind, b)
		if dangerous {
			os.Remove(intentPath)
		}
		mon := "ok"
		if r.viol != "" {
			mon = "VIOL " + r.viol
		}
		rec := 0
		if r.recov {
			rec = 1
		}
		extra := ""
		if r.dupmap != "" {
			extra = " dupmap=" + strings.ReplaceAll(r.dupmap, " ", "_")
		}
		out.Emit(op, fmt.Sprintf("%s ; mon=%s ; dec=%s refl=%s rec=%d alloc=%d ms=%d%s", r.verdict, mon, strings.Fields(r.dec + " x")[0], strings.Fields(r.refl + " x")[0], rec, r.alloc, r.el.Milliseconds(), extra))
	}
	byName := map[string]TI{}
	for _, ti := range types {
		byName[pkg+"."+ti.Name] = ti
	}
	if ops, ok := vh.ReplayOps(); ok {
		for _, op := range ops {
			f := strings.Fields(op)
			if len(f) < 3 || f[0] == "schema" {
				continue
			}
			ti, ok := byName[f[0]]
			if !ok {
				continue
			}
			var b []byte
			if f[2] != "-" {
				var err error
				if b, err = hex.DecodeString(f[2]); err != nil {
					continue
				}
			}
			one(ctxOf(ti), f[1], b)
		}
		return
	}
	// the corpus first: minimised past findings (corpus/C41/*.ops), op lines of this package
	if cp := os.Getenv("VERIF_C41_CORPUS"); cp != "" {
		if data, err := os.ReadFile(cp); err == nil {
			for _, line := range strings.Split(string(data), "\n") {
				f := strings.Fields(line)
				if len(f) < 3 || strings.HasPrefix(f[0], "#") {
					continue
				}
				ti, ok := byName[f[0]]
				if !ok {
					continue
				}
				if b, err := hex.DecodeString(f[2]); err == nil {
					one(ctxOf(ti), f[1], b)
				}
			}
		}
	}
	defer func() {
		out.Emit(fmt.Sprintf("info %s advisories=%d skipped=%d", pkg, advisories, skipped), advisoryExample)
		advisories, advisoryExample = 0, ""
	}()
	for _, ti := range types {
		tc := ctxOf(ti)
		// entry-point types get the larger share of the budget
		k, hdrs := vh.Budget(1, 2), vh.Budget(2, 3)
		if ti.Class != "" || ti.Net {
			k, hdrs = vh.Budget(3, 4), vh.Budget(4, 6)
		}
		g := &gen{tc: tc, r: vh.NewRng(seedOf(vh.Seed(), pkg, ti.Name))}
		g.emit = func(kind string, b []byte) { one(tc, kind, b) }
		// the zero value, then seeded valid instances and their mutations
		zero := ti.New().MarshalMsg(nil)
		one(tc, "valid", zero)
		g.mutations(zero, hdrs, false)
		n := 0
		for _, mode := range c40h.Modes {
			for i := 0; i < k; i++ {
				obj, err := c40h.Instance(c40h.T{Name: ti.Name, New: ti.New}, mode, seedOf(vh.Seed(), ti.Name, mode, i))
				if err != nil {
					continue
				}
				valid := vh.Catch(func() string { return string(obj.MarshalMsg(nil)) })
				if strings.HasPrefix(valid, "PANIC ") {
					continue
				}
				one(tc, "valid", []byte(valid))
				if n%2 == 0 || vh.Thorough() {
					g.mutations([]byte(valid), hdrs, n < 4 || (vh.Thorough() && n < 8))
				}
				n++
			}
		}
		g.nesting(reflect.TypeOf(ti.New()).Elem())
		g.random()
	}
}
