// Package vh: helpers shared by the /verif correspondence harnesses (injected by the overlay as
// github.com/algorand/go-algorand/zz_verif_tools/vh; never committed to /repo).
package vh

import (
	"bufio"
	"fmt"
	"os"
	"path/filepath"
	"strconv"
	"strings"
)

// Rng is splitmix64: every random choice of a harness derives from VERIF_SEED through one of these.
type Rng struct{ s uint64 }

func NewRng(seed uint64) *Rng {
	// scramble the seed first: with s = seed·γ + c the streams of seed k and k+d would be the same
	// splitmix sequence shifted by d draws (different seeds must give unrelated streams).
	z := seed + 0x6A09E667F3BCC909
	z = (z ^ (z >> 32)) * 0xD6E8FEB86659FD93
	z = (z ^ (z >> 32)) * 0xD6E8FEB86659FD93
	z ^= z >> 32
	return &Rng{s: z*0x9E3779B97F4A7C15 + 0x1234567}
}
func (r *Rng) U64() uint64 {
	r.s += 0x9E3779B97F4A7C15
	z := r.s
	z = (z ^ (z >> 30)) * 0xBF58476D1CE4E5B9
	z = (z ^ (z >> 27)) * 0x94D049BB133111EB
	return z ^ (z >> 31)
}
func (r *Rng) Intn(n int) int {
	if n <= 0 {
		return 0
	}
	return int(r.U64() % uint64(n))
}
func (r *Rng) Bool() bool         { return r.U64()&1 == 1 }
func (r *Rng) Chance(pct int) bool { return r.Intn(100) < pct }
func (r *Rng) Bytes(n int) []byte {
	b := make([]byte, n)
	for i := range b {
		b[i] = byte(r.U64())
	}
	return b
}

// Biased64 returns boundary-heavy 64-bit operands.
func (r *Rng) Biased64() uint64 {
	switch r.Intn(6) {
	case 0:
		b := Boundary64()
		return b[r.Intn(len(b))]
	case 1:
		return r.U64() >> uint(r.Intn(64))
	case 2:
		return (uint64(1) << uint(r.Intn(64))) + uint64(r.Intn(5)) - 2
	case 3:
		return uint64(r.Intn(1000))
	case 4:
		return ^uint64(0) - uint64(r.Intn(1000))
	}
	return r.U64()
}

func Boundary64() []uint64 {
	return []uint64{0, 1, 2, 3, 99, 100, 101, 999999, 1000000, 1000001, 1<<31 - 1, 1 << 31, 1<<31 + 1, 1<<32 - 1, 1 << 32, 1<<32 + 1,
		1<<63 - 1, 1 << 63, 1<<63 + 1, ^uint64(0) - 1, ^uint64(0), 4294967295 * 4294967295, 1000000000000, 1000000000001, 18446744073709}
}

func Seed() uint64 {
	s, _ := strconv.ParseUint(os.Getenv("VERIF_SEED"), 10, 64)
	return s
}
func Thorough() bool { return os.Getenv("VERIF_TIER") == "thorough" }

// Budget picks the quick or thorough budget; VERIF_BUDGET_SCALE (percent) rescales it.
func Budget(quick, thorough int) int {
	n := quick
	if Thorough() {
		n = thorough
	}
	if s, err := strconv.Atoi(os.Getenv("VERIF_BUDGET_SCALE")); err == nil && s > 0 {
		n = n * s / 100
	}
	return n
}

// Out writes the op stream and the implementation's output stream (one line each per op).
type Out struct {
	fo, fi *os.File
	ops    *bufio.Writer
	impl   *bufio.Writer
	N      int
}

func Open(name string) *Out {
	dir := os.Getenv("VERIF_OUT")
	if dir == "" {
		dir = os.TempDir()
	}
	fo, err := os.Create(filepath.Join(dir, name+".ops"))
	if err != nil {
		panic(err)
	}
	fi, err := os.Create(filepath.Join(dir, name+".impl"))
	if err != nil {
		panic(err)
	}
	return &Out{fo: fo, fi: fi, ops: bufio.NewWriterSize(fo, 1<<20), impl: bufio.NewWriterSize(fi, 1<<20)}
}

func oneLine(s string) string {
	s = strings.ReplaceAll(s, "\n", "\\n")
	return strings.ReplaceAll(s, "\r", "\\r")
}

func (o *Out) Emit(op, result string) {
	o.ops.WriteString(oneLine(op))
	o.ops.WriteByte('\n')
	o.impl.WriteString(oneLine(result))
	o.impl.WriteByte('\n')
	o.N++
}
func (o *Out) Flush() { o.ops.Flush(); o.impl.Flush() }
func (o *Out) Close() { o.Flush(); o.fo.Close(); o.fi.Close() }

// ReplayOps returns the op lines of $VERIF_REPLAY (a plain text file, one op per line) if set.
func ReplayOps() ([]string, bool) {
	p := os.Getenv("VERIF_REPLAY")
	if p == "" {
		return nil, false
	}
	b, err := os.ReadFile(p)
	if err != nil {
		panic(err)
	}
	var out []string
	for _, l := range strings.Split(string(b), "\n") {
		if strings.TrimSpace(l) != "" {
			out = append(out, l)
		}
	}
	return out, true
}

// Catch runs f and maps a panic to the distinct token PANIC(<msg>).
func Catch(f func() string) (res string) {
	defer func() {
		if r := recover(); r != nil {
			res = "PANIC " + oneLine(fmt.Sprint(r))
		}
	}()
	return f()
}

func B(b bool) string {
	if b {
		return "true"
	}
	return "false"
}

func U(s string) uint64 {
	v, err := strconv.ParseUint(s, 10, 64)
	if err != nil {
		panic("bad uint " + s)
	}
	return v
}
func I(s string) int64 {
	v, err := strconv.ParseInt(s, 10, 64)
	if err != nil {
		panic("bad int " + s)
	}
	return v
}

// Profile selects a generator profile (VERIF_PROFILE), "" = default mix.
func Profile() string { return os.Getenv("VERIF_PROFILE") }
