#!/usr/bin/env python3
"""Shared machinery for the /verif checks (see DESIGN.md §2–§3).

Every check is `checks/Cxx.py` exposing `run(ctx)`; `bin/check` creates the Ctx, calls run, and
turns the outcome into exit code, VIOLATION / KNOWN-FINDING lines, a replay file and the evidence file.
"""
import fcntl, json, os, re, shutil, subprocess, sys, time, hashlib, random

VERIF = os.environ.get("VERIF_DIR") or os.path.dirname(os.path.dirname(os.path.abspath(__file__)))
REPO = os.environ.get("REPO", "/repo")
LEAN = os.path.join(VERIF, "lean")
BUILD = os.path.join(VERIF, "build")
sys.path.insert(0, os.path.join(VERIF, "lib"))
import overlay as _overlay

ALLOWED_AXIOMS = {"propext", "Classical.choice", "Quot.sound"}
FORBIDDEN = re.compile(r"\b(sorry|admit|native_decide|bv_decide|implemented_by|unsafe)\b|maxHeartbeats\s+0|^\s*axiom\s", re.M)

GOENV = {"GOFLAGS": "-mod=readonly", "GOPROXY": "off", "CGO_ENABLED": "1"}


def strip_lean_comments(txt):
    # remove /- ... -/ (nested) and -- comments
    out, i, depth = [], 0, 0
    while i < len(txt):
        if txt.startswith("/-", i):
            depth += 1; i += 2; continue
        if depth and txt.startswith("-/", i):
            depth -= 1; i += 2; continue
        if depth:
            if txt[i] == "\n": out.append("\n")
            i += 1; continue
        if txt.startswith("--", i):
            j = txt.find("\n", i)
            i = len(txt) if j < 0 else j
            continue
        out.append(txt[i]); i += 1
    return "".join(out)


class Violation(Exception):
    pass


class Ctx:
    def __init__(self, prop, tier="quick", seed=0, replay=None):
        self.prop, self.tier, self.seed, self.replay = prop, tier, int(seed), replay
        self.t0 = time.time()
        self.work = os.path.join(BUILD, "run", "%s-%d" % (prop, os.getpid()))
        shutil.rmtree(self.work, ignore_errors=True)
        os.makedirs(self.work, exist_ok=True)
        self.violations = []      # list of dict(replay_path, text, found_input)
        self.known_hits = []
        self.obligations = []     # theorem names
        self.discharged = []
        self.axioms = {}
        self.cov = {"evaluations": 0, "distinct_nontrivial": 0, "samples": [], "rule": "", "distribution": {}}
        self.assumptions = []
        self.trusted = ["Lean 4.33 kernel", "axioms ⊆ {propext, Classical.choice, Quot.sound}",
                        "Go toolchain + hand-built libsodium (same sources as the repo)", "bin/check glue (python)"]
        self.notes = []
        self.checker_cmd = ""
        self.proof_ok = True
        self.proof_failures = []  # (module, theorem or message)
        self.tie_failures = []
        self.level = "proof"
        self._known = None
        self.log = open(os.path.join(self.work, "log.txt"), "w")

    # ------------------------------------------------------------------ utilities
    def say(self, *a):
        msg = " ".join(str(x) for x in a)
        print(msg, flush=True)
        self.log.write(msg + "\n"); self.log.flush()

    def budget(self, quick, thorough):
        return thorough if self.tier == "thorough" else quick

    def sh(self, cmd, cwd=None, env=None, timeout=None, stdin=None, stdout=None):
        e = dict(os.environ); e.update(GOENV)
        if env: e.update(env)
        self.log.write("$ %s\n" % (cmd if isinstance(cmd, str) else " ".join(cmd))); self.log.flush()
        try:
            p = subprocess.run(cmd, cwd=cwd, env=e, shell=isinstance(cmd, str), timeout=timeout,
                               stdin=stdin, stdout=stdout or subprocess.PIPE, stderr=subprocess.STDOUT)
            out = p.stdout.decode(errors="replace") if p.stdout else ""
            rc = p.returncode
        except subprocess.TimeoutExpired as ex:
            out = (ex.stdout or b"").decode(errors="replace") + "\nTIMEOUT"
            rc = 124
        self.log.write(out[-20000:] + "\n[rc=%d]\n" % rc); self.log.flush()
        return rc, out

    # ------------------------------------------------------------------ ties T / F
    def overlay(self, extra=None):
        self.ovl = _overlay.build_overlay(extra)
        _overlay.mklake()
        return self.ovl

    def go2lean(self, modules):
        """Regenerate AlgoVerif/Gen/<Module>.lean for the listed modules from the current tree."""
        allm = _overlay.go2lean_config()
        want = set(modules)
        for _ in range(5):
            for m in allm:
                if m["module"] in want:
                    want |= set(m.get("uses", []))
        sel = [m for m in allm if m["module"] in want]
        sel.sort(key=lambda m: (len(m.get("uses", [])), m["module"]))
        cpath = os.path.join(self.work, "go2lean.json")
        json.dump(sel, open(cpath, "w"))
        with Lock("gen"):
            rc, out = self.sh(["go", "run", "-overlay", self.ovl, "./zz_verif_tools/go2lean", "-config", cpath,
                               "-out", os.path.join(LEAN, "AlgoVerif", "Gen"), "-overlay", self.ovl, "-repo", REPO], cwd=REPO, timeout=900)
        self.trusted.append("tools/go2lean translator (validated each run by correspondence of Gen defs vs the real functions)")
        if rc != 0:
            self.tie_failures.append("go2lean: " + out.strip().splitlines()[-1] if out.strip() else "go2lean failed")
            return False, out
        return True, out

    def go_run_tool(self, tool, args, timeout=900):
        with Lock("gen"):
            return self.sh(["go", "run", "-tags", "verif", "-overlay", self.ovl, "./zz_verif_tools/" + tool] + args, cwd=REPO, timeout=timeout)

    # ------------------------------------------------------------------ Lean
    def lean_build(self, targets, timeout=3000):
        with Lock("lake"):
            rc, out = self.sh(["lake", "build"] + targets, cwd=LEAN, timeout=timeout)
        return rc == 0, out

    def theorems_of(self, module):
        path = os.path.join(LEAN, module.replace(".", "/") + ".lean")
        txt = strip_lean_comments(open(path).read())
        ns = []
        names = []
        for line in txt.splitlines():
            m = re.match(r"\s*namespace\s+(\S+)", line)
            if m: ns.append(m.group(1)); continue
            m = re.match(r"\s*end\s+(\S+)", line)
            if m and ns and ns[-1] == m.group(1): ns.pop(); continue
            m = re.match(r"\s*(?:@\[[^\]]*\]\s*)*(?:private\s+|protected\s+)?theorem\s+(\S+)", line)
            if m:
                names.append(".".join(ns + [m.group(1)]))
        return names, path, txt

    def prove(self, prop_modules, extra_sources=()):
        """Build the property modules, audit axioms of every theorem in them, grep forbidden tokens.
        Records obligations/discharged. Returns True iff everything checks."""
        ok_all = True
        prop_modules = list(prop_modules) + [m for m in self.extra_prop_modules() if m not in prop_modules]
        self.checker_cmd = "cd /verif/lean && lake build %s && lake env lean <generated #print axioms file>" % " ".join(prop_modules)
        ok, out = self.lean_build(prop_modules)
        thms = []
        srcs = []
        for m in prop_modules:
            names, path, txt = self.theorems_of(m)
            thms += [(m, n) for n in names]
            srcs.append((path, txt))
        self.obligations = [n for _, n in thms]
        if not ok:
            ok_all = False
            self.proof_ok = False
            failing = self._failing_theorems(out, prop_modules)
            self.proof_failures += failing
            self.say("PROOF-BROKEN:", "; ".join(failing)[:2000])
            if self.tier == "thorough" or True:
                pass
            return False
        # forbidden tokens in every hand-written/generated Lean source the modules (transitively) import
        for path, txt in self._transitive_sources(prop_modules):
            m = FORBIDDEN.search(txt)
            if m:
                ok_all = False
                self.proof_ok = False
                self.proof_failures.append("forbidden token %r in %s" % (m.group(0), path))
        # axiom audit
        audit = os.path.join(LEAN, "AlgoVerif", "Audit", self.prop + ".lean")
        os.makedirs(os.path.dirname(audit), exist_ok=True)
        body = "".join("import %s\n" % m for m in prop_modules) + "".join("#print axioms %s\n" % n for _, n in thms)
        _overlay.write_if_changed(audit, body)
        with Lock("lake"):
            rc, out = self.sh(["lake", "env", "lean", audit], cwd=LEAN, timeout=1200)
        if rc != 0:
            self.proof_ok = False
            self.proof_failures.append("audit failed: " + out[-500:])
            return False
        cur = None
        for line in out.replace("\n  ", " ").splitlines():
            m = re.match(r"'(.+)' depends on axioms: \[(.*)\]", line)
            if m:
                ax = [a.strip() for a in m.group(2).split(",") if a.strip()]
                self.axioms[m.group(1)] = ax
                continue
            m = re.match(r"'(.+)' does not depend on any axioms", line)
            if m:
                self.axioms[m.group(1)] = []
        for _, n in thms:
            if n not in self.axioms:
                ok_all = False; self.proof_ok = False
                self.proof_failures.append("no axiom report for " + n)
            elif set(self.axioms[n]) - ALLOWED_AXIOMS:
                ok_all = False; self.proof_ok = False
                self.proof_failures.append("%s uses axioms %s" % (n, sorted(set(self.axioms[n]) - ALLOWED_AXIOMS)))
            else:
                self.discharged.append(n)
        if self.tier == "thorough":
            with Lock("lake"):
                rc, out = self.sh(["lake", "env", "leanchecker"] + prop_modules, cwd=LEAN, timeout=3000)
            if rc != 0:
                ok_all = False; self.proof_ok = False
                self.proof_failures.append("leanchecker rejected: " + out[-300:])
            else:
                self.trusted.append("leanchecker re-checked " + " ".join(prop_modules))
        return ok_all

    def extra_prop_modules(self):
        """Additional property modules proved/audited with this property (deepening work added after the check
        was written): checks/extra_props.d/<id>.json = ["AlgoVerif.Props.X", …] and checks/extra_props.json = {id: […]}.
        A listed module whose source file does not exist yet is ignored."""
        mods = []
        d = os.path.join(VERIF, "checks", "extra_props.d", self.prop + ".json")
        if os.path.exists(d):
            mods += json.load(open(d))
        g = os.path.join(VERIF, "checks", "extra_props.json")
        if os.path.exists(g):
            mods += json.load(open(g)).get(self.prop, [])
        return [m for m in mods if os.path.exists(os.path.join(LEAN, m.replace(".", "/") + ".lean"))]

    def _transitive_sources(self, modules):
        seen, todo, res = set(), list(modules), []
        while todo:
            m = todo.pop()
            if m in seen or not m.startswith("AlgoVerif"): continue
            seen.add(m)
            path = os.path.join(LEAN, m.replace(".", "/") + ".lean")
            if not os.path.exists(path): continue
            raw = open(path).read()
            txt = strip_lean_comments(raw)
            res.append((path, txt))
            for mm in re.finditer(r"^\s*(?:public\s+)?import\s+(\S+)", txt, re.M):
                todo.append(mm.group(1))
        return res

    def _failing_theorems(self, out, modules):
        res = []
        for m in re.finditer(r"error: (\S+?\.lean):(\d+):(\d+): (.*)", out):
            f, line, msg = m.group(1), int(m.group(2)), m.group(4)
            path = f if os.path.isabs(f) else os.path.join(LEAN, f)
            name = "?"
            try:
                lines = open(path).read().splitlines()
                for i in range(min(line, len(lines)) - 1, -1, -1):
                    mm = re.match(r"\s*(?:theorem|def|lemma|example|instance)\s+(\S+)", lines[i])
                    if mm: name = mm.group(1); break
            except Exception:
                pass
            res.append("%s:%d theorem/def `%s`: %s" % (os.path.relpath(path, LEAN), line, name, msg[:160]))
        if not res:
            tail = out.strip().splitlines()[-3:]
            res.append("lake build failed: " + " | ".join(tail))
        # dedupe keep order
        seen = set(); r2 = []
        for r in res:
            if r not in seen: seen.add(r); r2.append(r)
        return r2[:20]

    # ------------------------------------------------------------------ tie C
    def go_test(self, pkg, run, env=None, timeout=1800, extra_args=()):
        e = {"VERIF_OUT": self.work, "VERIF_SEED": str(self.seed), "VERIF_TIER": self.tier}
        if env: e.update(env)
        cmd = ["go", "test", "-overlay", self.ovl, "-tags", "verif", "-vet=off", "-count=1", "-run", "^%s$" % run,
               "-timeout", "%ds" % timeout] + list(extra_args) + [pkg]
        rc, out = self.sh(cmd, cwd=REPO, env=e, timeout=timeout + 120)
        return rc, out

    def driver(self, exe, args, infile, outfile, timeout=1800):
        path = os.path.join(LEAN, ".lake", "build", "bin", exe)
        with open(infile, "rb") as fi, open(outfile, "wb") as fo:
            e = dict(os.environ)
            p = subprocess.run([path] + list(args), stdin=fi, stdout=fo, stderr=subprocess.PIPE, timeout=timeout)
        if p.returncode != 0:
            self.log.write("driver %s rc=%d: %s\n" % (exe, p.returncode, p.stderr.decode(errors="replace")[-2000:]))
        return p.returncode

    @staticmethod
    def read_lines(path):
        with open(path, "r", errors="replace") as f:
            return f.read().splitlines()

    def compare(self, ops, impl, model, label="model"):
        """Line-wise comparison; returns list of (index, op, impl, model) for mismatches."""
        bad = []
        n = max(len(ops), len(impl), len(model))
        for i in range(n):
            a = impl[i] if i < len(impl) else "<missing>"
            b = model[i] if i < len(model) else "<missing>"
            if a != b:
                bad.append((i, ops[i] if i < len(ops) else "<missing>", a, b))
        return bad

    def account(self, ops, trivial=None, sample_n=5, kind_of=None):
        """Coverage accounting: evaluations, distinct non-trivial, op-kind distribution, samples."""
        self.cov["evaluations"] += len(ops)
        seen = set()
        dist = self.cov["distribution"]
        for o in ops:
            k = kind_of(o) if kind_of else (o.split(" ", 1)[0] if o else "")
            dist[k] = dist.get(k, 0) + 1
            if trivial and trivial(o): continue
            seen.add(o)
        self.cov["distinct_nontrivial"] += len(seen)
        if ops and len(self.cov["samples"]) < 12:
            rnd = random.Random(self.seed)
            for o in rnd.sample(ops, min(sample_n, len(ops))):
                self.cov["samples"].append(o[:400])

    # ------------------------------------------------------------------ outcome
    def known(self):
        if self._known is None:
            p = os.path.join(VERIF, "known_findings.json")
            self._known = json.load(open(p)) if os.path.exists(p) else []
        return [k for k in self._known if k.get("property") == self.prop]

    def violation(self, what, replay, found_input=True, match_key=None):
        """Record a violation. `replay` is a JSON-able dict. If match_key equals the `match` of a known finding
        with status "known" for this property, it is reported as KNOWN-FINDING instead."""
        for k in self.known():
            if k.get("status") == "known" and match_key is not None and k.get("match") == match_key:
                if k["text"] not in self.known_hits:
                    self.known_hits.append(k["text"])
                return False
        os.makedirs(os.path.join(VERIF, "replays"), exist_ok=True)
        path = os.path.join(VERIF, "replays", "%s-%d-%d.json" % (self.prop, self.seed, len(self.violations)))
        replay = dict(replay)
        replay.update({"property": self.prop, "seed": self.seed, "tier": self.tier, "what": what,
                       "found_failing_input": bool(found_input)})
        json.dump(replay, open(path, "w"), indent=1, default=str)
        self.violations.append({"path": path, "what": what, "found_input": found_input})
        return True

    def finish(self):
        wall = time.time() - self.t0
        # a broken proof or tie without any concrete failing input is still a violation (no-failing-input-found)
        if (not self.proof_ok or self.tie_failures) and not any(v["found_input"] for v in self.violations):
            self.violation("proof or tie no longer checks; no failing input found within the search budget",
                           {"kind": "unchecked", "broken_theorems": self.proof_failures, "broken_ties": self.tie_failures},
                           found_input=False)
        for t in self.known_hits:
            print("KNOWN-FINDING: property=%s %s" % (self.prop, t), flush=True)
        cov = dict(self.cov)
        cov.update({"obligations": len(self.obligations), "discharged": len(self.discharged),
                    "checker_cmd": self.checker_cmd or "n/a", "trusted_base": self.trusted,
                    "theorems": self.obligations, "axioms": self.axioms,
                    "proof_failures": self.proof_failures, "tie_failures": self.tie_failures,
                    "known_findings_hit": self.known_hits, "notes": self.notes})
        if cov["distinct_nontrivial"] < 2 and cov["evaluations"] >= 1:
            pass
        ev = {"property_id": self.prop, "tier": self.tier, "seed": self.seed, "level": self.level,
              "coverage": cov, "assumptions": self.assumptions, "wall_s": round(wall, 2),
              "violations": len(self.violations)}
        os.makedirs(os.path.join(VERIF, "evidence"), exist_ok=True)
        json.dump(ev, open(os.path.join(VERIF, "evidence", self.prop + ".json"), "w"), indent=1, default=str)
        for v in self.violations:
            tail = "" if v["found_input"] else " no-failing-input-found"
            print("VIOLATION property=%s replay=%s%s" % (self.prop, v["path"], tail), flush=True)
        self.log.close()
        if not self.violations and not os.environ.get("VERIF_KEEP"):
            shutil.rmtree(self.work, ignore_errors=True)
        return 1 if self.violations else 0


class Lock:
    def __init__(self, name):
        os.makedirs(BUILD, exist_ok=True)
        self.path = os.path.join(BUILD, name + ".lock")
    def __enter__(self):
        self.f = open(self.path, "w")
        fcntl.flock(self.f, fcntl.LOCK_EX)
    def __exit__(self, *a):
        fcntl.flock(self.f, fcntl.LOCK_UN); self.f.close()
