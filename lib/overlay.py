#!/usr/bin/env python3
"""Build the `go -overlay` JSON that lets harnesses run the real go-algorand code without touching /repo.

 * crypto/{curve25519,batchverifier,vrf}.go are copied FROM THE CURRENT TREE with only the cgo
   `${SRCDIR}/libs/<os>/<arch>` path rewritten to the hand-built libsodium prefix;
 * every file under /verif/harness/<pkgdir>/ is injected as a new file of /repo/<pkgdir>/
   (harness files carry `//go:build verif`);
 * /verif/tools/<name>/*.go are injected as /repo/zz_verif_tools/<name>/ (package main programs that
   need the repo's module context, e.g. the go2lean translator and the fact extractors).
"""
import json, os, re, sys, hashlib

VERIF = os.environ.get("VERIF_DIR") or os.path.dirname(os.path.dirname(os.path.abspath(__file__)))
REPO = os.environ.get("REPO", "/repo")
BUILD = os.path.join(VERIF, "build")
SODIUM = os.path.join(BUILD, "sodium")

def write_if_changed(path, data):
    os.makedirs(os.path.dirname(path), exist_ok=True)
    if isinstance(data, str):
        data = data.encode()
    try:
        with open(path, "rb") as f:
            if f.read() == data:
                return False
    except FileNotFoundError:
        pass
    tmp = path + ".tmp%d" % os.getpid()
    with open(tmp, "wb") as f:
        f.write(data)
    os.replace(tmp, path)
    return True

def build_overlay(extra=None):
    replace = {}
    # 1. cgo path rewrite
    for name in ("curve25519.go", "batchverifier.go", "vrf.go"):
        src = os.path.join(REPO, "crypto", name)
        if not os.path.exists(src):
            continue
        txt = open(src).read()
        new = re.sub(r"\$\{SRCDIR\}/libs/[a-z0-9]+/[a-z0-9]+", SODIUM, txt)
        dst = os.path.join(BUILD, "ovl", "crypto", name)
        write_if_changed(dst, new)
        replace[src] = dst
    # 2. harness files
    hroot = os.path.join(VERIF, "harness")
    for d, _, files in os.walk(hroot):
        rel = os.path.relpath(d, hroot)
        for f in files:
            if f.endswith(".go") or f.endswith(".s"):
                replace[os.path.join(REPO, rel, f)] = os.path.join(d, f)
    # 3. tools
    troot = os.path.join(VERIF, "tools")
    if os.path.isdir(troot):
        for t in os.listdir(troot):
            td = os.path.join(troot, t)
            if not os.path.isdir(td):
                continue
            for f in os.listdir(td):
                if f.endswith(".go"):
                    replace[os.path.join(REPO, "zz_verif_tools", t, f)] = os.path.join(td, f)
    # 4. go.mod: a copy of the CURRENT go.mod in which golang.org/x/tools (already an indirect requirement,
    #    present in the module cache) is a direct one, so the injected tools may import go/packages while
    #    the go command never rewrites /repo/go.mod (all invocations use -mod=readonly).
    gm = os.path.join(REPO, "go.mod")
    if os.path.exists(gm):
        txt = open(gm).read()
        new = re.sub(r"(golang\.org/x/tools v[0-9][^\s]*) // indirect", r"\1", txt)
        dst = os.path.join(BUILD, "ovl", "go.mod")
        write_if_changed(dst, new)
        replace[gm] = dst
    if extra:
        replace.update(extra)
    path = os.path.join(BUILD, "overlay.json")
    write_if_changed(path, json.dumps({"Replace": replace}, indent=1, sort_keys=True))
    return path

def go2lean_config():
    """tools/go2lean.d/*.json — one translator module per file."""
    d = os.path.join(VERIF, "tools", "go2lean.d")
    mods = []
    for f in sorted(os.listdir(d)):
        if f.endswith(".json"):
            mods.append(json.load(open(os.path.join(d, f))))
    return mods

def snake(name):
    return re.sub(r"(?<=[a-z0-9])([A-Z])", r"_\1", name).lower()

def mklake():
    """lean/lakefile.toml is derived: one lean_exe per lean/Driver/<Name>Main.lean (exe name = snake(<Name>); Main.lean → drv)."""
    ld = os.path.join(VERIF, "lean")
    out = ['name = "AlgoVerif"', 'version = "0.1.0"', 'defaultTargets = ["AlgoVerif"]', "", "[[lean_lib]]", 'name = "AlgoVerif"', 'globs = ["AlgoVerif.+"]', ""]
    for f in sorted(os.listdir(os.path.join(ld, "Driver"))):
        if not f.endswith("Main.lean"):
            continue
        base = f[:-len("Main.lean")]
        exe = snake(base) if base else "drv"
        out += ["[[lean_exe]]", 'name = "%s"' % exe, 'root = "Driver.%s"' % f[:-5], ""]
    write_if_changed(os.path.join(ld, "lakefile.toml"), "\n".join(out))

if __name__ == "__main__":
    mklake()
    print(build_overlay())
