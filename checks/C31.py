"""C31 — AVM evaluation is total and bounded for every program.

Ties: F  TestVerifC34Facts regenerates lean/AlgoVerif/Gen/OpTable.lean (the opcode tables, C34's extractor) and
         TestVerifC31Facts regenerates lean/AlgoVerif/Gen/AVMFacts.lean (evaluator limits, per-field cost tables);
      C  TestVerifC31 runs random / mutated bytecode (versions 0..LogicVersion and beyond, both modes, random args, unpooled /
         pooled / clear-state-isolated budgets) through the real CheckSignature/CheckContract and
         EvalSignatureFull/EvalContract with the package's test ledger and an injected tracer; the Lean driver c31 runs
         Model.AVM (check: always; eval: whenever the run stays inside the modelled op family, otherwise SKIP) and must
         print the same verdict class, error pc, Cost, step count and final stack.
Monitors on the implementation alone (every line, modelled or not):
      M1 no PANIC: neither a panicError recovered by eval/check (PANIC-recovered) nor a panic escaping them (PANIC ...);
      M2 Cost <= the budget evaluation started with; M3 stack height <= 1000 after every completed step;
      M4 every byte value on the stack / in scratch space <= 4096 after every completed step (the tracer scans the WHOLE
         stack after every step, whatever the op's prototype declares; scratch after store/stores and periodically);
      M5 termination: at most budget+1 steps (the tracer aborts a longer run: NONTERM), and every completed step cost >= 1
         (Cost >= steps-1);
      M6 verdict rule: accept / reject only with exactly one uint on the final stack, non-zero / zero."""
import os
import common
import vf

PKG = "./data/transactions/logic"
MAX_STACK, MAX_BYTES = 1000, 4096


def kv(line):
    d = {}
    for t in line.split():
        if "=" in t:
            k, v = t.split("=", 1)
            d[k] = v
    return d


def monitor(op, res, mon):
    """property predicate on the implementation's output alone"""
    if res.startswith("PANIC"):
        return "a panic escaped the evaluator: " + res[:120]
    if "PANIC-recovered" in res:
        return "the evaluator recovered an internal panic into a panicError: " + mon.split("|", 1)[-1].strip()[:160]
    if "NONTERM" in res:
        return "evaluation ran for more than budget+1 steps"
    if not op.startswith("eval "):
        return None
    d, m = kv(res), kv(mon.split("|", 1)[0])
    try:
        cost, steps = int(d.get("cost", "0")), int(d.get("steps", "0"))
        budget, mstack, mbytes = int(m.get("budget", "0")), int(m.get("maxstack", "0")), int(m.get("maxbytes", "0"))
    except ValueError:
        return "unparsable result line: " + res[:80]
    if cost > budget:
        return "Cost %d exceeds the budget %d" % (cost, budget)
    if mstack > MAX_STACK:
        return "stack height %d after a completed step (limit %d)" % (mstack, MAX_STACK)
    if mbytes > MAX_BYTES:
        return "byte value of length %d on the stack / in scratch after a completed step (limit %d)" % (mbytes, MAX_BYTES)
    if steps > budget + 1:
        return "%d steps with a budget of %d" % (steps, budget)
    if cost < steps - 1:
        return "%d steps completed for a total cost of %d: a step cost less than 1" % (steps - 1, cost)
    ev = d.get("ev", "")
    if ev in ("accept", "reject"):
        st = d.get("stack", "")
        if "," in st or st in (".", "-", "") or st.startswith("x"):
            return "verdict %s with final stack %s" % (ev, st[:60])
        if (ev == "accept") != (int(st) != 0):
            return "verdict %s with final stack %s" % (ev, st)
    return None


def run(ctx, replay_ops=None):
    ctx.overlay()
    ctx.assumptions += [
        "Model.AVM mirrors eval.go step/eval/check/checkStep/begin/remainingBudget and the branch, frame, constant-block and push ops by hand; the correspondence run (outcome class, error pc, Cost, step count, final stack) is what ties it to the code",
        "op bodies outside the modelled family are the parameter sem (stack and immediates only): the skeleton theorems hold for every sem; absence of internal crashes in those bodies (crypto, pairing, txn field access, inner transactions, boxes, json/base64, byte math) is SEARCHED by the harness monitors, not proved",
        "bytes_bounded: sem must keep every value outside the window step re-checks (the op's declared return values) within the limit; proved for the modelled ops. With Proto.LogicSigVersion < 13 the constants of pushbytess are not size-checked by the code (historical behaviour kept on purpose): the theorem assumes lsv >= 13",
        "at most one pooled budget pointer is non-nil and it is the one of the run mode (NewSigEvalParams / NewAppEvalParams guarantee it)",
        "program bytes are < 256; the uint64 arithmetic of the modelled ops is over Nat with the overflow tests of the code",
        "error classes are recognised from the error text of the real evaluator; ev=refused replays EvalContract's clear-state pooled-budget refusal",
        "Trace == nil (production path): step's disassembly-for-tracing branch is not modelled",
        "the driver's sem models, besides the op family of Model.AVM, only the scalar `txn ApprovalProgram|ClearStateProgram|Note` of the evaluated transaction (pushes the environment's value after the field gate), so that long values from an any-typed op meet step's post-check in the correspondence run; all other field access is monitor-only",
    ]
    # ---- tie F (C34's table extractor first, so that Gen/OpTable.lean is the current tree's)
    rc, out = ctx.go_test(PKG, "TestVerifC3[14]Facts")
    for fname in ("OpTable.lean", "AVMFacts.lean"):
        gen = os.path.join(ctx.work, fname)
        if rc != 0 or not os.path.exists(gen):
            ctx.tie_failures.append("fact extraction for %s failed (rc=%d): %s" % (fname, rc, out[-400:]))
        else:
            with vf.Lock("gen"):
                vf._overlay.write_if_changed(os.path.join(vf.LEAN, "AlgoVerif", "Gen", fname), open(gen).read())
    proved = ctx.prove(["AlgoVerif.Props.C31"])
    okb, out = ctx.lean_build(["c31"])
    if not okb:
        raise RuntimeError("driver c31 does not build: " + out[-800:])
    env = {}
    if not proved or ctx.tie_failures:
        env["VERIF_BUDGET_SCALE"] = "400" if ctx.tier == "quick" else "150"
    corpus = os.path.join(vf.VERIF, "corpus", "C31", "seed.ops")
    if os.path.exists(corpus):
        env["VERIF_CORPUS"] = corpus
    ctx.cov["rule"] = ("one case = one program with its run parameters (mode, budget kind u/p/i, MaxCost, pool, Proto.LogicSigVersion, "
                       "minAvmVersion, LogicSig args, and a transaction environment: ApprovalProgram / ClearStateProgram of the evaluated "
                       "txn and of the second group member, Note, ApplicationArgs[0] and the approval program of ledger app 888 with "
                       "lengths 10 / 4095 / 4096 / 4097 / 5000 / 8185 / 8192 in about a quarter of the cases), run twice: `check` and "
                       "`eval`. Generator: 10% programs reading a field of the group through every txn / txna / gtxn / gtxna / gtxns / "
                       "gtxnsa / txnas / gtxnas / gtxnsas / itxn / itxna / gitxn / gitxna form (all field names, the whole-program and "
                       "...Pages fields favoured; app_params_get of the ledger app) and then measuring / duplicating / storing / "
                       "concatenating the value; 50% table-driven well-formed instruction "
                       "streams (ops of the real table for that version/mode, valid immediates, stack set-up, label targets on "
                       "instruction boundaries, optional subroutines with proto/frame ops), 15% assembled templates (self loop, "
                       "count-down loops burning the budget, stack growth to 1001, concat doubling past 4096, unbounded callsub "
                       "recursion, proto/frame_dig/frame_bury, dupn/popn, switch, match, scratch loops), 17% hand-laid branch layouts "
                       "(targets into immediates, pc 0, own start, len, past len, before the program; 2-byte and varint forms, "
                       "MinInt64/MaxInt64/overlong varints), 8% random bytes and version-byte games; 20% of all get 1-3 byte-level "
                       "mutations. Trivial = programs rejected by begin (version gates, empty); distinct = distinct op lines")
    res = common.correspondence(ctx, pkg=PKG, test="TestVerifC31", name="c31", drivers=[("c31", [], "model")], env=env,
                                trivial=lambda op: False, kind_of=lambda op: " ".join(op.split()[:3]),
                                model_is_spec=False, timeout=6000,
                                what="check/eval outcome (class, error pc, Cost, steps, final stack) of the real evaluator differs from Model.AVM",
                                replay_ops=replay_ops)
    if res is None:
        return
    ops, impl, _ = res
    h = {"pkg": PKG, "test": "TestVerifC31", "name": "c31"}
    monf = os.path.join(ctx.work, "c31.mon")
    mon = ctx.read_lines(monf) if os.path.exists(monf) else []
    if len(mon) != len(ops):
        ctx.tie_failures.append("monitor side file c31.mon has %d lines for %d ops" % (len(mon), len(ops)))
        mon = mon + [""] * (len(ops) - len(mon))
    modelf = os.path.join(ctx.work, "c31.model.out")
    model = ctx.read_lines(modelf) if os.path.exists(modelf) else []
    dist = ctx.cov["distribution"]
    hits = 0
    perkey = {}
    trivial = 0
    mx = {"cost": 0, "steps": 0, "maxstack": 0, "maxbytes": 0}
    for i, (op, r, m) in enumerate(zip(ops, impl, mon)):
        cls = r.split(" ", 1)[0].split("@", 1)[0]
        dist["outcome " + cls] = dist.get("outcome " + cls, 0) + 1
        gk = op.rsplit("#", 1)[-1].split()
        if len(gk) >= 2 and op.startswith("eval "):
            dist["generator " + gk[1]] = dist.get("generator " + gk[1], 0) + 1
        if cls in ("chk=badver", "chk=minver", "chk=empty", "chk=invalidver", "ev=err:badver", "ev=err:minver", "ev=err:empty",
                   "ev=err:invalidver"):
            trivial += 1
        if op.startswith("eval "):
            d, mm = kv(r), kv(m.split("|", 1)[0])
            for k, src in (("cost", d), ("steps", d), ("maxstack", mm), ("maxbytes", mm)):
                try:
                    mx[k] = max(mx[k], int(src.get(k, "0")))
                except ValueError:
                    pass
            if i < len(model) and model[i] == common.SKIP:
                dist["eval lines outside the modelled family (model SKIP)"] = dist.get("eval lines outside the modelled family (model SKIP)", 0) + 1
        hit = monitor(op, r, m)
        if hit:
            # a recovered panic is keyed by the function that raised it (known findings are matched on that)
            key = None
            if "PANIC-recovered" in r and " at " in m:
                key = {"panic_in": m.rsplit(" at ", 1)[1].strip()}
            kk = key["panic_in"] if key else ""
            perkey[kk] = perkey.get(kk, 0) + 1
            if perkey[kk] <= 3 and len(perkey) <= 6:
                # (a known finding with status "known" is printed as KNOWN-FINDING by the framework instead)
                ctx.violation("monitor: " + hit, {"kind": "monitor", "ops": [op], "impl_out": r, "detail": m, "harness": h},
                              found_input=True, match_key=key)
            hits += 1
    shown = sum(min(n, 3) for n in perkey.values())
    if hits > shown:
        ctx.notes.append("%d further monitor hits suppressed" % (hits - shown))
    ctx.cov["distinct_nontrivial"] = max(0, ctx.cov["distinct_nontrivial"] - trivial)
    ctx.cov["observed_maxima"] = mx


def replay(ctx, path):
    common.std_replay(ctx, path, run)
