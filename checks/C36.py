"""C36 — participation keys are forward secure (crypto/onetimesig.go).
Tie C: the real OneTimeSignatureSecrets (real Ed25519 keys, small batch counts / dilutions) against Model.OneTimeSig:
state (FirstBatch, len/nil-ness of Batches, FirstOffset, len(Offsets), OffsetsPK2), Sign+Verify of every identifier of a
window, and the number of retained secrets that can forge for each identifier.
Monitor (implementation alone): after deleteBefore(cur) no identifier < cur yields a verifying signature (neither through
Sign nor from any retained secret), every identifier >= all cur inside the key's range does."""
import glob, os, re
import common, vf

M64 = 1 << 64

def anchors(ctx):
    """Tie F (syntactic): the two facts the round-level theorems take from outside crypto/ —
    OneTimeIDForRound = (round / dilution, round % dilution) and every caller advances with
    DeleteBeforeFineGrained(OneTimeIDForRound(r, keyDilution), keyDilution)."""
    try:
        u = open(os.path.join(vf.REPO, "data/basics/units.go")).read()
    except OSError as ex:
        ctx.tie_failures.append("anchor data/basics/units.go unreadable: %s" % ex)
        return
    m = re.search(r"func OneTimeIDForRound\(round Round, keyDilution uint64\) crypto\.OneTimeSignatureIdentifier \{(.*?)\n\}", u, re.S)
    body = re.sub(r"\s+", " ", m.group(1)).strip() if m else None
    want = "return crypto.OneTimeSignatureIdentifier{ Batch: uint64(round) / keyDilution, Offset: uint64(round) % keyDilution, }"
    if body != want:
        ctx.tie_failures.append("OneTimeIDForRound no longer has the modelled body (Model.OneTimeSig.idForRound): %r" % (body,))
    calls = 0
    for f in sorted(glob.glob(os.path.join(vf.REPO, "data/account/*.go"))):
        if f.endswith("_test.go"):
            continue
        for line in open(f).read().splitlines():
            if "DeleteBeforeFineGrained(" in line:
                calls += 1
                if not re.search(r"\.Voting\.DeleteBeforeFineGrained\(basics\.OneTimeIDForRound\(\w+, keyDilution\), keyDilution\)\s*$", line):
                    ctx.tie_failures.append("caller of DeleteBeforeFineGrained not of the modelled form (advanceOps) in %s: %s" % (os.path.basename(f), line.strip()))
    if calls == 0:
        ctx.tie_failures.append("no caller of DeleteBeforeFineGrained found in data/account")
    ctx.cov["distribution"]["anchor:callers-of-DeleteBeforeFineGrained"] = calls

def parse(op):
    f = op.split()
    if len(f) < 7 or f[0] != "case":
        return None
    try:
        start, n, wb0, wb1, wo = (int(x) for x in f[1:6])
        ops = [tuple(int(y) for y in t.split(":")) for t in f[7:]]
    except ValueError:
        return None
    if any(len(o) != 3 for o in ops):
        return None
    return start, n, wb0, wb1, wo, f[6] == "1", ops

def in_scope(start, n, ops):
    # hypotheses of the theorems: no uint64 wrap of batch numbers (batch 2^64-1 needs round >= (2^64-1)*dilution)
    return start + n < M64 and all(b + 1 < M64 for b, _, _ in ops)

def monitor(op, res):
    p = parse(op)
    if p is None:
        return None
    start, n, wb0, wb1, wo, adv, ops = p
    if res.startswith("PANIC"):
        return "panic in the one-time-signature code: " + res[:200]
    r = res.split()
    if len(r) != 8:
        return "malformed harness result"
    win, advs = r[6].split("/"), r[7].split("/")
    if not in_scope(start, n, ops):
        return None
    for bi, b in enumerate(range(wb0, wb1 + 1)):
        for o in range(wo + 1):
            tok = win[bi][o]
            if tok == "w":
                return "the zero OneTimeSignature verifies for id (%d,%d)" % (b, o)
            past = [c for c in ops if (b, o) < (c[0], c[1])]
            if past:
                if tok in "ob":
                    return "id (%d,%d) is earlier than deleteBefore(%d,%d) but Sign still yields a signature that verifies" % (b, o, past[0][0], past[0][1])
                if adv and advs[bi][o] != "0":
                    return "id (%d,%d) is earlier than deleteBefore(%d,%d) but %s retained secret(s) still produce a verifying signature for it" % (b, o, past[0][0], past[0][1], advs[bi][o])
            elif start <= b < start + n and all(o < nk for _, _, nk in ops):
                if tok not in "ob":
                    return "id (%d,%d) is not earlier than any deleteBefore and inside the key's range, but Sign/Verify gives '%s'" % (b, o, tok)
    return None

def trivial(op):
    p = parse(op)
    if p is None:
        return True
    start, n, _, _, _, _, ops = p
    return n == 0 or all(b < start for b, _, _ in ops)

def kind_of(op):
    p = parse(op)
    return "malformed" if p is None else "seq-len-%d" % min(len(p[6]), 9)

def run(ctx, replay_ops=None):
    ctx.overlay()
    ctx.assumptions += [
        "Ed25519 is ideal/symbolic: a signature is the pair (signer, message), Verify accepts exactly genuine signatures, the three Hashable kinds are domain separated; key generation yields keys nobody else holds",
        "no uint64 wrap of batch numbers: startBatch+numBatches < 2^64 and current.Batch+1 < 2^64 for every deleteBefore (hypotheses of the theorems; the wrap behaviour itself is modelled and tied, see wrap_is_noop)",
        "zeroisation of freed Go memory is out of scope (the code carries a TODO: slices are re-sliced, old backing arrays are left to the GC)",
        "the master secret is discarded at the end of GenerateOneTimeSignatureSecretsRNG (never stored in the struct)",
    ]
    anchors(ctx)
    proved = ctx.prove(["AlgoVerif.Props.C36"])
    ok, out = ctx.lean_build(["c36"])
    if not ok:
        raise RuntimeError("driver c36 does not build: " + out[-800:])
    env = {}
    if not proved:
        env["VERIF_BUDGET_SCALE"] = "1000" if ctx.tier == "quick" else "300"
    ctx.cov["rule"] = ("one case = key generation (start, numBatches) + a sequence of DeleteBeforeFineGrained(id, numKeys) calls, every identifier of a "
                       "window signed+verified after every call; quick: ALL sequences of length <=5 over the 12-op alphabet of 3 batches x dilution 3 "
                       "(1 id before, 9 inside, 2 after the range) and of 2 batches x dilution 2, thorough: length <=6; plus seeded random sequences "
                       "(length <=9, 0-5 batches, dilution 1-4, monotone and arbitrary, offsets >= dilution, varying numKeys) and directed uint64-wrap cases; "
                       "in the exhaustive part, below depth 3 (quick) / 4 (thorough) a node whose retained key material is byte-identical to its parent's (no-op deletion) "
                       "reuses the parent's Sign/Verify window instead of signing again, and the forging adversary (every retained secret tried on every identifier) runs "
                       "only above that depth and in all random/directed cases; trivial = no batches or every op before the key's range; distinct = distinct op lines")
    res = common.correspondence(ctx, pkg="./crypto", test="TestVerifC36", name="c36", drivers=[("c36", [], "model")],
                                trivial=trivial, kind_of=kind_of, env=env, timeout=3400 if ctx.tier == "thorough" else 1500,
                                model_is_spec=False, monitor=monitor,
                                what="real OneTimeSignatureSecrets state / Sign+Verify outcome differs from Model.OneTimeSig", replay_ops=replay_ops)
    if res:
        ops, impl, _ = res
        d = ctx.cov["distribution"]
        for op, r in zip(ops, impl):
            f = r.split()
            if len(f) != 8:
                d["result:other"] = d.get("result:other", 0) + 1
                continue
            k = ("offsets-expanded" if f[4] != "0" else "no-offsets") + ("+batches" if f[1] != "0" else ("+batches-empty" if f[2] == "1" else "+batches-nil"))
            d["state:" + k] = d.get("state:" + k, 0) + 1
            if f[7] != "-":
                d["adversary-run"] = d.get("adversary-run", 0) + 1

def replay(ctx, path):
    common.std_replay(ctx, path, run)
