"""C36 — participation keys are forward secure (crypto/onetimesig.go).
Tie C: the real OneTimeSignatureSecrets (real Ed25519 keys, small batch counts / dilutions) against Model.OneTimeSig:
state (FirstBatch, len/nil-ness of Batches, FirstOffset, len(Offsets), OffsetsPK2), Sign+Verify of every identifier of a
window, and the number of retained secrets that can forge for each identifier.
Monitor (implementation alone): after deleteBefore(cur) no identifier < cur yields a verifying signature (neither through
Sign nor from any retained secret), every identifier >= all cur inside the key's range does."""
import glob, os, re
import common, vf

M64 = 1 << 64

def anchors(ctx):
    """Tie F (syntactic): the two facts the round-level theorems take from outside crypto/ —
    OneTimeIDForRound = (round / dilution, round % dilution) and every caller advances with
    DeleteBeforeFineGrained(OneTimeIDForRound(r, keyDilution), keyDilution)."""
    try:
        u = open(os.path.join(vf.REPO, "data/basics/units.go")).read()
    except OSError as ex:
        ctx.tie_failures.append("anchor data/basics/units.go unreadable: %s" % ex)
        return
    m = re.search(r"func OneTimeIDForRound\(round Round, keyDilution uint64\) crypto\.OneTimeSignatureIdentifier \{(.*?)\n\}", u, re.S)
    body = re.sub(r"\s+", " ", m.group(1)).strip() if m else None
    want = "return crypto.OneTimeSignatureIdentifier{ Batch: uint64(round) / keyDilution, Offset: uint64(round) % keyDilution, }"
    if body != want:
        ctx.tie_failures.append("OneTimeIDForRound no longer has the modelled body (Model.OneTimeSig.idForRound): %r" % (body,))
    calls = 0
    for f in sorted(glob.glob(os.path.join(vf.REPO, "data/account/*.go"))):
        if f.endswith("_test.go"):
            continue
        for line in open(f).read().splitlines():
            if "DeleteBeforeFineGrained(" in line:
                calls += 1
                if not re.search(r"\.Voting\.DeleteBeforeFineGrained\(basics\.OneTimeIDForRound\(\w+, keyDilution\), keyDilution\)\s*$", line):
                    ctx.tie_failures.append("caller of DeleteBeforeFineGrained not of the modelled form (advanceOps) in %s: %s" % (os.path.basename(f), line.strip()))
    if calls == 0:
        ctx.tie_failures.append("no caller of DeleteBeforeFineGrained found in data/account")
    ctx.cov["distribution"]["anchor:callers-of-DeleteBeforeFineGrained"] = calls

def parse(op):
    f = op.split()
    if len(f) < 7 or f[0] != "case":
        return None
    try:
        start, n, wb0, wb1, wo = (int(x) for x in f[1:6])
        ops = [tuple(int(y) for y in t.split(":")) for t in f[7:]]
    except ValueError:
        return None
    if any(len(o) != 3 for o in ops):
        return None
    return start, n, wb0, wb1, wo, f[6] == "1", ops

def in_scope(start, n, ops):
    # hypotheses of the theorems: no uint64 wrap of batch numbers (batch 2^64-1 needs round >= (2^64-1)*dilution)
    return start + n < M64 and all(b + 1 < M64 for b, _, _ in ops)

def monitor(op, res):
    p = parse(op)
    if p is None:
        return None
    start, n, wb0, wb1, wo, adv, ops = p
    if res.startswith("PANIC"):
        return "panic in the one-time-signature code: " + res[:200]
    r = res.split()
    if len(r) != 8:
        return "malformed harness result"
    win, advs = r[6].split("/"), r[7].split("/")
    if not in_scope(start, n, ops):
        return None
    for bi, b in enumerate(range(wb0, wb1 + 1)):
        for o in range(wo + 1):
            tok = win[bi][o]
            if tok == "w":
                return "the zero OneTimeSignature verifies for id (%d,%d)" % (b, o)
            past = [c for c in ops if (b, o) < (c[0], c[1])]
            if past:
                if tok in "ob":
                    return "id (%d,%d) is earlier than deleteBefore(%d,%d) but Sign still yields a signature that verifies" % (b, o, past[0][0], past[0][1])
                if adv and advs[bi][o] != "0":
                    return "id (%d,%d) is earlier than deleteBefore(%d,%d) but %s retained secret(s) still produce a verifying signature for it" % (b, o, past[0][0], past[0][1], advs[bi][o])
            elif start <= b < start + n and all(o < nk for _, _, nk in ops):
                if tok not in "ob":
                    return "id (%d,%d) is not earlier than any deleteBefore and inside the key's range, but Sign/Verify gives '%s'" % (b, o, tok)
    return None

def parse_p(op):
    f = op.split()
    if len(f) < 6 or f[0] != "pcase":
        return None
    try:
        fv, lv, dil, wr0, wr1 = (int(x) for x in f[1:6])
        steps = [("R", None) if t == "R" else ("a", int(t[1:])) for t in f[6:] if t == "R" or t[0] == "a"]
    except ValueError:
        return None
    if len(steps) != len(f) - 6 or dil == 0:
        return None
    return fv, lv, dil, wr0, wr1, steps

def monitor_p(op, res):
    """persistence layer, implementation alone: after DeleteOldKeys(r) was acknowledged neither the running secrets nor
    the ones a restart loads from the part-key DB give a verifying signature for a round < r; both sign every later
    round of the validity range; both sign the same set."""
    p = parse_p(op)
    if p is None:
        return None
    fv, lv, dil, wr0, wr1, steps = p
    if res.startswith("PANIC"):
        return "panic: " + res[:200]
    parts = res.split(" | ")
    if len(parts) != 2 or any(len(x.split()) != 6 for x in parts):
        return None          # ERR … lines: not a property verdict (they still mismatch the model)
    if lv + 1 >= M64:
        return None
    advs = [r for k, r in steps if k == "a"]
    wins = (("in-memory", parts[0].split()[5]), ("restored-after-restart", parts[1].split()[5]))
    for i, r in enumerate(range(wr0, wr1 + 1)):
        for who, w in wins:
            if i >= len(w):
                return "malformed window"
            tok = w[i]
            if tok == "w":
                return "%s secrets: the zero signature verifies for round %d" % (who, r)
            past = [a for a in advs if r < a]
            if past:
                if tok in "ob":
                    return "%s secrets still produce a verifying signature for round %d although DeleteOldKeys(%d) was acknowledged" % (who, r, past[0])
            elif fv <= r <= lv and tok not in "ob":
                return "%s secrets cannot sign round %d (valid range %d..%d, no advance beyond it): '%s'" % (who, r, fv, lv, tok)
    if wins[0][1] != wins[1][1]:
        return "restored secrets sign a different set of rounds than the in-memory ones: %s vs %s" % (wins[1][1], wins[0][1])
    return None

def trivial_p(op):
    p = parse_p(op)
    return p is None or all(k == "R" for k, _ in p[5])

def kind_p(op):
    p = parse_p(op)
    if p is None:
        return "malformed"
    return "persist-len-%d%s" % (min(len(p[5]), 9), "+restart" if any(k == "R" for k, _ in p[5]) else "")

def trivial(op):
    p = parse(op)
    if p is None:
        return True
    start, n, _, _, _, _, ops = p
    return n == 0 or all(b < start for b, _, _ in ops)

def kind_of(op):
    p = parse(op)
    return "malformed" if p is None else "seq-len-%d" % min(len(p[6]), 9)

def run(ctx, replay_ops=None):
    ctx.overlay()
    ctx.assumptions += [
        "Ed25519 is ideal/symbolic: a signature is the pair (signer, message), Verify accepts exactly genuine signatures, the three Hashable kinds are domain separated; key generation yields keys nobody else holds",
        "no uint64 wrap of batch numbers: startBatch+numBatches < 2^64 and current.Batch+1 < 2^64 for every deleteBefore (hypotheses of the theorems; the wrap behaviour itself is modelled and tied, see wrap_is_noop)",
        "zeroisation of freed Go memory is out of scope (the code carries a TODO: slices are re-sliced, old backing arrays are left to the GC)",
        "the master secret is discarded at the end of GenerateOneTimeSignatureSecretsRNG (never stored in the struct)",
        "persistence: only ACKNOWLEDGED advances are in scope (DeleteOldKeys' channel has yielded nil); a crash between the in-memory deletion and the DB commit leaves the older secrets on disk by design; old sqlite pages / WAL contents are out of scope like freed memory",
    ]
    anchors(ctx)
    proved = ctx.prove(["AlgoVerif.Props.C36"])
    ok, out = ctx.lean_build(["c36"])
    if not ok:
        raise RuntimeError("driver c36 does not build: " + out[-800:])
    env = {}
    if not proved:
        env["VERIF_BUDGET_SCALE"] = "1000" if ctx.tier == "quick" else "300"
    ctx.cov["rule"] = ("one case = key generation (start, numBatches) + a sequence of DeleteBeforeFineGrained(id, numKeys) calls, every identifier of a "
                       "window signed+verified after every call; quick: ALL sequences of length <=5 over the 12-op alphabet of 3 batches x dilution 3 "
                       "(1 id before, 9 inside, 2 after the range) and of 2 batches x dilution 2, thorough: length <=6; plus seeded random sequences "
                       "(length <=9, 0-5 batches, dilution 1-4, monotone and arbitrary, offsets >= dilution, varying numKeys) and directed uint64-wrap cases; "
                       "in the exhaustive part, below depth 3 (quick) / 4 (thorough) a node whose retained key material is byte-identical to its parent's (no-op deletion) "
                       "reuses the parent's Sign/Verify window instead of signing again, and the forging adversary (every retained secret tried on every identifier) runs "
                       "only above that depth and in all random/directed cases; trivial = no batches or every op before the key's range; distinct = distinct op lines")
    rp_core = rp_persist = None
    if replay_ops is not None:
        rp_persist = [o for o in replay_ops if o.startswith("pcase")]
        rp_core = [o for o in replay_ops if not o.startswith("pcase")]
    run_core = replay_ops is None or bool(rp_core)
    run_persist = replay_ops is None or bool(rp_persist)
    if run_persist:
        ctx.cov["rule"] += ("; persistence layer: real PersistedParticipation on a sqlite file in a temp dir, histories of acknowledged DeleteOldKeys(r) and "
                            "restarts (accessor reopened + RestoreParticipation), ALL histories of length <=3 (quick) / <=4 (thorough) over 12 advance targets + "
                            "restart for 3 batches x dilution 3 and over 7+restart for 3 batches x dilution 2, round-by-round advance with restarts, seeded random "
                            "histories; after each history every round of a window is signed+verified with the running AND with freshly restored secrets")
        common.correspondence(ctx, pkg="./data/account", test="TestVerifC36Persist", name="c36p", drivers=[("c36", [], "model")],
                              trivial=trivial_p, kind_of=kind_p, env=env, timeout=3000 if ctx.tier == "thorough" else 1500,
                              model_is_spec=False, monitor=monitor_p,
                              what="real PersistedParticipation (in-memory / restored secrets) differs from the node model (disk := mem at the acknowledged point, restart: mem := disk)",
                              replay_ops=rp_persist)
    if not run_core:
        return
    replay_ops = rp_core
    res = common.correspondence(ctx, pkg="./crypto", test="TestVerifC36", name="c36", drivers=[("c36", [], "model")],
                                trivial=trivial, kind_of=kind_of, env=env, timeout=3400 if ctx.tier == "thorough" else 1500,
                                model_is_spec=False, monitor=monitor,
                                what="real OneTimeSignatureSecrets state / Sign+Verify outcome differs from Model.OneTimeSig", replay_ops=replay_ops)
    if res:
        ops, impl, _ = res
        d = ctx.cov["distribution"]
        for op, r in zip(ops, impl):
            f = r.split()
            if len(f) != 8:
                d["result:other"] = d.get("result:other", 0) + 1
                continue
            k = ("offsets-expanded" if f[4] != "0" else "no-offsets") + ("+batches" if f[1] != "0" else ("+batches-empty" if f[2] == "1" else "+batches-nil"))
            d["state:" + k] = d.get("state:" + k, 0) + 1
            if f[7] != "-":
                d["adversary-run"] = d.get("adversary-run", 0) + 1

def replay(ctx, path):
    common.std_replay(ctx, path, run)
