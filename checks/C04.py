"""C04 — bundles and certificates are accepted only if they prove a quorum.
Ties: T (go2lean → Gen/BundleSteps.lean: step.threshold / step.reachesQuorum / ParamsRound) + C (the real
unauthenticatedBundle.verify with a real AsyncVoteVerifier, Certificate.Authenticate, unauthenticatedVote.verify and
unauthenticatedEquivocationVote.verify on objects built with real keys, against Model.Bundle deciding from the ground truth of how
every vote was made), plus an independent monitor on the implementation's verdicts alone."""
import os, random
import common

STEP_IDX = {1: 0, 2: 1, 253: 3, 254: 4, 255: 5}
BOTTOM = ("0", "0", "0.0", "0.0")


# ----------------------------------------------------------------------------- ground truth, re-derived independently of the Lean model
def threshold(thr, s):
    return 0 if s == 0 else thr[STEP_IDX.get(s, 2)]


def raw_ok(sender, r, p, s, prop, win, cred, sig):
    """weight with which a vote built as described by its tokens is a valid vote of `sender` for (r, p, s, prop); 0 = not valid.
    cred = [key, flip, r, p, s, w]; sig = [key, flip, sender, r, p, s, op, oprop, dig, enc] (strings)."""
    fv, lv = win
    if s == 0:
        if str(p) == prop[0] and str(sender) != prop[1]:
            return 0
        if int(prop[0]) > p:
            return 0
    if s in (0, 1, 2) and tuple(prop) == BOTTOM:
        return 0
    if r < fv or (lv != 0 and r > lv):
        return 0
    if sig[1] != "0" or int(sig[0]) != sender or [int(x) for x in sig[2:6]] != [sender, r, p, s] or tuple(sig[6:10]) != tuple(prop):
        return 0
    if cred[1] != "0" or int(cred[0]) != sender or [int(x) for x in cred[2:5]] != [r, p, s]:
        return 0
    return int(cred[5])


def parse_bundle(f):
    thr = [int(x) for x in f[1].split("/")]
    perr = f[2] == "1"
    r, p, s = int(f[3]), int(f[4]), int(f[5])
    prop = f[6].split("/")
    votes = [] if f[7] == "-" else [t.split(";") for t in f[7].split(",")]
    eqs = [] if f[8] == "-" else [t.split(";") for t in f[8].split(",")]
    return thr, perr, r, p, s, prop, votes, eqs


def quorum_weight(f):
    """total weight of the DISTINCT senders for which the bundle carries a valid vote for (round, period, step, value) or a valid
    equivocation pair — what the bundle really proves, whatever else it contains"""
    thr, perr, r, p, s, prop, votes, eqs = parse_bundle(f)
    if perr:
        return 0, thr, s
    windows = {}
    for t in votes + eqs:
        windows.setdefault(int(t[0]), (int(t[1]), int(t[2])))
    best = {}
    for t in votes:
        snd = int(t[0])
        w = raw_ok(snd, r, p, s, prop, windows[snd], t[3].split("/"), t[4].split("/"))
        if w > 0:
            best[snd] = w
    for t in eqs:
        snd = int(t[0])
        p0, p1 = t[4].split("/"), t[5].split("/")
        if p0 == p1:
            continue
        w0 = raw_ok(snd, r, p, s, p0, windows[snd], t[3].split("/"), t[6].split("/"))
        w1 = raw_ok(snd, r, p, s, p1, windows[snd], t[3].split("/"), t[7].split("/"))
        if w0 > 0 and w1 > 0:
            best[snd] = w0
    return sum(best.values()), thr, s


def monitor(op, out):
    """the property on the implementation's verdict alone: an ACCEPTED bundle / certificate / vote really proves what it claims"""
    f = op.split()
    if not out.startswith("accept") and not (f[0] in ("vote", "eqvote") and out[:1].isdigit()):
        return None
    if f[0] in ("bundle", "cert"):
        w, thr, s = quorum_weight(f)
        T = threshold(thr, s)
        if s == 0:
            return "a propose-step bundle was accepted"
        if w < T:
            return "accepted although the distinct valid voters weigh %d < threshold %d" % (w, T)
        if f[0] == "cert":
            if s != 2:
                return "certificate of step %d accepted" % s
            if f[3] != f[9]:
                return "certificate for round %s accepted for a block of round %s" % (f[3], f[9])
            if f[6].split("/")[2] != "%s.%s" % (f[9], f[10]):
                return "certificate for digest %s accepted for block %s.%s" % (f[6].split("/")[2], f[9], f[10])
        elif out.split()[1:2] and out.split()[1].isdigit() and int(out.split()[1]) < T:
            return "accepted bundle reports weight %s < threshold %d" % (out.split()[1], T)
        return None
    if f[0] == "vote":
        snd, r, p, s = int(f[2]), int(f[5]), int(f[6]), int(f[7])
        w = 0 if f[1] == "1" else raw_ok(snd, r, p, s, f[8].split("/"), (int(f[3]), int(f[4])), f[9].split("/"), f[10].split("/"))
        if w == 0 or str(w) != out.split()[0]:
            return "vote accepted with weight %s; as built it is worth %d" % (out, w)
        return None
    if f[0] == "eqvote":
        snd, r, p, s = int(f[2]), int(f[5]), int(f[6]), int(f[7])
        win = (int(f[3]), int(f[4]))
        p0, p1 = f[9].split("/"), f[10].split("/")
        w0 = 0 if f[1] == "1" else raw_ok(snd, r, p, s, p0, win, f[8].split("/"), f[11].split("/"))
        w1 = 0 if f[1] == "1" else raw_ok(snd, r, p, s, p1, win, f[8].split("/"), f[12].split("/"))
        if p0 == p1 or w0 == 0 or w1 == 0:
            return "equivocation pair accepted: identical=%s, first worth %d, second worth %d" % (p0 == p1, w0, w1)
        return None
    return None


def verdict(line):
    """the part of an output line the iff theorems pin: accept (with the weight) or reject"""
    return "reject" if line.startswith("reject") else line


def kind_of(op, out):
    f = op.split(" ", 1)[0]
    if out.startswith("reject"):
        return f + ":" + out
    if out.startswith("accept") or out[:1].isdigit():
        return f + ":accept"
    return f + ":" + out.split(" ", 1)[0]


def nontrivial(op):
    f = op.split()
    if f[0] in ("bundle", "cert"):
        return (0 if f[7] == "-" else f[7].count(",") + 1) + (0 if f[8] == "-" else f[8].count(",") + 1) >= 2
    return f[0] in ("vote", "eqvote")


def run(ctx, replay_ops=None):
    ctx.overlay()
    ctx.assumptions += [
        "ideal one-time signatures: VoteID.Verify succeeds only for the untouched signature made with the sender's own voting key on exactly the raw vote (sender, round, period, step, value) under verification (hypothesis IdealSig of the mutation lemmas; realised by the token instance the driver uses)",
        "ideal VRF / sortition: Cred.Verify succeeds only for the untouched proof made with the sender's own selection key for the selector of exactly (round, period, step), and then returns the weight recorded in the op (computed by the harness with committee.Credential.Verify on the honestly built credential; sortition itself is not verified here)",
        "SHA-512/256 block digests of distinct (round, branch) headers are distinct and differ from the small literal digests (digest ids are injective)",
        "uint64 weight sums do not wrap: the total is bounded by the committee weight ≤ total online stake < 2^64 (model uses Nat)",
        "verifyAsync reads results in completion order; the verdict is order-independent (any error rejects, the weight is a commutative sum), the model reads in list order; ctx is never cancelled",
        "the ledger is a parameter: ConsensusParams(ParamsRound(r)) and membership(sender, round, period, step) are functions given to the model (the harness ledger answers consistently for all workers)",
    ]
    ok_gen, _ = ctx.go2lean(["BundleSteps"])
    proved = ok_gen and ctx.prove(["AlgoVerif.Props.C04"])
    ok, out = ctx.lean_build(["c04"])
    if not ok:
        raise RuntimeError("driver c04 does not build: " + out[-800:])
    env = {}
    if not proved:
        env["VERIF_BUDGET_SCALE"] = "1000" if ctx.tier == "quick" else "300"
    name, pkg, test = "c04", "./agreement", "TestVerifC04"
    if replay_ops is not None:
        rp = os.path.join(ctx.work, name + ".replay")
        open(rp, "w").write("\n".join(replay_ops) + "\n")
        env["VERIF_REPLAY"] = rp
    ctx.cov["rule"] = ("an op = one bundle / certificate / vote / equivocation pair described by tokens (who signed which raw vote, who proved which selector, flipped bits, "
                       "validity windows, thresholds) and built with real keys: directed scenarios per step kind (at / ±1 around the threshold, duplicate voter with and without "
                       "spare weight, voter also equivocator, dropped votes just below / at, count bound nv+ne > T with sufficient weight, identical equivocation pair with valid "
                       "signatures, invalid vote on top of a quorum, header round / period / step / digest / ⊥ changed under untouched votes, wrong block for a certificate, "
                       "key windows); every subset of the selected accounts among the first 6 (quick) / 8 (thorough, 6 step kinds) against thresholds fixed by the full set; "
                       "random honest bundles of 0–12 senders with 0–2 equivocators over 12 rounds × 3 periods × 15 steps, thresholds at W, W±1, W−min+1, the count bounds, "
                       "random, then one of 31 mutations (35% none, 8% two); single votes over all step kinds incl. propose (sender / original period rules, ⊥ rules, windows, "
                       "signature / credential for another vote) and equivocation pairs; non-trivial = ≥ 2 authenticators or a single-vote op; distinct = distinct op lines")
    rc, out = ctx.go_test(pkg, test, env=env, timeout=3000)
    opsf, implf = os.path.join(ctx.work, name + ".ops"), os.path.join(ctx.work, name + ".impl")
    if rc != 0 or not os.path.exists(opsf):
        ctx.tie_failures.append("harness %s %s failed to run (rc=%d): %s" % (pkg, test, rc, out[-600:]))
        return
    ops, impl = ctx.read_lines(opsf), ctx.read_lines(implf)
    mf = os.path.join(ctx.work, name + ".model.out")
    drc = ctx.driver("c04", [], opsf, mf)
    model = ctx.read_lines(mf) if drc == 0 else []
    if drc != 0:
        ctx.tie_failures.append("driver c04 failed rc=%d" % drc)
    hz = {"pkg": pkg, "test": test, "name": name}

    # coverage
    dist = ctx.cov["distribution"]
    seen = set()
    for o, a in zip(ops, impl):
        k = kind_of(o, a)
        dist[k] = dist.get(k, 0) + 1
        if nontrivial(o):
            seen.add(o)
    ctx.cov["evaluations"] += len(ops)
    ctx.cov["distinct_nontrivial"] += len(seen)
    rnd = random.Random(ctx.seed)
    for i in rnd.sample(range(len(ops)), min(6, len(ops))):
        ctx.cov["samples"].append((ops[i] + "  =>  " + impl[i])[:400])

    # 1. correspondence.  bundle_accept_iff / cert_accept_iff / vote_accept_iff pin the verdict (and the weight) uniquely, so a
    #    different verdict IS a violation on that input.  A different rejection class with the same verdict only breaks the tie.
    reported = 0
    class_only = 0
    if model:
        bad = ctx.compare(ops, impl, model, "model")
        # verdict mismatches on which the monitor also fires come first
        bad.sort(key=lambda t: (0 if verdict(t[2]) != verdict(t[3]) and monitor(t[1], t[2]) else 1 if verdict(t[2]) != verdict(t[3]) else 2, t[0]))
        for (i, op, a, b) in bad:
            if verdict(a) == verdict(b):
                class_only += 1
                if class_only == 1:
                    ctx.tie_failures.append("rejection class differs from the model (same verdict) at op %d `%s`: impl `%s` vs model `%s`" % (i, op[:200], a, b))
                continue
            reported += 1
            if reported > 5:
                continue
            hit = monitor(op, a)
            ctx.violation("verdict differs from the proved model: impl `%s` vs model `%s`%s" % (a[:120], b[:120], (" — monitor: " + hit) if hit else ""),
                          {"kind": "correspondence", "driver": "model", "ops": [op], "index": i, "impl_out": a, "model_out": b, "harness": hz}, found_input=True)
        if reported > 5:
            ctx.notes.append("%d verdict mismatches vs model in total" % reported)
        if class_only:
            ctx.notes.append("%d ops with the same verdict but another rejection class" % class_only)

    # 2. the property monitor on the implementation's verdicts alone
    hits = 0
    for o, a in zip(ops, impl):
        if a.startswith("PANIC") or a.startswith("bad-op") or "other:" in a or "BADLEN" in a or "CHANGED" in a:
            hits += 1
            if hits <= 3:
                ctx.violation("unexpected implementation outcome `%s`" % a[:200], {"kind": "monitor", "ops": [o], "impl_out": a, "harness": hz}, found_input=True)
            continue
        hit = monitor(o, a)
        if hit:
            hits += 1
            if hits <= 3:
                ctx.violation("monitor: " + hit, {"kind": "monitor", "ops": [o], "impl_out": a, "harness": hz}, found_input=True)
    dist["monitor:accepted_checked"] = sum(1 for o, a in zip(ops, impl) if a.startswith("accept") or a[:1].isdigit())


def replay(ctx, path):
    common.std_replay(ctx, path, run)
