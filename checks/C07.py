"""C07 — persisted consensus state restores exactly.
Proof: Props.C07 (decode_encode on the modelled disk schema; restore_bisim — full — over PlayerM: every continuation yields the same
actions from persistView σ as from σ up to late-credential noise).  Tie C + monitor on the REAL code
(PlayerDrive `persist` ops): at random reachable states the harness calls the real encode (msgp or reflect) and decode, prints the
canonical dump of the decoded (actions, player, router) — compared with (a) the live state restricted to what encode writes
(dump equality, harness-side: `PERSIST-DIFF`), (b) PlayerM's persistView — and from then on feeds every event to BOTH the live and
the restored real router; their outputs are diffed here (implementation self-bisimulation) and each against PlayerM."""
import re
import common, player_common as pc

NOISE_PV = re.compile(r"^(ignore|relayVote \d+\.\d+\.0\.\d+\.\d+)$")
STRONG = ("attest", "ensure", "stageDigest", "assemble", "repropose", "rezero", "bcastBundle", "bcastCompound", "bcastVotes",
          "checkpoint", "relayBundle", "verifyBundle")
PLAYER = re.compile(r"R=(\d+) P=(\d+) S=(\d+) LC=(\d+) D=(\S+) N=(\d) F=(\d+) PN=(\d+) PD=\[(.*)\]")


def split_out(part):
    """'<acts> | <player>' -> ([acts], player string) ; PANIC / DEAD -> (None, part)"""
    if " | " not in part:
        return None, part
    acts, pl = part.split(" | ", 1)
    return ([] if acts == "none" else acts.split("; ")), pl


def strong(acts):
    out = []
    for a in acts:
        t = a.split(" ")[0]
        if t in STRONG:
            out.append(a)
        elif t == "relayVote" and a.split(" ")[1].split(".")[2] != "0":
            out.append(a)
    return out


def bisim_case(case):
    """case: list of (op, impl line).  Returns (index, message) of the first live/restored divergence, or None.
    Until a proposal-vote of an OLD round (round < player round) arrives the two machines must agree on every action and every
    player field, except that a proposal-vote may be answered `ignore` by one and `relayVote` by the other (late-credential
    tracking state — proposalSeeker.lowestIncludingLate — is deliberately not persisted).  Old rounds (< player.Round) are
    deliberately not persisted either (persistence.go: encode), so after such a vote the restored node may verify / relay where the
    live one filters a duplicate, and its Pending table may differ: from then on the comparison is on the protocol-relevant actions
    (attest, ensure, stageDigest, assemble, repropose, rezero, broadcasts, bundle relays, non-proposal vote relays, checkpoint) and on
    Round, Period, Step, LastConcluding, Deadline, Napping, FastRecoveryDeadline."""
    cur_round = None
    tainted = False
    have_shadow = False
    for idx, (op, a) in enumerate(case):
        f = op.split()
        if f[0] == "reset":
            cur_round = int(f[15]); tainted = False; have_shadow = False
            continue
        if f[0] == "persist":
            have_shadow = not a.startswith(("DEAD", "PANIC", "PERSIST-DIFF decode"))
            tainted = False
            continue
        if f[0] == "dump":
            continue
        live, sh = pc.live_part(a), pc.shadow_part(a)
        la, lp = split_out(live)
        if f[0] == "pv" and cur_round is not None and int(f[4]) < cur_round:
            tainted = True
        m = PLAYER.search(lp) if la is not None else None
        if m:
            cur_round = int(m.group(1))
        if not have_shadow or sh is None or sh == "-":
            continue
        sa, sp = split_out(sh)
        if la is None or sa is None:
            if live != sh:
                return idx, "live `%s` but restored `%s`" % (live[:120], sh[:120])
            if la is None:
                have_shadow = False
            continue
        ml, ms = PLAYER.search(lp), PLAYER.search(sp)
        if not ml or not ms:
            return idx, "unparsable player"
        if tainted:
            if strong(la) != strong(sa):
                return idx, "protocol actions differ after restore: live %s vs restored %s" % (strong(la), strong(sa))
            if ml.groups()[:7] != ms.groups()[:7]:
                return idx, "player differs after restore: live `%s` vs restored `%s`" % (lp[:160], sp[:160])
        else:
            if len(la) != len(sa):
                return idx, "action lists differ after restore: live %s vs restored %s" % (la, sa)
            for x, y in zip(la, sa):
                if x != y and not (f[0] == "pv" and NOISE_PV.match(x) and NOISE_PV.match(y)):
                    return idx, "action differs after restore: live `%s` vs restored `%s`" % (x[:200], y[:200])
            if lp != sp:
                return idx, "player differs after restore: live `%s` vs restored `%s`" % (lp[:200], sp[:200])
    return None


def run(ctx, replay_ops=None):
    ctx.overlay()
    ctx.assumptions += pc.ASSUME + [
        "deliberately NOT persisted (persistence.go / unexported fields) and therefore outside the restored-equals-live claim: router state of rounds < player.Round "
        "(kept in memory only for late-credential tracking), proposalSeeker.lowestIncludingLate / hasLowestIncludingLate, player.lowestCredentialArrivals and "
        "dynamicFilterTimeout, validatedAt / receivedAt timestamps, message handles. Their only effect on actions: a proposal-vote may be relayed instead of ignored "
        "(or re-verified instead of filtered as a duplicate, for votes of rounds < player.Round) and the Pending table may then differ; no attest / ensure / period or "
        "round change depends on them (restore_bisim)",
        "the model's disk schema serialises Go maps in the model's association-list order; the real encoders sort keys (canonical msgpack, C40) — unobservable to the state machine; "
        "the generated msgp code itself is tied by sampling here (every persist op round-trips through the real encode / decode, both msgp and reflect variants)",
        "the persisted action list: the service persists only action lists containing an attest; PlayerDrive persists after arbitrary events but passes NO actions when the list "
        "holds a stageDigest action (decode's zeroAction has no case for it and panics; the service never writes such a list)",
    ]
    proved = ctx.prove(["AlgoVerif.Props.C07"])
    ok, out = ctx.lean_build([pc.EXE])
    if not ok:
        raise RuntimeError("driver does not build: " + out[-800:])
    env = {} if proved else {"VERIF_BUDGET_SCALE": "600"}
    ctx.cov["rule"] = pc.RULE
    res = pc.drive(ctx, replay_ops, env=env)
    if res is None:
        return
    ops, impl, model = res
    cases = pc.account(ctx, ops, impl)
    dist = ctx.cov["distribution"]

    # 1. monitors on the implementation alone: dump equality at every persist, live-vs-restored self-bisimulation afterwards
    hits = 0
    n_persist = n_shadow = 0
    for start, c in cases:
        for idx, (o, a) in enumerate(c):
            if o.startswith("persist"):
                n_persist += 1
                if a.startswith("PERSIST-DIFF") or a.startswith("PANIC"):
                    hits += 1
                    if hits <= 3:
                        ctx.violation("monitor: decode(encode(state)) differs from the persisted view of the live state: " + a[:400],
                                      {"kind": "monitor", "ops": [x for x, _ in c[:idx + 1]], "impl_out": a, "harness": pc.HZ}, found_input=True)
            elif pc.shadow_part(a) not in (None, "-"):
                n_shadow += 1
        hit = bisim_case(c)
        if hit:
            hits += 1
            if hits <= 3:
                idx, msg = hit
                ctx.violation("monitor: the restored router behaves differently from the uncrashed one: " + msg,
                              {"kind": "monitor", "ops": [x for x, _ in c[:idx + 1]], "impl_out": c[idx][1], "harness": pc.HZ}, found_input=True)
    dist["monitor:persist_ops"] = n_persist
    dist["monitor:events_replayed_on_restored_router"] = n_shadow

    # 2. correspondence with PlayerM: the persist lines (decoded dump = persistView) and the restored machine's outputs are pinned
    #    by decode_encode / restore_bisim; a divergence elsewhere only breaks the tie.
    bad = ctx.compare(ops, impl, model, "model") if model else []
    seen = set()
    for (i, op, a, b) in bad:
        j = pc.case_start(ops, i)
        if j in seen:
            continue
        seen.add(j)
        if len(seen) > 4:
            break
        found = op.startswith("persist") or pc.shadow_part(a) != pc.shadow_part(b)
        ctx.violation("real router/player (or its restored copy) differs from PlayerM at op %d of the case: impl `%s` vs model `%s`" % (i - j, a[:240], b[:240]),
                      {"kind": "correspondence", "driver": "model", "ops": ops[j:i + 1], "index": i, "impl_out": a, "model_out": b, "harness": pc.HZ},
                      found_input=found)
    if len(bad) > 4:
        ctx.notes.append("%d mismatching lines vs model in total" % len(bad))


def replay(ctx, path):
    common.std_replay(ctx, path, run)
