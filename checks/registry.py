"""Claimed properties: what the check decides and at which strength. bin/mkmanifest.py turns this into MANIFEST.json."""
TB = ("Trusted: Lean 4.33 kernel; axioms propext/Classical.choice/Quot.sound only (audited per theorem each run, no sorry/native_decide/"
      "bv_decide/own axioms); the Go toolchain and hand-built libsodium; python glue in bin/check. ")

CLAIMS = {
 "C45": dict(
    technique="Lean 4 proof over go2lean-regenerated definitions + differential correspondence",
    category="proof", design_ref="§6 C45, §2.3",
    text=("Full proof. The Lean definitions of OAdd/OSub/OMul/ODiff/Add-/Sub-/MulSaturate/muldiv/Muldiv/Mul2div/Divvy/Micros.Mul/MulInt/"
          "MulMicros/OverflowTracker are regenerated from data/basics/*.go on every run (tie T) and 32 theorems prove them equal to exact "
          "Nat/Int arithmetic for every width / every in-range operand, incl. the 2^w, -2^63 and 2^128 boundaries. The real functions are "
          "also run against the spec and against the generated definitions (tie C; all 8-bit pairs, boundary grids, seeded random)."),
    note=(TB + "tools/go2lean (AST translator, validated each run by running Gen defs and the real functions on the same operands). "
          "Not modelled: Go's divide-by-zero panic (guarded sites only), DivCeil (generic over signed types; not translated)."),
 ),
}

REASON_NOT_YET = "check not built yet in this session; planned (see DESIGN.md §6) — not claimed until its proof and tie run"
