"""C47 — ledger storage back ends give identical answers.

Tie C, three-way, stateful line protocol (harness/ledger/store/trackerdb/testsuite/zz_verif_c47_test.go):
the same seeded write batches and queries run on the REAL SQLite driver (S), the REAL Pebble generic-KV driver (P) and the
REAL dual driver (D); the Lean driver `c47` prints the answer of Spec.TrackerStore for every op.
  * monitor on the implementations alone: S and P print the same canonical answer on every op;
  * S vs Spec.TrackerStore, P vs Spec.TrackerStore line by line (exact);
  * D: equals S whenever S and P agree; an `inconsistent` verdict of the dual driver must be backed by a real difference.
Known deviations of one engine are modelled, not skipped: a fixed prologue case probes which of them the tree under test has
(QUIRKS); each present one is reported through ctx.violation(match_key={"kind": …}) — KNOWN-FINDING if registered as known,
VIOLATION otherwise — and the engine is then compared with spec + exactly those deviations (Model.TrackerStoreKV), so any
other change of either driver is still a line-exact mismatch.
"""
import os, re, collections
import common

PKG, TEST, NAME = "./ledger/store/trackerdb/testsuite", "TestVerifC47", "c47"

# flag -> (engine, finding kind, text)
QUIRKS = collections.OrderedDict([
    ("pfx", ("P", "kv-prefix-keyspace",
             "generickv LookupKeysByPrefix / LookupKeysByPrefixCursor scan [prefix, prefix+1) over the RAW store keys instead of the "
             "\"xc-\" app-kv name space (and report value-non-empty instead of present): a box prefix returns nothing from Pebble")),
    ("odel", ("P", "kv-online-delete-bound",
              "generickv OnlineAccountsDelete(forgetBefore) scans rounds <= forgetBefore: it deletes the entry SQLite keeps as the newest one "
              "below forgetBefore (one entry too few), and an offline marker written at forgetBefore itself")),
    ("otop", ("P", "kv-online-top-order",
              "generickv AccountsOnlineTop walks (round desc, balance desc): offset/n count rows, the page is not the top by balance, "
              "zero-balance (offline) rows are returned")),
    ("oallround", ("P", "kv-shape-consistency", "generickv OnlineAccountsAll fills Round with the db round (SQLite: 0)")),
    ("spnil", ("P", "kv-shape-consistency", "generickv GetAllSPContexts returns an empty slice where SQLite returns nil")),
    ("nocp", ("P", "kv-unimplemented", "generic-KV back end: catchpoint reader/writer are unimplemented (panic)")),
    ("nocount", ("P", "kv-unimplemented", "generic-KV back end: TotalAccounts/TotalResources/TotalKVs/TotalOnlineAccountRows/TotalOnlineRoundParams return 0")),
    ("norlim", ("P", "kv-unimplemented", "generic-KV back end: LookupLimitedResources returns \"not supported\"")),
    ("olookwrap", ("P", "kv-lookup-online-bound",
                   "generickv LookupOnline(addr, rnd) increments the last byte of its big-endian upper bound without carry: for rnd % 256 == 255 "
                   "the bound wraps and every entry with update round in [rnd-255, rnd] is missed (an older entry, or nothing, is returned)")),
    ("cdelany", ("P", "kv-delete-creatable-ctype",
                 "generickv DeleteCreatable ignores the creatable type and always reports 1 row: a delete with the other type removes the "
                 "creator entry SQLite keeps")),
    ("txsnap", ("P", "pebble-tx-read-own-writes",
                "pebbledbdriver transactions read from the snapshot taken at BeginTransaction: reads through the open transaction (and "
                "OnlineAccountsDelete after inserts in the same batch) do not see the batch's own writes; SQLite does")),
    ("histerr", ("S", "sqlite-online-history-empty",
                 "sqlitedriver LookupOnlineHistory fails (NULL rowid scanned into int64) for an address without rows; the caller and the "
                 "KV driver treat that as an empty history")),
])

TRIVIAL = {"reset", "begin", "commit", "abort", "round"}
LINE = re.compile(r"S\{(.*)\} P\{(.*)\} D\{(.*)\}$")


def split(line):
    m = LINE.match(line)
    if not m:
        return line, line, line
    return m.groups()


def case_starts(ops):
    start, cur = [], 0
    for i, op in enumerate(ops):
        if op.split()[:1] == ["reset"]:
            cur = i
        start.append(cur)
    return start


def run_driver(ctx, flags, opsf, label):
    mf = os.path.join(ctx.work, "%s.%s.out" % (NAME, label))
    rc = ctx.driver("c47", flags, opsf, mf)
    if rc != 0:
        ctx.tie_failures.append("driver c47 %s failed rc=%d" % (" ".join(flags), rc))
        return None
    return ctx.read_lines(mf)


def decide_quirks(ctx, ops, S, P, plen, opsf, replaying):
    """which deviations does the tree under test have?  decided on the prologue lines that ONE deviation alone changes"""
    pf = os.path.join(ctx.work, NAME + ".prologue")
    open(pf, "w").write("\n".join(ops[:plen]) + "\n")
    base = run_driver(ctx, [], pf, "p-base")
    if base is None:
        return None
    single = {}
    for q in QUIRKS:
        out = run_driver(ctx, [q], pf, "p-" + q)
        if out is None:
            return None
        single[q] = out
    active = []
    for q, (eng, kind, text) in QUIRKS.items():
        impl = S if eng == "S" else P
        probes = [i for i in range(plen) if single[q][i] != base[i] and all(single[o][i] == base[i] for o in QUIRKS if o != q)]
        if not probes:
            if not replaying:      # a replay file may carry only the part of the prologue it needs
                ctx.tie_failures.append("no probe line decides deviation %s (prologue changed?)" % q)
            continue
        yes = [i for i in probes if impl[i] == single[q][i]]
        no = [i for i in probes if impl[i] == base[i]]
        if len(yes) == len(probes):
            active.append(q)
            i = probes[0]
            ctx.violation("%s [%s]; e.g. `%s`: %s answers %s, the interface spec %s" % (text, kind, ops[i], "SQLite" if eng == "S" else "Pebble", impl[i], base[i]),
                          {"kind": "finding", "finding": kind, "deviation": q, "ops": ops[:i + 1], "index": i, "impl_out": impl[i], "spec_out": base[i],
                           "harness": {"pkg": PKG, "test": TEST, "name": NAME}}, found_input=True, match_key={"kind": kind})
        elif len(no) != len(probes):
            odd = [j for j in probes if j not in yes and j not in no]
            i = odd[0] if odd else probes[0]
            ctx.violation("probe `%s`: %s answers %s — neither the spec (%s) nor the known deviation %s (%s)" %
                          (ops[i], eng, impl[i], base[i], q, single[q][i]),
                          {"kind": "correspondence", "ops": ops[:i + 1], "index": i, "impl_out": impl[i], "model_out": base[i],
                           "harness": {"pkg": PKG, "test": TEST, "name": NAME}}, found_input=True)
    return active


def correspond(ctx, env, replay_ops):
    e = dict(env)
    if replay_ops is not None:
        rp = os.path.join(ctx.work, NAME + ".replay")
        open(rp, "w").write("\n".join(replay_ops) + "\n")
        e["VERIF_REPLAY"] = rp
    rc, out = ctx.go_test(PKG, TEST, env=e, timeout=3000)
    opsf, implf = os.path.join(ctx.work, NAME + ".ops"), os.path.join(ctx.work, NAME + ".impl")
    if rc != 0 or not os.path.exists(opsf):
        ctx.tie_failures.append("harness %s %s failed to run (rc=%d): %s" % (PKG, TEST, rc, out[-600:]))
        return
    ops, impl = ctx.read_lines(opsf), ctx.read_lines(implf)
    ctx.account(ops, trivial=lambda o: o.split()[0] in TRIVIAL)
    S, P, D = zip(*[split(l) for l in impl]) if impl else ((), (), ())
    start = case_starts(ops)
    resets = [i for i, o in enumerate(ops) if o.split()[0] == "reset"]
    plen = resets[1] if len(resets) > 1 else len(ops)      # the prologue = the first case
    prologue = ops[:plen]
    h = {"pkg": PKG, "test": TEST, "name": NAME}

    active = decide_quirks(ctx, ops, S, P, plen, opsf, replay_ops is not None)
    if active is None:
        return
    ctx.cov["distribution"]["deviations_present"] = ",".join(active) or "none"
    qs = [q for q in active if QUIRKS[q][0] == "S"]
    qp = [q for q in active if QUIRKS[q][0] == "P"]
    specS = run_driver(ctx, qs, opsf, "specS")
    specP = run_driver(ctx, qp, opsf, "specP")
    if specS is None or specP is None:
        return
    if len(specS) != len(ops) or len(specP) != len(ops):
        ctx.tie_failures.append("driver output has %d/%d lines for %d ops" % (len(specS), len(specP), len(ops)))
        return

    def case_ops(i):
        st = start[i]
        return (prologue if st >= plen else []) + ops[st:i + 1]

    dist = ctx.cov["distribution"]
    bad_cases = set()
    nviol = 0
    for i, op in enumerate(ops):
        k = op.split()[0]
        s, p, d = S[i], P[i], D[i]
        explained = specS[i] != specP[i]          # a present, reported deviation makes the engines differ here
        if s != p:
            dist["S!=P:" + k] = dist.get("S!=P:" + k, 0) + 1
            if d not in ("err:inconsistent",):
                dist["dual-blind:" + k] = dist.get("dual-blind:" + k, 0) + 1
        if start[i] in bad_cases:
            continue
        what = None
        found = True
        if s != p and not explained:
            what = "monitor: SQLite and Pebble answer differently: `%s` -> S{%s} P{%s} (spec: %s)" % (op, s, p, specS[i])
            model = specS[i]
        elif s != specS[i]:
            what = "SQLite driver differs from Spec.TrackerStore: `%s` -> %s, spec %s" % (op, s, specS[i])
            model, found = specS[i], (s != p)
        elif p != specP[i]:
            what = "Pebble generic-KV driver differs from Spec.TrackerStore%s: `%s` -> %s, model %s" % (
                (" + deviations " + ",".join(qp)) if qp else "", op, p, specP[i])
            model, found = specP[i], (s != p)
        elif s == p and d != s and k != "kvpfx":
            # (kvpfx: the dual driver hands the SAME result map to both engines, its own answer is not comparable)
            what = "dual driver answers %s although both engines answer %s on `%s` (a difference the canonical print does not show, or a false alarm)" % (d, s, op)
            model = s
        elif s != p and d not in ("err:inconsistent", "PANIC:nil", s, p):
            what = "dual driver answers %s on `%s` (S{%s} P{%s})" % (d, op, s, p)
            model = s
        if what:
            bad_cases.add(start[i])
            nviol += 1
            if nviol <= 5:
                ctx.violation(what, {"kind": "monitor" if what.startswith("monitor") else "correspondence", "ops": case_ops(i), "index": i,
                                     "impl_out": impl[i], "model_out": model, "harness": h}, found_input=found)
    if nviol > 5:
        ctx.notes.append("%d diverging cases in total; %d suppressed" % (nviol, nviol - 5))
    dist["cases"] = len(resets)
    dist["answers_identical"] = sum(1 for i in range(len(ops)) if S[i] == P[i])
    dist["answers_differ_by_reported_deviation"] = sum(1 for i in range(len(ops)) if S[i] != P[i] and specS[i] != specP[i])


def run(ctx, replay_ops=None):
    ctx.overlay()
    ctx.assumptions += [
        "identity of the two back ends is a CORRESPONDENCE result (both are compared line by line with one executable spec and with each other on generated "
        "histories); the theorems are the spec's ordering / pagination / lookup-after-write / delete-before laws",
        "writes respect the writers' calling contract, as the ledger's commit path does (insert only absent keys, update/delete present ones, resources only under "
        "existing accounts and deleted before their account, kv values non-nil, rounds and tail/param rounds move forward contiguously, OnlineAccountsDelete in the "
        "inserting batch only with forgetBefore <= the batch's round, LookupKeysByPrefix only while maxKeyNum exceeds the keys already held); misuse "
        "(duplicate inserts, stale refs, uint64 values above 2^63) is answered differently by the engines and is not generated",
        "one batch = one Transaction per engine; reads happen outside batches (Pebble transactions read from the snapshot taken at BeginTransaction, SQLite sees its own writes)",
        "account / resource / online payloads are small structured records (a few fields each); the engines store them as opaque msgpack blobs",
        "\"not found\" is one error class whether signalled by trackerdb.ErrNotFound or sql.ErrNoRows (the ledger accepts both)",
    ]
    proved = ctx.prove(["AlgoVerif.Props.C47"])
    okb, out = ctx.lean_build(["c47"])
    if not okb:
        raise RuntimeError("driver c47 does not build: " + out[-800:])
    env = {}
    if not proved:
        env["VERIF_BUDGET_SCALE"] = "400" if ctx.tier == "quick" else "200"
    ctx.cov["rule"] = ("case = fresh SQLite + Pebble + dual stores (on disk for 1 in 4 cases), 2-8 write batches (3-14 writes each over 4-8 addresses with shared prefixes, "
                       "asset/app indices up to 2^32+1, kv keys sharing prefixes / containing 0x00 and 0xff / differing in case, online rows with balance ties, plus the "
                       "per-round bookkeeping: round params, tx tail, totals, state-proof contexts, catchpoint state, delete-before calls with random bounds, 1 in 12 "
                       "batches aborted) each followed by 8-21 queries (point lookups, ordered listings, bounded listings, prefix scans with count / byte limits, cursors, "
                       "exclusions and caller-prepopulated maps, whole-prefix paged scans, online top / expired / history / all, tails, counters); the first case is a fixed "
                       "probe sequence. Trivial = reset/begin/commit/abort/round lines; distinct = distinct op lines")
    correspond(ctx, env, replay_ops)


def replay(ctx, path):
    common.std_replay(ctx, path, run)
