"""C32 — AVM arithmetic / comparison / bitwise / byte-math / conversion / wide opcodes compute exactly their
specified results.  Tie C: tiny real TEAL programs through the real assembler + evaluator (LogicSig and app
mode, newest AVM version and the opcode's introduction version) vs Spec.AVMArith (arbitrary-precision Nat)
and vs the code-shaped Model.AVMArith; Props.C32 proves model = spec for every operand."""
import common

UNARY_TRIVIAL = {"0", "1", "0x", "0x00", "0x01"}

def trivial(op):
    f = op.split()
    return len(f) >= 3 and all(x in UNARY_TRIVIAL for x in f[2:])

def kind_of(op):
    f = op.split()
    return f[1] if len(f) > 1 else op

def run(ctx, replay_ops=None):
    ctx.overlay()
    ctx.assumptions += [
        "uint64 stack cells are < 2^64 (hypotheses a < 2^64 of the op_exact_* theorems); byte strings are arbitrary List UInt8",
        "Go standard library modelled by contract, not verified: math/bits.{Add64,Mul64,Div64,Len64,Len8}, math/big "
        "{SetBytes = big-endian fold, Bytes = minimal big-endian, Add/Sub/Mul/Div/Mod/Sqrt/BitLen/Rsh/Uint64}, bytes.{Compare,Equal}, "
        "binary.BigEndian.PutUint64",
        "operand fetch / type check / cost accounting of EvalContext.step are exercised by the tie (real evaluator) but not part of the Lean model",
    ]
    proved = ctx.prove(["AlgoVerif.Props.C32"])
    okb, out = ctx.lean_build(["c32"])
    if not okb:
        raise RuntimeError("driver c32 does not build: " + out[-800:])
    env = {}
    if not proved:
        env["VERIF_BUDGET_SCALE"] = "1000" if ctx.tier == "quick" else "300"
    ctx.cov["rule"] = ("one case = one opcode applied to concrete operands as a real TEAL program (int/byte pushes + the opcode), run in "
                       "LogicSig and app mode at the newest AVM version and at the opcode's introduction version (all must agree); "
                       "generator = every opcode x all pairs of 42 uint64 boundary values (0,1,2,2^31±1,2^32±1,2^63±1,2^64-1, perfect squares, "
                       "(2^32-1)(2^32+1),…), all triples/quadruples of a smaller set for divw/divmodw, exp/expw at the exact overflow frontier "
                       "(largest base whose e-th power fits, ±1, e ≤ 64), all shift amounts 0..66, sqrt/bsqrt at k², k²±1, every byte-math opcode x all "
                       "pairs of 62 boundary byte strings (lengths 0,1,2,8,9,31..33,63..66; zeros, ones, 256^(n-1), leading zeros), bitwise byte ops up to "
                       "4096 bytes, wrong-kind operands, plus seeded random boundary-biased operands (sums/products next to 2^64, divw next to y ≤ hi, "
                       "numerically equal byte strings with different padding). A case is trivial when every operand is in {0,1,\"\",00,01}; "
                       "distinct = distinct op lines")
    common.correspondence(ctx, pkg="./data/transactions/logic", test="TestVerifC32", name="c32",
                          drivers=[("c32", ["spec"], "spec"), ("c32", ["model"], "model")],
                          trivial=trivial, kind_of=kind_of, env=env, model_is_spec=True,
                          what="opcode result differs from the specified value", replay_ops=replay_ops)

def replay(ctx, path):
    common.std_replay(ctx, path, run)
