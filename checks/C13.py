"""C13 — consensus sees the right online stake for every round.

Tie C: the REAL onlineAccounts tracker (+ votersTracker, accountUpdates, txTail under the real trackerRegistry, over a mock
ledger with a real sqlite tracker DB and injected tiny-lookback consensus versions) is driven through histories of going
online / offline, key expiry, suspension, balance changes, closes and protocol upgrades, each under several schedules of
commits / reloads / LRU evictions / onlineAccountsCache sizes. Every answer (lookupOnlineAccountData = LookupAgreement,
onlineCirculation, TopOnlineAccounts, VotersForStateProof, table + cache dumps) is compared with
  (a) `c13 spec`  — the history oracle Spec.OnlineHistory: every answer the implementation GIVES must be the oracle's, and
                    inside the lookback window [latest+1-MaxBalLookback, latest] it must give one;
  (b) `c13 model` — the code-shaped Model.OnlineAccts (exact, errors and table contents included).
Monitor on the implementation alone: the same history under different schedules gives identical answers for every round
both serve, and every schedule serves the lookback window.
Every third history (thorough: every history) is also run through a full in-memory Ledger (variant L: all trackers, block
queue, the Ledger's own commit syncer; Ledger.LookupAgreement / OnlineCirculation / VotersForStateProof), compared with the
oracle and the other schedules (not with the model: the background commits make the table state timing dependent)."""
import os, re, hashlib
import common

PKG, TEST, NAME = "./ledger", "TestVerifC13", "c13"
HARNESS = {"pkg": PKG, "test": TEST, "name": NAME}
QUERIES = ("q", "qa", "circ", "top", "voters", "lockcirc")
HARD = ("PANIC", "err other", "err stale-db", "err overflow", "bad-op", "err no-case", "err totals")


def kv(line):
    d = {}
    for t in line.split():
        if "=" in t:
            k, v = t.split("=", 1)
            d[k] = v
    return d


def norm(a):
    """error texts of commit / start carry Go messages: compare the class only"""
    for p in ("err commit", "err start"):
        if a.startswith(p):
            return p
    return a


class Case:
    def __init__(self, start, op):
        d = kv(op)
        self.start, self.hist, self.var = start, d.get("hist"), d.get("var")
        self.mbl = int(d.get("mbl", "0") or 0)
        self.latest = 0
        self.commits = self.reloads = self.status_changes = 0
        self.dead = False


def in_window(case, r):
    return r <= case.latest and r + case.mbl >= case.latest + 1


def spec_verdict(case, op, a, s):
    """None if the implementation's answer is what the history implies (or a legitimate refusal), else a message"""
    f = op.split()
    k = f[0]
    d = kv(op)
    r = int(d.get("r", "0"))
    if any(a.startswith(t) for t in HARD):
        return "the implementation failed: " + a[:120]
    if k == "voters":
        if a == "none" or a == s:
            return None
        if a.startswith("err"):
            return "VotersForStateProof(%d) failed (%s) where the history has voters" % (r, a[:60]) if s.startswith("ok") else None
        return "VotersForStateProof(%d) differs from the top online accounts of the history" % r
    if k == "qa":
        ia, sa = a.split()[1:], s.split()[1:]
        for x, y in zip(ia, sa):
            if x == y:
                continue
            if "=err:" in x:
                if in_window(case, r):
                    return "round %d is inside the lookback window (latest=%d, MaxBalLookback=%d) but LookupAgreement refuses it: %s" % (r, case.latest, case.mbl, x)
                continue
            return "LookupAgreement(%d) of account %s is %s, the history implies %s" % (r, x.split("=")[0], x.split("=", 1)[1], y.split("=", 1)[1])
        return None
    if a == s:
        return None
    if k == "lockcirc":
        if a.startswith("err locked"):
            return None   # refusing while the DB is locked is fine; a wrong stake is not
        return "OnlineCirculation(%d, %s) asked while the tracker DB is locked answers %s, the history implies %s (the failed expired-accounts query was taken for an empty result)" % (r, d.get("v"), a[:80], s[:80])
    if a.startswith("err"):
        if s.startswith("err"):
            return None if a == s or not in_window(case, r) else "wrong refusal %s (history: %s)" % (a, s)
        if in_window(case, r):
            return "round %d is inside the lookback window (latest=%d, MaxBalLookback=%d) but %s refuses it: %s" % (r, case.latest, case.mbl, k, a)
        return None
    what = {"q": "LookupAgreement", "circ": "OnlineCirculation", "top": "TopOnlineAccounts"}.get(k, k)
    return "%s answers %s, the history implies %s" % (what, a[:160], s[:160])


def run(ctx, replay_ops=None):
    ctx.overlay()
    ctx.assumptions += [
        "histories are what the evaluator produces: an Online account has non-empty voting data and a positive normalised balance "
        "(it holds the minimum balance), rewards bases never exceed the rewards level of a later round, genesis accounts carry no "
        "incentive / proposal / heartbeat data, 64-bit sums do not overflow (all are hypotheses of the theorems or explicit error branches)",
        "MaxBalLookback and the state proof geometry (interval, voters lookback) are the same for all protocol versions of a history "
        "(true for every released version); consensus versions never come back after an upgrade (the code's own assumption in consecutiveVersion)",
        "interleaving at operation granularity: a query never overlaps a commit (the retry loops for a DB round that moves under a reader are "
        "not modelled; the background LoadTree of the voters tracker is awaited before the next operation)",
        "the baseOnlineAccounts LRU and ao.accounts are modelled by what they cache (newest persisted row / newest delta entry of an address); "
        "SQL GROUP BY and Go map iteration are modelled as iteration over the finite account universe of the case; the streaming heap of "
        "TopOnlineAccounts is modelled as sort-the-union (correspondence only); the legacy stake total of TopOnlineAccounts for protocols "
        "without ExcludeExpiredCirculation is outside the claim",
        "the online supply of a round (Totals.Online.Money) is an input of the history (C12 ties it to the accounts)",
    ]
    proved = ctx.prove(["AlgoVerif.Props.C13"])
    okb, out = ctx.lean_build(["c13"])
    if not okb:
        raise RuntimeError("driver c13 does not build: " + out[-800:])
    env = {} if proved else {"VERIF_BUDGET_SCALE": "400" if ctx.tier == "quick" else "200"}
    ctx.cov["rule"] = (
        "a case = one history (3-6 accounts, 1-3 protocol versions with MaxBalLookback in {2,3,4,5,8}, reward units {1,2,5,10}, state proof "
        "interval {off,4,6,8}; MaxBalLookback+2 .. 4*MaxBalLookback+10 rounds, every 7th history 20-60 rounds longer; per round 0-3 accounts go "
        "online / offline / are suspended / change balance / rekey / heartbeat / propose / close / expire, rewards level and StateProofNextRound "
        "advance) executed under one schedule (variant 0: nothing is ever flushed; 1: everything flushed at once, no caches, frequent reloads; "
        "2,3: random MaxAcctLookback, commit / reload / evict points and cache sizes; L: a full Ledger with its own commit syncer plus explicit commits). After every block the same queries are asked in every "
        "variant: all accounts, circulation and top-N at rounds inside (and sometimes just outside) the lookback window with vote rounds at "
        "expiry boundaries, the voters snapshots, and at the end a sweep over the whole window. A case is non-trivial when it has more than "
        "MaxBalLookback blocks, an account changes its online status, and (for variants > 0) the DB round advances; distinct = distinct op sequences")
    if replay_ops is None:
        # directed corpus first: the circulation is asked while the tracker DB is locked by an open write transaction
        cdir = os.path.join(os.path.dirname(os.path.dirname(os.path.abspath(__file__))), "corpus", "C13")
        cops = []
        if os.path.isdir(cdir):
            for fn in sorted(os.listdir(cdir)):
                if fn.endswith(".ops"):
                    cops += [l for l in open(os.path.join(cdir, fn)).read().splitlines() if l.strip()]
        if cops:
            one_run(ctx, {}, cops, corpus=True)
    one_run(ctx, env, replay_ops)


def one_run(ctx, env, replay_ops, corpus=False):
    e = dict(env)
    if replay_ops is not None:
        rp = os.path.join(ctx.work, NAME + ".replay")
        open(rp, "w").write("\n".join(replay_ops) + "\n")
        e["VERIF_REPLAY"] = rp
    rc, out = ctx.go_test(PKG, TEST, env=e, timeout=3000)
    opsf, implf = os.path.join(ctx.work, NAME + ".ops"), os.path.join(ctx.work, NAME + ".impl")
    if rc != 0 or not os.path.exists(opsf):
        ctx.tie_failures.append("harness %s %s failed to run (rc=%d): %s" % (PKG, TEST, rc, out[-600:]))
        return
    ops, impl = ctx.read_lines(opsf), ctx.read_lines(implf)
    outs = {}
    for mode in ("spec", "model"):
        mf = os.path.join(ctx.work, "%s.%s.out" % (NAME, mode))
        drc = ctx.driver("c13", [mode], opsf, mf, timeout=3000)
        if drc != 0:
            ctx.tie_failures.append("driver c13 %s failed rc=%d" % (mode, drc))
            return
        outs[mode] = ctx.read_lines(mf)
        if len(outs[mode]) != len(ops):
            ctx.tie_failures.append("driver c13 %s produced %d lines for %d ops" % (mode, len(outs[mode]), len(ops)))
            return
    spec, model = outs["spec"], outs["model"]
    if len(impl) != len(ops):
        ctx.tie_failures.append("harness produced %d results for %d ops" % (len(impl), len(ops)))
        return

    dist = ctx.cov["distribution"]
    case = None
    seen_meta = {}            # (hist, latest, query) -> (answer, index, case start)
    reported = {"spec": 0, "model": 0, "meta": 0}
    bad_cases = set()
    case_sigs, nontrivial, samples = set(), 0, []
    stats = {"queries": 0, "in-window": 0, "refused-outside-window": 0, "metamorphic-pairs": 0, "model-lines-compared": 0,
             "voters-answers": 0, "dump-lines": 0}
    case_lines = []

    def close_case():
        nonlocal nontrivial
        if case is None:
            return
        sig = hashlib.sha1("\n".join(case_lines).encode()).digest()
        if sig in case_sigs:
            return
        case_sigs.add(sig)
        if case.latest > case.mbl and case.status_changes > 0 and (case.var == "0" or case.commits > 0):
            nontrivial += 1
            if len(samples) < 6 and len(case_sigs) % 17 == 1:
                samples.append(" ; ".join(case_lines)[:400])

    def report(kind, what, i, extra=None, found=True, match_key=None):
        if reported[kind] >= 3 or (case is not None and (kind, case.start) in bad_cases):
            return
        reported[kind] += 1
        if case is not None:
            bad_cases.add((kind, case.start))
        rep = {"kind": "correspondence" if kind != "meta" else "monitor-metamorphic", "driver": kind, "index": i,
               "ops": ops[case.start:i + 1] if case is not None else [ops[i]], "impl_out": impl[i][:2000],
               "spec_out": spec[i][:2000], "model_out": model[i][:2000], "harness": HARNESS}
        if extra:
            rep.update(extra)
        ctx.violation(what, rep, found_input=found, match_key=match_key)

    for i, (op, a, s, m) in enumerate(zip(ops, impl, spec, model)):
        f = op.split()
        if not f:
            continue
        k = f[0]
        dist[k] = dist.get(k, 0) + 1
        if k == "reset":
            close_case()
            case = Case(i, op)
            case_lines = []
            dist["variant=" + str(case.var)] = dist.get("variant=" + str(case.var), 0) + 1
        case_lines.append(op)
        if case is None:
            continue
        # ---- the code-shaped model: exact
        if m != "-" and case.var != "L":     # variant L (full Ledger): its own background commits make the table state schedule dependent
            stats["model-lines-compared"] += 1
            if norm(a) != norm(m):
                report("model", "the real tracker differs from the proved model (Model.OnlineAccts) on `%s`: %s vs %s" % (op[:60], a[:120], m[:120]), i,
                       found=(k in QUERIES and spec_verdict(case, op, a, s) is not None))
        if k == "reset":
            if not a.startswith("ok"):
                case.dead = True
                report("spec", "the tracker failed to start: " + a[:160], i)
            continue
        if case.dead:
            continue
        if k == "block":
            if not a.startswith("ok"):
                report("spec", "newBlock failed: " + a[:160], i)
                case.dead = True
                continue
            case.latest += 1
            prev_status = getattr(case, "status", {})
            for it in op.split(" | ")[1:]:
                aid, rec = it.strip().split(":", 1)
                st = rec.split("/")[0]
                if aid in prev_status and prev_status[aid] != st or (aid not in prev_status and st == "1"):
                    case.status_changes += 1
                prev_status[aid] = st
            case.status = prev_status
            if "!" in a:
                report("spec", "a voters snapshot failed to load: " + a[:160], i)
            continue
        if k in ("commit", "reload"):
            if not a.startswith("ok"):
                report("spec", "monitor: %s failed: %s" % (k, a[:160]), i)
                case.dead = True
                continue
            mm = re.match(r"ok db=(\d+)", a)
            if mm and int(mm.group(1)) > 0:
                case.commits += 1
            if k == "reload":
                case.reloads += 1
            continue
        if k == "dump":
            stats["dump-lines"] += 1
            continue
        if k not in QUERIES:
            continue
        stats["queries"] += 1
        r = int(kv(op).get("r", "0"))
        if in_window(case, r):
            stats["in-window"] += 1
        elif a.startswith("err") or "=err:" in a:
            stats["refused-outside-window"] += 1
        if k == "voters" and a.startswith("ok"):
            stats["voters-answers"] += 1
        # ---- the history oracle
        msg = spec_verdict(case, op, a, s)
        if msg:
            report("spec", msg, i, match_key={"kind": "expired-query-error-swallowed"} if k == "lockcirc" else None)
        # ---- metamorphic monitor on the implementation alone
        if k == "voters" and a == "none":
            continue
        key = (case.hist, case.latest, op)
        prev = seen_meta.get(key)
        if prev is None:
            seen_meta[key] = (a, i, case.start)
            continue
        if prev[2] == case.start:
            # the same question twice in one case: the answer must not change either
            pass
        stats["metamorphic-pairs"] += 1
        if prev[0] != a:
            ia, pa = a.split(), prev[0].split()
            differs = False
            if k == "qa" and len(ia) == len(pa):
                differs = any(x != y and "=err:" not in x and "=err:" not in y for x, y in zip(ia, pa))
            else:
                differs = a.startswith("ok") and prev[0].startswith("ok")
            if differs:
                j = prev[1]
                report("meta", "monitor: the same history answers `%s` differently under two schedules: %s vs %s" % (op, prev[0][:120], a[:120]), i,
                       extra={"ops": ops[prev[2]:j + 1] + ops[case.start:i + 1], "other_out": prev[0][:2000]})
    close_case()
    ctx.cov["evaluations"] += len(ops)
    ctx.cov["distinct_nontrivial"] += nontrivial
    ctx.cov["samples"] += samples
    dist["cases_distinct"] = dist.get("cases_distinct", 0) + len(case_sigs)
    for kk, v in stats.items():
        dist[kk] = dist.get(kk, 0) + v
    if corpus:
        dist["corpus_lines"] = dist.get("corpus_lines", 0) + len(ops)
    if replay_ops is None and stats["metamorphic-pairs"] == 0:
        ctx.tie_failures.append("no metamorphic pair was produced")


def replay(ctx, path):
    common.std_replay(ctx, path, run)
