"""C14 — Catchpoint labels depend only on the ledger history.

Proof: Props.C14 (label_schedule_independent and the bookkeeping invariant, about Model.Catchpoint).
Tie C (zz_verif_c14_test.go): ONE history of real blocks replayed on 4–6 real ledgers with different flush schedules (the
harness owns the schedule through a gate tracker; commit ranges that span a first-stage round), MaxAcctLookback,
CatchpointTracking, trie page / cache configurations, restarts, crash images, and a period WITHOUT catchpoint tracking (real restart with
CatchpointTracking = -1, commits, restart with tracking: initializeHashes must rebuild the trie); a reference ledger that flushes every round
supplies the history (per-round row changes, totals, verification hashes, block digests).
  * correspondence: the Lean model runs the SAME event list (blocks / commits / crashes / restarts) over that history and must
    create exactly the labels the real ledger created — same rounds (including the ones a sparse schedule skips), byte-identical
    label text (C15 leaves, C17 canonical trie, SHA-512/256 and base32 in Lean);
  * implementation-only monitor: within a case, two ledgers never have different labels for the same round, and a ledger whose
    schedule is compatible with the interval has a label for every catchpoint round it committed.
A directed case replays the known finding F2 as a schedule dependence (two boxes with the same name‖content concatenation)."""
import os
import vf

PKG, TEST, NAME = "./ledger", "TestVerifC14", "c14"
HARNESS = {"pkg": PKG, "test": TEST, "name": NAME}
KNOWN_KEY = {"kind": "kv-boundary-shift"}


def parse_labels(line):
    if not line.startswith("labels="):
        return None
    body = line[len("labels="):]
    out = []
    if body != "-":
        for item in body.split(","):
            r, _, h = item.partition(":")
            out.append((int(r), h))
    return out


def kvs(line):
    return dict(x.split("=", 1) for x in line.split() if "=" in x)


def run(ctx, replay_ops=None):
    ctx.overlay()
    ctx.assumptions += [
        "hash as a parameter with |H x| = 32 (crypto.Digest); hypothesis LeafInj: no two different rows occurring in states of the history share a trie leaf "
        "(no collision of the truncated SHA-512/256 on those rows AND no kv boundary-shift pair, known finding F2) — with such a pair the statement is false for the code "
        "(replayed by the directed case)",
        "totals and the state-proof / online-accounts / online-round-params verification hashes of a round are data of the history (read from the reference ledger's DB at that round), "
        "not recomputed by the model; one consensus version per history; catchpoint file generation is not part of the label model",
        "the commit transaction is atomic (SQLite); a crash is modelled between the transaction and each post-commit action, the crash image is taken from a callback that runs before the catchpoint tracker's",
        "completeness (label_complete) assumes 0 < lookback, every effective commit covers at most one first-stage round, and tracking enabled in every lifetime; "
        "it does not cover runs with tracking-disabled lifetimes (their skipped catchpoints are predicted exactly by the model on every replica)",
    ]
    proved = ctx.prove(["AlgoVerif.Props.C14"])
    ok, out = ctx.lean_build(["c1416"])
    if not ok:
        raise RuntimeError("driver c1416 does not build: " + out[-800:])
    env = {} if proved else {"VERIF_BUDGET_SCALE": "300"}
    ctx.cov["rule"] = ("a case = one random history of real blocks (payments, account creation/close, asset create/opt-in/transfer/close-out/destroy, box put/delete incl. ZERO-LENGTH values (create empty, overwrite, delete+re-create empty/non-empty in one block), "
                       "key registration) with random CatchpointInterval 4..8 and CatchpointLookback 2..10, replayed on a reference ledger (flush every round) and 3-4 ledgers with "
                       "random MaxAcctLookback / tracking mode / trie page+cache configuration and random schedules: flush gaps <= interval (one sparse ledger: gaps up to 3 intervals), "
                       "restarts, partial flushes, crash images before the post-commit work. Evaluations = emitted lines; a `run` line is non-trivial when the ledger created >= 2 labels; "
                       "distinct = distinct (history, schedule) pairs")
    e = dict(env)
    if replay_ops is not None:
        rp = os.path.join(ctx.work, NAME + ".replay")
        open(rp, "w").write("\n".join(replay_ops) + "\n")
        e["VERIF_REPLAY"] = rp
    rc, out = ctx.go_test(PKG, TEST, env=e, timeout=3000)
    opsf, implf = os.path.join(ctx.work, NAME + ".ops"), os.path.join(ctx.work, NAME + ".impl")
    if not os.path.exists(opsf):
        ctx.tie_failures.append("harness %s %s failed to run (rc=%d): %s" % (PKG, TEST, rc, out[-600:]))
        return
    if rc != 0 and not any(l.startswith("FAILED") for l in ctx.read_lines(implf)):
        ctx.tie_failures.append("harness %s %s failed (rc=%d): %s" % (PKG, TEST, rc, out[-600:]))
        return
    mf = os.path.join(ctx.work, NAME + ".model.out")
    if ctx.driver("c1416", [], opsf, mf, timeout=3000) != 0:
        ctx.tie_failures.append("driver c1416 failed")
        return
    ops, impl, model = ctx.read_lines(opsf), ctx.read_lines(implf), ctx.read_lines(mf)
    ctx.cov["evaluations"] += len(ops)
    dist = ctx.cov["distribution"]
    case = None          # current case line
    clash = False
    by_round = {}        # round -> (label, run op)
    nontrivial = 0
    seen = set()
    reported = 0
    for i, op in enumerate(ops):
        a = impl[i] if i < len(impl) else "<missing>"
        b = model[i] if i < len(model) else "<missing>"
        k = op.split(" ", 1)[0]
        dist[k] = dist.get(k, 0) + 1
        if k == "case":
            case, by_round = op, {}
            clash = kvs(op).get("clash") == "1"
            if clash:
                dist["case:clash"] = dist.get("case:clash", 0) + 1
            continue
        if a.startswith("FAILED"):
            if k == "run" and len(op.split()) > 2:
                ctx.violation("a real ledger returned an error while processing the history under this schedule (%s): %s" % (op.split(" ev=")[0], a[:300]),
                              {"kind": "ledger-failure", "ops": [case], "run": op[:800], "impl_out": a[:2000], "harness": HARNESS}, found_input=True)
            else:
                ctx.tie_failures.append("harness case failed: %s (%s)" % (case, a))
            continue
        replay = {"kind": "correspondence", "ops": [case], "line": op[:600], "impl_out": a[:2000], "model_out": b[:2000], "harness": HARNESS}
        if a != b and reported < 4:
            reported += 1
            what = ("the labels created by the real ledger differ from the labels the proved bookkeeping model creates on the same history and event list"
                    if k == "run" else "row count of the reference dump differs from the model's state (history replay)")
            ctx.violation(what + ": " + op[:160], replay, found_input=True)
        if k != "run":
            continue
        labels = parse_labels(a)
        if labels is None:
            ctx.tie_failures.append("unparsable run result: " + a[:200])
            continue
        if (case, op) not in seen:
            seen.add((case, op))
            if len(labels) >= 2:
                nontrivial += 1
        f = op.split()
        cfg = kvs(op)
        for tok in cfg.get("ev", "").split(","):
            t = tok[:1]
            dist["ev:" + t] = dist.get("ev:" + t, 0) + 1
        for r, h in labels:
            prev = by_round.setdefault(r, (h, op))
            if prev[0] != h:
                what = ("two real ledgers that processed the same blocks created different catchpoint labels for round %d (%s vs %s): %s  /  %s"
                        % (r, prev[0][:12], h[:12], prev[1].split(" ev=")[0], op.split(" ev=")[0]))
                rp = {"kind": "label-divergence", "ops": [case], "round": r, "labels": [prev[0], h], "runs": [prev[1][:800], op[:800]], "harness": HARNESS}
                # the known finding is matched only by ITS pattern: the directed history (boxes "qq"="r" / "q"="qr", "qq" deleted in
                # round 9) and a first divergence at a catchpoint whose accounts round is past that deletion
                if clash and r - int(kvs(case)["L"]) >= 9:
                    ctx.violation("kv boundary shift as a schedule dependence: " + what, rp, found_input=True, match_key=KNOWN_KEY)
                else:
                    ctx.violation(what, rp, found_input=True)
                break
        # completeness on compatible schedules (implementation only): every multiple of the interval in (lookback, last commit target] has a label
        if f[1] not in ("sparse", "toggle") and not clash and case:
            c = kvs(case)
            I, L = int(c["I"]), int(c["L"])
            commits = [int(t[1:]) for t in cfg.get("ev", "").split(",") if t[:1] in ("c", "X") and t[1:].isdigit()]
            last = max(commits) if commits else 0
            have = {r for r, _ in labels}
            want = [r for r in range(I, last + 1, I) if r > L and r - L >= 1]
            missing = [r for r in want if r not in have]
            if missing:
                ctx.violation("a ledger with an interval-compatible flush schedule created no label for catchpoint round(s) %s: %s" % (missing, op.split(" ev=")[0]),
                              {"kind": "label-missing", "ops": [case], "missing": missing, "run": op[:800], "impl_out": a[:2000], "harness": HARNESS}, found_input=True)
    ctx.cov["distinct_nontrivial"] += nontrivial
    runs = [o for o in ops if o.startswith("run ")]
    ctx.cov["samples"] += [o[:400] for o in runs[:6]]
    dist["cases"] = dist.get("case", 0)


def replay(ctx, path):
    import json
    r = json.load(open(path))
    run(ctx, replay_ops=[o for o in r.get("ops", []) if o and o.startswith("case")])
