"""C02 hook overlay: extends NetDrive's hooked overlay (agreement/service.go) with generated copies of the CURRENT
agreement/actions.go, agreement/persistence.go and agreement/pseudonode.go that call `verifC02Hook`
(harness/agreement/zz_verif_c02_hook.go) at the attest → persist → checkpoint → release points.  Regenerated from the tree
on every run; an anchor that is not found exactly once inside its function is a tie failure (reported, never skipped).

 hooked_overlay(ctx) → (path, problems): sets ctx.ovl (build/overlay-c02.json) and appends problems to ctx.tie_failures.
 persistent_facts(repo) → (facts, problems): tie F — the `persistent()` methods of agreement/actions.go, by source scan:
     exactly pseudonodeAction (a.T == attest) may be persistent.

Stand-alone:  python3 checks/c02hooks.py   prints the overlay path (for manual `go test -overlay …` runs).
"""
import json, os, re, sys

sys.path.insert(0, os.path.join(os.path.dirname(os.path.abspath(__file__)), "..", "lib"))
import overlay as _ov
import netdrive

H = "if verifC02Hook != nil {\n%s\tverifC02Hook(%s)\n%s}\n"


def hook(ind, args):
    return ind + H % (ind, args, ind)


# (file, function regex, [(name, anchor text, position, indentation, hook arguments)])
PATCHES = [
    ("actions.go", r"func \(a pseudonodeAction\) do\(.*?\n}\n", [
        ("attest", "\t\tvoteEvents, err := s.loopback.MakeVotes(ctx, a.Round, a.Period, a.Step, a.Proposal, persistStateDone)\n", "before", "\t\t",
         '"attest", s, persistStateDone, a.Round, a.Period, a.Step, a.Proposal, nil, nil'),
        ("enq", "\t\t\tpersistCompleteEvents := s.persistState(persistStateDone)\n", "before", "\t\t\t",
         '"enq", s, persistStateDone, a.Round, a.Period, a.Step, a.Proposal, nil, nil'),
        ("enqd", "\t\t\tpersistCompleteEvents := s.persistState(persistStateDone)\n", "after", "\t\t\t",
         '"enqd", s, persistStateDone, a.Round, a.Period, a.Step, a.Proposal, nil, nil'),
    ]),
    ("actions.go", r"func \(c checkpointAction\) do\(.*?\n}\n", [
        ("ckpt", "func (c checkpointAction) do(ctx context.Context, s *Service) {\n", "after", "\t",
         '"ckpt", s, c.done, c.Round, c.Period, c.Step, proposalValue{}, verifC02SerErr(c.Err), nil'),
    ]),
    ("persistence.go", r"func \(p \*asyncPersistenceLoop\) loop\(.*?\n}\n", [
        ("pbegin", "\t\terr := persist(p.log, p.crashDb, s.round, s.period, s.step, s.raw)\n", "before", "\t\t",
         '"pbegin", p, s.done, s.round, s.period, s.step, proposalValue{}, nil, nil'),
        ("persisted", "\t\terr := persist(p.log, p.crashDb, s.round, s.period, s.step, s.raw)\n", "after", "\t\t",
         '"persisted", p, s.done, s.round, s.period, s.step, proposalValue{}, err, s.raw'),
    ]),
    ("pseudonode.go", r"func \(t pseudonodeVotesTask\) execute\(.*?\n}\n", [
        ("waitbegin", "\tvar totalWeight uint64\n", "before", "\t",
         '"waitbegin", t.node.monitor, t.persistStateDone, t.round, t.period, t.step, t.prop, nil, nil'),
        ("waitend", "\tfor range verifiedResults {\n\t\tt.node.monitor.inc(pseudonodeCoserviceType)\n", "before", "\t",
         '"waitend", t.node.monitor, t.persistStateDone, t.round, t.period, t.step, t.prop, nil, nil'),
        ("out", "\t\t\t\tt.node.keys.Record(r.v.R.Sender, r.v.R.Round, account.Vote)\n", "before", "\t\t\t\t",
         '"out", t.node.monitor, t.persistStateDone, r.v.R.Round, r.v.R.Period, r.v.R.Step, r.v.R.Proposal, nil, nil'),
    ]),
]

# the statement shapes the hook points stand for: if one of them disappears the hook trace no longer means what the model
# says (e.g. the wait on persistStateDone removed while the surrounding anchors survive)
SHAPES = [
    ("pseudonode.go", r"func \(t pseudonodeVotesTask\) execute\(.*?\n}\n", "the wait `case err, ok := <-t.persistStateDone:`",
     r"select \{\s*case err, ok := <-t\.persistStateDone:"),
    ("actions.go", r"func \(c checkpointAction\) do\(.*?\n}\n", "`close(c.done)`", r"close\(c\.done\)"),
    ("actions.go", r"func \(c checkpointAction\) do\(.*?\n}\n", "the blocking send `if c.done != nil { c.done <- c.Err }` on the persist-error branch, before close",
     r"if c\.done != nil \{\s*c\.done <- c\.Err\s*\}(.|\n)*close\(c\.done\)"),
    ("persistence.go", r"func \(p \*asyncPersistenceLoop\) loop\(.*?\n}\n", "`s.events <- checkpointEvent{` after persist",
     r"persist\(p\.log, p\.crashDb[^\n]*\n(.|\n)*?s\.events <- checkpointEvent\{"),
]


def patch_file(name, txt):
    """returns (patched text, problems)"""
    probs = []
    for fname, fre, anchors in PATCHES:
        if fname != name:
            continue
        m = re.search(fre, txt, re.S)
        if not m:
            probs.append("function /%s/ not found in agreement/%s" % (fre.split("\\(.*?")[0], name))
            continue
        body = m.group(0)
        for hname, anchor, pos, ind, args in anchors:
            if body.count(anchor) != 1:
                probs.append("hook anchor %s (`%s`) found %d times in agreement/%s" % (hname, anchor.strip().replace("\n", "\\n")[:90], body.count(anchor), name))
        if any(name in p for p in probs):
            continue
        # "before" and "after" hooks on the same anchor: insert both in one replacement
        done = set()
        for hname, anchor, pos, ind, args in anchors:
            if anchor in done:
                continue
            done.add(anchor)
            pre = "".join(hook(i, a) for (_, an, po, i, a) in anchors if an == anchor and po == "before")
            post = "".join(hook(i, a) for (_, an, po, i, a) in anchors if an == anchor and po == "after")
            body = body.replace(anchor, pre + anchor + post)
        txt = txt[:m.start()] + body + txt[m.end():]
    return txt, probs


def shape_problems(repo):
    probs = []
    for fname, fre, what, shape in SHAPES:
        txt = open(os.path.join(repo, "agreement", fname)).read()
        m = re.search(fre, txt, re.S)
        if not m or not re.search(shape, m.group(0)):
            probs.append("agreement/%s: statement shape %s not found where the hook trace expects it" % (fname, what))
    return probs


def persistent_facts(repo=None):
    """tie F: every `persistent() bool` method of agreement/actions.go with its (single) return expression."""
    repo = repo or _ov.REPO
    txt = open(os.path.join(repo, "agreement", "actions.go")).read()
    facts, probs = {}, []
    for m in re.finditer(r"func \((\w+ )?(\w+)\) persistent\(\) bool \{\n(.*?)\n}\n", txt, re.S):
        body = [l.strip() for l in m.group(3).splitlines() if l.strip() and not l.strip().startswith("//")]
        facts[m.group(2)] = " ; ".join(body)
    want = {"nonpersistent": "return false", "pseudonodeAction": "return a.T == attest", "checkpointAction": "return false"}
    if facts != want:
        probs.append("persistent() methods of agreement/actions.go are %s, the model assumes %s (persistent exactly for attest)" % (facts, want))
    ptxt = open(os.path.join(repo, "agreement", "persistence.go")).read()
    if not re.search(r"func persistent\(as \[\]action\) bool \{\n\tfor _, a := range as \{\n\t\tif a\.persistent\(\) \{\n\t\t\treturn true\n\t\t}\n\t}\n\treturn false\n}", ptxt):
        probs.append("persistence.go: persistent(as) is no longer `exists a ∈ as, a.persistent()`")
    return facts, probs


def hooked_overlay(ctx=None):
    repo, build = _ov.REPO, _ov.BUILD
    base_path, probs = netdrive.hooked_overlay(ctx)          # service.go hooks of NetDrive (reports its own problems)
    probs = []
    base = json.load(open(base_path))["Replace"]
    for name in ("actions.go", "persistence.go", "pseudonode.go"):
        src = os.path.join(repo, "agreement", name)
        patched, p = patch_file(name, open(src).read())
        probs += p
        if not p:
            dst = os.path.join(build, "ovl-c02", "agreement", name)
            _ov.write_if_changed(dst, patched)
            base[src] = dst
    probs += shape_problems(repo)
    path = os.path.join(build, "overlay-c02.json")
    _ov.write_if_changed(path, json.dumps({"Replace": base}, indent=1, sort_keys=True))
    if ctx is not None:
        ctx.ovl = path
        for p in probs:
            ctx.tie_failures.append("C02 hook: " + p)
    return path, probs


if __name__ == "__main__":
    _ov.build_overlay()
    p, probs = hooked_overlay(None)
    for x in probs:
        print("PROBLEM:", x, file=sys.stderr)
    print(p)
