"""C44 — the transaction pool only holds transactions that can still commit.

Tie C (stateful line protocol): a REAL TransactionPool on a REAL in-memory ledger (consensus version with a small
MaxTxnBytesPerBlock and MaxTxnLife, small TxPoolSize) is driven with seeded submissions (valid, overspending, closing,
conflicting spends of one balance, duplicates of pending / committed / dropped groups, leases, expiring / not yet open
windows, bad groups, state-proof transactions, the empty group) interleaved with blocks (assembled by the pool or built
independently from random subsets of the pending groups and fresh transactions) — against the proved model (Model.Pool)
replayed over the same op lines with the ledger evaluator `accepts` given by the verdicts of an independent shadow evaluator.

Monitors on the implementation alone (computed by the harness on the real pool after EVERY op, re-checked here where the
result line allows): (a) no pending txid is in a block of the ledger; (b) a fresh evaluator over the latest block accepts all
pending groups in order; (c) no txid twice, pendingTxids = ids of the pending groups; (d) #pending ≤ TxPoolSize + #pending
state-proof singletons; (f) nothing pending with LastValid < evaluator round; (g) Remember ok ⇒ appended last, error ⇒ unchanged.
"""
import os
import common

NAME, PKG, TEST = "c44", "./data/pools", "TestVerifC44"


def kv(fields):
    d = {}
    for t in fields:
        if "=" in t:
            k, v = t.split("=", 1)
            d[k] = v
    return d


def split_op(line):
    if " | " in line:
        op, ann = line.split(" | ", 1)
        return op.strip(), ann.strip()
    return line.strip(), ""


def pend_groups(p):
    if p in ("-", None, ""):
        return []
    return [([] if g == "e" else g.split("+")) for g in p.split(";")]


class Monitor:
    """re-check of the property on the implementation's result lines alone; one instance per case"""

    def __init__(self, f):
        self.max = int(kv(f).get("max", "0"))
        self.sp = set()         # symbolic ids of state-proof transactions
        self.committed = set()  # ids announced as committed by the blocks (annotation c=)
        self.prev = []

    def step(self, op, ann, res):
        f = op.split()
        a = kv(ann.split())
        r = res.split()
        if not r or res.startswith("PANIC") or res.startswith("bad-op") or res.startswith("FAIL") or res.startswith("no-"):
            return "hard failure: %s -> %s" % (op[:80], res[:200])
        rk = kv(r[1:])
        if "mon" not in rk or "p" not in rk:
            return "unparsable result line: " + res[:200]
        if f[0] == "rem" and a.get("g", "-") != "-":
            for tok in a["g"].split(","):
                p = tok.split("/")
                if len(p) == 6 and p[5] != "0":
                    self.sp.add(p[0])
        if f[0] == "blk" and a.get("c", "-") != "-":
            self.committed |= set(a["c"].split(","))
        groups = pend_groups(rk["p"])
        flat = [t for g in groups for t in g]
        hit = None
        if rk["mon"] != "ok":
            hit = "harness monitor on the real pool: " + rk["mon"]
        elif len(set(flat)) != len(flat):
            hit = "c: a txid is pending twice: " + rk["p"]
        elif str(len(flat)) != rk.get("n"):
            hit = "c: len(pendingTxids)=%s but %d transactions are pending" % (rk.get("n"), len(flat))
        elif len(flat) > self.max + sum(1 for g in groups if len(g) == 1 and g[0] in self.sp):
            hit = "d: %d pending transactions exceed TxPoolSize %d" % (len(flat), self.max)
        elif any(t in self.committed for t in flat):
            hit = "a: committed txid still pending: " + ",".join(t for t in flat if t in self.committed)
        elif f[0] == "rem":
            if r[0] == "ok" and groups[:-1] != self.prev:
                hit = "g: Remember returned nil but the group was not appended to the unchanged pending list"
            if r[0] != "ok" and groups != self.prev:
                hit = "g: Remember failed (%s) but the pending list changed" % r[0]
        self.prev = groups
        return hit


def one_run(ctx, env, ops_in, label):
    e = dict(env)
    if ops_in is not None:
        rp = os.path.join(ctx.work, "%s.%s.replay" % (NAME, label))
        open(rp, "w").write("\n".join(ops_in) + "\n")
        e["VERIF_REPLAY"] = rp
    rc, out = ctx.go_test(PKG, TEST, env=e, timeout=3000)
    opsf, implf = os.path.join(ctx.work, NAME + ".ops"), os.path.join(ctx.work, NAME + ".impl")
    if rc != 0 or not os.path.exists(opsf):
        ctx.tie_failures.append("harness %s %s failed to run (rc=%d): %s" % (PKG, TEST, rc, out[-600:]))
        return
    ops, impl = ctx.read_lines(opsf), ctx.read_lines(implf)
    mf = os.path.join(ctx.work, "%s.%s.model.out" % (NAME, label))
    if ctx.driver("c44", [], opsf, mf) != 0:
        ctx.tie_failures.append("driver c44 failed")
        return
    model = ctx.read_lines(mf)
    if not (len(ops) == len(impl) == len(model)):
        ctx.tie_failures.append("line counts differ: ops %d impl %d model %d" % (len(ops), len(impl), len(model)))
        return
    harness = {"pkg": PKG, "test": TEST, "name": NAME}
    dist = ctx.cov["distribution"]
    ctx.cov["evaluations"] += len(ops)
    seen_cases = ctx.cov.setdefault("_seen", set())
    mon, start, done = None, 0, False
    info = None
    nontrivial = reported = ncases = 0

    def bump(k, n=1):
        dist[k] = dist.get(k, 0) + n

    def close_case(end):
        nonlocal nontrivial
        if mon is None:
            return
        text = "\n".join(split_op(o)[0] for o in ops[start:end])
        h = hash(text)
        if h in seen_cases:
            return
        seen_cases.add(h)
        # non-trivial: something was admitted, something was refused for a reason other than the size cap, a block removed
        # something from the pool (committed or no longer valid), and something survived a block
        if info["ok"] and info["refused"] and info["shrunk"] and info["survived"]:
            nontrivial += 1
            if len(ctx.cov["samples"]) < 5 and nontrivial % 23 == 1:
                ctx.cov["samples"].append(" ; ".join(ops[start:min(end, start + 12)])[:700])

    for i, (line, a, b) in enumerate(zip(ops, impl, model)):
        op, ann = split_op(line)
        f = op.split()
        if not f:
            continue
        k = f[0]
        if k == "reset":
            close_case(i)
            ncases += 1
            mon, start, done = Monitor(f[1:]), i, False
            info = {"ok": 0, "refused": 0, "shrunk": 0, "survived": 0}
            p = kv(f[1:])
            bump("blk=%s" % ("small" if p.get("blk") != "0" else "default"))
            bump("fac=%s" % p.get("fac"))
        if mon is None:
            continue
        sub = k
        if k == "rem":
            sub = "rem:" + (a.split() or ["?"])[0]
            if len(f) == 2 and f[1].startswith("@"):
                sub = "rem-again:" + (a.split() or ["?"])[0]
        elif k == "blk":
            sub = "blk:" + ("stash" if "stash" in f else "pick") + (":noids" if "noids" in f else "")
        bump(sub)
        rk = kv(a.split()[1:]) if a.split() else {}
        for key in ("w", "so"):
            if rk.get(key) not in (None, "0"):
                bump("%s>0" % key)
        if rk.get("m") not in (None, "0"):
            bump("feeMultiplier>0")
        before = mon.prev
        hit = mon.step(op, ann, a)
        if k == "rem":
            if a.startswith("ok "):
                info["ok"] += 1
            elif not a.startswith("cap "):
                info["refused"] += 1
        if k in ("blk", "dev"):
            now = mon.prev
            if len(now) < len(before):
                info["shrunk"] += 1
                bump("recompute:dropped-groups", len(before) - len(now))
            if now:
                info["survived"] += 1
        if done:
            continue
        if hit:
            done = True
            if reported < 4:
                reported += 1
                ctx.violation("monitor: " + hit, {"kind": "monitor", "ops": [split_op(o)[0] for o in ops[start:i + 1]], "index": i - start,
                                                  "op": line, "impl_out": a, "model_out": b, "harness": harness}, found_input=True)
        elif a != b:
            done = True
            if reported < 4:
                reported += 1
                ctx.violation("real TransactionPool and Model.Pool disagree on `%s`: implementation `%s`, model `%s`" % (op[:100], a[:160], b[:160]),
                              {"kind": "correspondence", "ops": [split_op(o)[0] for o in ops[start:i + 1]], "index": i - start, "op": line,
                               "impl_out": a, "model_out": b, "harness": harness}, found_input=True)
    close_case(len(ops))
    ctx.cov["distinct_nontrivial"] += nontrivial
    bump("cases", ncases)


def corpus_ops():
    cdir = os.path.join(os.path.dirname(os.path.dirname(os.path.abspath(__file__))), "corpus", "C44")
    out = []
    if os.path.isdir(cdir):
        for fn in sorted(os.listdir(cdir)):
            if fn.endswith(".ops"):
                out += [l for l in open(os.path.join(cdir, fn)).read().splitlines() if l.strip()]
    return out


def run(ctx, replay_ops=None):
    ctx.overlay()
    ctx.assumptions += [
        "the ledger evaluator is an arbitrary function `tryGroup : S → group → ok S | noSpace | err` (a call that does not accept leaves the evaluator unchanged); "
        "parts (a) and (c) of pool_inv additionally assume LedgerOK: an accepted group has pairwise distinct txids none of which the evaluator has seen "
        "(committed in window or accepted earlier), and accepting records exactly them — BlockEvaluator.transaction's checkDup / addTx (C11 covers the ledger side)",
        "StartEvaluator succeeds at every recompute (pendingBlockEvaluator is never nil): the new evaluator state is an argument of the op",
        "the size bound is proved as coded: #pending ≤ TxPoolSize + #pending state-proof singletons (stateproofOverflowed is cleared by every recompute, so one more "
        "state-proof transaction may pass the cap in every round); `≤ TxPoolSize + 1` holds under the extra hypothesis that an evaluator chain accepts at most one state-proof singleton",
        "timing is not modelled: locks, the wait of ingest for OnNewBlock, assembly deadlines and the content of AssembleBlock's result",
        "the tie cannot build a VALID state-proof transaction (needs 2 state-proof intervals of blocks and Falcon keys): the cap exemption flag is exercised with state-proof transactions the evaluator rejects",
    ]
    proved = ctx.prove(["AlgoVerif.Props.C44"])
    okb, out = ctx.lean_build(["c44"])
    if not okb:
        raise RuntimeError("driver c44 does not build: " + out[-800:])
    env = {}
    if not proved:
        env["VERIF_BUDGET_SCALE"] = "600" if ctx.tier == "quick" else "200"
    ctx.cov["rule"] = ("a case = one real ledger + pool (`reset`: TxPoolSize 2..16, MaxTxnBytesPerBlock 250..2500 bytes in 70% of the cases else the current 5 MB, MaxTxnLife 3..20, "
                       "TxPoolExponentialIncreaseFactor 0..4, 2..6 funded accounts of 10 minimum balances) driven for 25..75 ops: Remember of fresh groups (1..4 payments / closes, amounts 0..9 "
                       "minimum balances so that spends of one balance conflict, fees below / at / above the minimum and far above, windows ending this or next round or opening later, leases, missing "
                       "group ids, oversize groups, state-proof transactions, the empty group), Remember of earlier groups again, AssembleBlock / AssembleDevModeBlock, blocks from the pool's own "
                       "assembly or built independently from random pending groups and fresh (possibly conflicting) groups, with or without delta.Txids, stale OnNewBlock calls. Non-trivial = a case in which "
                       "a group was admitted, one was refused for a reason other than the cap, a block removed pending groups and some group survived a block; distinct = distinct op sequences. The corpus runs first.")
    if replay_ops is not None:
        one_run(ctx, env, replay_ops, "replay")
    else:
        cops = corpus_ops()
        if cops:     # the corpus cases run first, in the same harness process as the generated ones
            pf = os.path.join(ctx.work, NAME + ".prefix")
            open(pf, "w").write("\n".join(cops) + "\n")
            env["VERIF_C44_PREFIX"] = pf
            ctx.cov["distribution"]["corpus-ops"] = len(cops)
        one_run(ctx, env, None, "random")
    ctx.cov.pop("_seen", None)


def replay(ctx, path):
    common.std_replay(ctx, path, run)
