"""C39 — state proofs verify iff enough valid signatures back them.
Tie C: the real Prover (IsValid/Add/CreateProof) and Verifier.Verify on real participants with real Merkle-signature
keys, random signing subsets around the proven-weight threshold and single-field mutations of the valid proofs, against
Model.StateProof instantiated with ideal primitives (symbolic signatures, binding vector commitments, the coin XOF as
the table of coins the REAL generator produced).  The monitor evaluates the property on the implementation's verdicts
alone: honest proofs verify; every single-field mutation is rejected; a forged proof (built from scratch with
self-consistent commitments) is accepted only if every coin is answered by a valid signature of a positive-weight participant
whose interval [L, L+Weight) contains it over the naturals.  A second stream drives the real
stateproof/verify.ValidateStateProof / AcceptableStateProofWeight (ledger context) against Model.StateProof.validateStateProof."""
import common

T, PREC, MAXR = 45427, 16, 640     # ln2IntApproximation, precisionBits, MaxReveals (C38's `consts` op re-reads them from the tree)

ALWAYS_REJECT = {"msg", "siggarble", "sigsalt", "sigempty", "L", "swap", "w", "pk", "life", "sigcommit", "partcom",
                 "sigpath", "partpath", "sigdepth", "partdepth", "salt", "revdel", "revadd", "revmove", "posswap"}


def _nd(sw, lnp, st):
    d = sw.bit_length() - 1
    y = sw * sw + (1 << (d + 2)) * sw + (1 << (2 * d))
    x = 3 * (1 << PREC) * (sw * sw - (1 << (2 * d)))
    w = d * (T - 1)
    return st * T * y, x + (w - lnp) * y


def _weights_ok(sw, lnp, n, st):
    if n > MAXR or sw == 0:
        return False
    N, D = _nd(sw, lnp, st)
    return n * D >= N


def _nums(s):
    return [] if s in ("-", "") else [int(x) for x in s.split(",")]


def parse_op(op):
    f = op.split()
    if not f or f[0] != "sp":
        return None
    d = dict(kv.split("=", 1) for kv in f[1:])
    o = {k: int(d[k]) for k in ("msg", "rnd", "pw", "lnpw", "st", "life")}
    ps = [p.split(":") for p in d["parts"].split(",")]
    o["weights"] = [int(p[0]) for p in ps]
    o["keys"] = [int(p[1]) for p in ps]
    o["signers"] = _nums(d["signers"])
    o["coins"] = _nums(d["coins"])
    o["mcoins"] = None if d["mcoins"] == "-" else _nums(d["mcoins"])
    o["mut"] = d["mut"].split(":")
    return o


def parse_res(r):
    return dict(kv.split("=", 1) for kv in r.split() if "=" in kv)


def _slots(o):
    """cumulative weights of the signature slots: position -> (L, weight) for the signers"""
    sg, L, out = set(o["signers"]), 0, {}
    for p, w in enumerate(o["weights"]):
        if p in sg:
            out[p] = (L, w)
            L += w
    return out, L


def _slot_of(slots, c):
    for p, (L, w) in slots.items():
        if L <= c < L + w:
            return p
    return None


def monitor(op, impl):
    """The property evaluated on the implementation's outputs alone (ground truth = the symbolic data of the op line)."""
    try:
        if op.startswith("fg "):
            return monitor_forge(op, impl)
        o = parse_op(op)
        if o is None:
            return None
        r = parse_res(impl)
        if impl.startswith("PANIC"):
            return "the implementation panicked"
        slots, sw = _slots(o)
        m = o["mut"]
        create = r.get("create", "")
        if m[0] == "none":
            if o["pw"] == 0 or sw <= o["pw"]:
                if create == "ok":
                    return "a proof was created although the signed weight %d does not exceed the proven weight %d" % (sw, o["pw"])
                return None
            N, D = _nd(sw, o["lnpw"], o["st"])
            if D <= 0 or N // D >= MAXR:
                if create == "ok":
                    return "a proof was created although the reveal equation has no admissible solution"
                return None
            if create != "ok":
                return "CreateProof failed (%s) although signed weight %d > proven weight %d and the reveal count is admissible" % (create, sw, o["pw"])
            if r.get("verify") != "ok":
                return "the honest proof (signed weight %d > proven weight %d) is rejected: %s" % (sw, o["pw"], r.get("verify"))
            nr = int(r["nr"])
            pos = _nums(r["pos"])
            if len(pos) != nr or nr != N // D + 1:
                return "the proof lists %d positions for %d reveals (expected %d)" % (len(pos), nr, N // D + 1)
            for j, p in enumerate(pos):
                if _slot_of(slots, o["coins"][j]) != p:
                    return "coin %d = %d is mapped to position %d whose slot does not contain it" % (j, o["coins"][j], p)
            rev = dict((int(a), (int(b), int(c))) for a, b, c in (x.split(":") for x in r["rev"].split(",")))
            if set(rev) != set(pos) or any(rev[p] != slots[p] for p in rev):
                return "the reveals are not exactly the committed (L, weight) of the listed positions"
            return None
        if create != "ok":
            return None
        verdict = r.get("verify", "")
        N, D = _nd(sw, o["lnpw"], o["st"])
        nr = N // D + 1
        pos = [_slot_of(slots, c) for c in o["coins"][:nr]]
        k = m[0]
        must = False
        if k in ALWAYS_REJECT:
            must = True
        elif k == "round":
            must = o["life"] == 0 or int(m[1]) // o["life"] != o["rnd"] // o["life"]
        elif k == "sigof":
            p, key, rd, msg = int(m[1]), int(m[2]), int(m[3]), int(m[4])
            must = not (key == o["keys"][p] and rd // o["life"] == o["rnd"] // o["life"] and msg == o["msg"])
        elif k == "posset":
            must = int(m[2]) != pos[int(m[1])]
        elif k == "sw":
            x = int(m[1])
            if x != sw:
                cs = o["mcoins"] or []
                legit = _weights_ok(x, o["lnpw"], nr, o["st"]) and len(cs) >= nr and all(
                    slots[pos[j]][0] <= cs[j] < slots[pos[j]][0] + slots[pos[j]][1] for j in range(nr))
                must = not legit          # accepted only if every coin of the NEW seed happens to hit its listed slot
        elif k == "posdrop":
            must = not _weights_ok(sw, o["lnpw"], nr - 1, o["st"])
        elif k == "posadd":
            p = int(m[1])
            must = not (nr + 1 <= MAXR and p in pos and _slot_of(slots, o["coins"][nr]) == p)
        if must and verdict == "ok":
            return "the tampered proof (%s) is accepted" % ":".join(m)
    except (ValueError, IndexError, KeyError, ZeroDivisionError):
        return "unparsable implementation output %r for %r" % (impl[:80], op[:80])
    return None


def monitor_forge(op, impl):
    """Soundness on forged proofs (attacker-chosen signature array with self-consistent commitments): Verify accepts only if
    every listed position is revealed, carries a VALID signature of a participant with Weight > 0, and its coin lies in
    [L, L+Weight) over the naturals (no uint64 wrap); hence the distinct revealed signers have positive total weight."""
    f = op.split()
    d = dict(kv.split("=", 1) for kv in f[1:])
    if impl.startswith("PANIC"):
        return "the implementation panicked"
    r = parse_res(impl)
    if r.get("verify") != "ok":
        return None
    ps = [p.split(":") for p in d["parts"].split(",")]
    weights, keys = [int(p[0]) for p in ps], [int(p[1]) for p in ps]
    sigs = {}
    if d["sigs"] != "-":
        for t in d["sigs"].split(","):
            a, b, c = (int(x) for x in t.split(":"))
            sigs[a] = (b, c)
    pos, rev, coins, st = _nums(d["pos"]), _nums(d["rev"]), _nums(d["coins"]), int(d["st"])
    what = "forged proof accepted (claimed signed weight %s, proven weight %s, %d reveals): " % (d["sw"], d["pw"], len(pos))
    if not pos and st != 0:
        return what + "no position is revealed at strength %d" % st
    for p in rev:
        if p not in sigs or sigs[p][1] != keys[p]:
            return what + "the reveal of position %d carries no valid signature of that participant" % p
    for j, p in enumerate(pos):
        if p not in rev:
            return what + "position %d is not revealed" % p
        L, W = sigs[p][0], weights[p]
        if W == 0:
            return what + "coin %d is answered by the ZERO-weight participant %d (L=%d)" % (j, p, L)
        if not (L <= coins[j] < L + W):
            return what + "coin %d = %d is outside [L, L+Weight) = [%d, %d) of position %d" % (j, coins[j], L, L + W, p)
    if pos and sum(weights[p] for p in set(pos)) == 0:
        return what + "the revealed signers have no weight"
    return None


M64 = 1 << 64


def _muldiv(a, b, c):
    if c == 0 or a * b // c >= M64:
        return None
    return a * b // c


def _acceptable(total, ivl, thr, last, first):
    """calculateAcceptableStateProofWeight, re-stated"""
    half = ivl // 2
    off = max(first - last, 0)
    if off == 0:
        return total
    off = max(off - half, 0)
    if off == 0:
        return total
    pw = _muldiv(total, thr, 1 << 32)
    if pw is None or pw > total:
        return 0
    if off >= half:
        return pw
    sc = _muldiv(total - pw, half - off, half)
    if sc is None or pw + sc >= M64:
        return 0
    return pw + sc


def monitor_ledger(op, impl):
    """ValidateStateProof accepts only what the ledger context allows, and accepts the honest proof in its context."""
    try:
        f = op.split()
        d = dict(kv.split("=", 1) for kv in f[1:])
        if impl.startswith("PANIC"):
            return "the implementation panicked"
        if f[0] == "accw":
            total, thr, ivl, hdr, first = (int(d[k]) for k in ("total", "thr", "ivl", "hdr", "first"))
            r = int(impl)
            if thr < (1 << 32) and not (total * thr >> 32) <= r <= total:
                return "acceptable weight %d outside [proven weight %d, total %d]" % (r, total * thr >> 32, total)
            if r != _acceptable(total, ivl, thr, hdr + ivl, first):
                return "acceptable weight %d is not the ramp value %d" % (r, _acceptable(total, ivl, thr, hdr + ivl, first))
            return None
        if f[0] != "vsp":
            return None
        r = parse_res(impl)
        if r.get("create") != "ok":
            return None
        o = parse_op("sp " + " ".join(kv for kv in f[1:] if kv.split("=")[0] in
                                      ("msg", "rnd", "pw", "lnpw", "st", "life", "parts", "signers", "coins", "mcoins")) + " mut=none")
        _, sw = _slots(o)
        total, thr, ivl, last, at, vmsg = (int(d[k]) for k in ("total", "thr", "ivl", "last", "at", "vmsg"))
        pw = _muldiv(total, thr, 1 << 32)
        structural = ivl != 0 and last % ivl == 0 and sw >= _acceptable(total, ivl, thr, last, at) and pw not in (None, 0)
        same_stmt = vmsg == o["msg"] and o["life"] != 0 and last // o["life"] == o["rnd"] // o["life"]
        v = r.get("validate", "")
        if v == "ok" and not (structural and same_stmt):
            return "ValidateStateProof accepts outside its ledger context (ivl=%d last=%d at=%d signed=%d acceptable=%d msg %d/%d)" % (
                ivl, last, at, sw, _acceptable(total, ivl, thr, last, at) if ivl else -1, vmsg, o["msg"])
        if v != "ok" and structural and same_stmt and pw == o["pw"]:
            return "ValidateStateProof rejects the honest proof in its own ledger context: %s" % v
    except (ValueError, IndexError, KeyError, ZeroDivisionError):
        return "unparsable implementation output %r for %r" % (impl[:80], op[:80])
    return None


def trivial(op):
    if op.startswith("fg "):
        return False
    if op.startswith("accw "):
        return " ivl=0 " in op or " total=0 " in op
    if op.startswith("vsp "):
        op = "sp " + " ".join(kv for kv in op.split()[1:] if kv.split("=")[0] in
                              ("msg", "rnd", "pw", "lnpw", "st", "life", "parts", "signers", "coins", "mcoins")) + " mut=none"
    o = parse_op(op)
    if o is None:
        return True
    _, sw = _slots(o)
    return o["pw"] == 0 or sw <= o["pw"]      # no proof can be built


def kind_of(op):
    if not op.startswith("sp "):
        return op.split(" ", 1)[0]
    i = op.find(" mut=")
    return "mut:" + op[i + 5:].split(" ", 1)[0].split(":", 1)[0] if i >= 0 else "?"


def run(ctx, replay_ops=None):
    ctx.overlay()
    ctx.assumptions += [
        "ideal signatures: Verifier.VerifyBytes is the oracle `sigOk pk keyRound msg sig`; a signature verifies for at most one (key, key period, message) (hypothesis SigBinding of the tamper theorems)",
        "vector commitments (crypto/merklearray, C37) are an abstract scheme: completeness and position-binding soundness are hypotheses of the theorems (C37 proves them for the model of merklearray under its own hash hypotheses)",
        "the coin XOF (SHAKE256 over the seed encoding) is a random-oracle parameter H : seed -> stream of 64-bit draws; no probability is proved — soundness_probabilistic_Statement is stated and NOT proved",
        "the sum of the participants' weights is < 2^64 (no uint64 wrap in signedWeight / L); lnProvenWeight is taken as given (float64 LnIntApproximation not modelled)",
        "the Go map Reveals is an association list with distinct keys, walked in list order; Prover.cachedProof is not modelled",
        "a verification round inside the SAME Merkle-signature key period as the signed round is not a tamper the verifier can detect (firstRoundInKeyLifetime); the ledger fixes the round (ValidateStateProof) — modelled, and proved as round_same_period_accepted",
    ]
    proved = ctx.prove(["AlgoVerif.Props.C39"])
    ok, out = ctx.lean_build(["c39"])
    if not ok:
        raise RuntimeError("model driver does not build: " + out[-800:])
    env = {}
    if not proved:
        env["VERIF_BUDGET_SCALE"] = "1000" if ctx.tier == "quick" else "300"
    ctx.cov["rule"] = ("case = participant set (1..32 participants, weights tiny / realistic stake / mixed with zero weights / one whale, 6 real "
                       "Merkle-signature key sets with 3 key periods each) x signing subset x proven weight just below / at / just above / well "
                       "below the signed weight x strength target in {0..256}; per case the honest proof plus ~45 single-field mutations "
                       "(message, round, signature bytes / key / salt, slot L, reveal swap, participant weight / key / lifetime, SignedWeight, "
                       "SigCommit / participants commitment / proof path / tree depth, positions edits incl. coins on slot boundaries, salt version, "
                       "reveals map edits); forged proofs built from scratch (attacker-chosen signature array incl. zero-weight-only signers, "
                       "free L values — cumulative / overlapping / shifted / at the top of the uint64 range —, honest SigCommit and openings over it, claimed "
                       "SignedWeight, positions fitted to the coins after commitment; exhaustive grid Weight 0..3 x L 0..4 x claimed weight 1..6, Boundary64 pairs); second stream: the real ValidateStateProof on honest proofs whose message is stateproofmsg.Message.Hash(), "
                       "with the ledger context varied (validation round across the acceptable-weight ramp, interval 0 / non-dividing, attested round "
                       "off the grid or in another key period, other message, other total weight / threshold) and AcceptableStateProofWeight on "
                       "boundary-biased operands; an op is trivial when no proof can be built (signed weight <= proven weight or proven weight 0) "
                       "or the acceptable-weight operands are degenerate; distinct = distinct op lines")
    sp_ops = led_ops = None
    if replay_ops is not None:
        sp_ops = [o for o in replay_ops if o.startswith(("sp ", "fg "))]
        led_ops = [o for o in replay_ops if not o.startswith(("sp ", "fg "))]
    res = None
    if replay_ops is None or sp_ops:
        res = common.correspondence(ctx, pkg="./crypto/stateproof", test="TestVerifC39", name="c39", drivers=[("c39", [], "model")],
                                    trivial=trivial, kind_of=kind_of, env=env, model_is_spec=False, monitor=monitor,
                                    what="state-proof prover/verifier outcome differs from the proved model", replay_ops=sp_ops)
    if replay_ops is None or led_ops:
        resl = common.correspondence(ctx, pkg="./crypto/stateproof", test="TestVerifC39Ledger", name="c39l", drivers=[("c39", [], "model")],
                                     trivial=trivial, kind_of=kind_of, env=env, model_is_spec=False, monitor=monitor_ledger,
                                     what="ValidateStateProof / AcceptableStateProofWeight outcome differs from the proved model", replay_ops=led_ops)
        if resl:
            lv = {}
            for o, a in zip(resl[0], resl[1]):
                if o.startswith("vsp "):
                    k = parse_res(a).get("validate") or ("create=" + parse_res(a).get("create", "?"))
                    lv[k] = lv.get(k, 0) + 1
            ctx.cov["distribution"]["ledger_validate_verdicts"] = lv
    if res:
        ops, impl, _ = res
        br, honest_ok, rejected, accepted_legit = {}, 0, 0, 0
        for o, a in zip(ops, impl):
            r = parse_res(a)
            k = kind_of(o)
            key = "%s -> %s" % (k, r.get("verify") or ("create=" + r.get("create", "?")))
            br[key] = br.get(key, 0) + 1
            if k == "fg":
                continue
            if k == "mut:none" and r.get("verify") == "ok":
                honest_ok += 1
            elif k != "mut:none" and r.get("verify", "").startswith("err"):
                rejected += 1
            elif k != "mut:none" and r.get("verify") == "ok":
                accepted_legit += 1
        ctx.cov["distribution"]["mutation_verdicts"] = br
        ctx.cov["distribution"]["honest_proofs_verified"] = honest_ok
        ctx.cov["distribution"]["mutations_rejected"] = rejected
        ctx.cov["distribution"]["non_tamper_variants_accepted"] = accepted_legit


def replay(ctx, path):
    common.std_replay(ctx, path, run)
