"""C38 — state proof prover and verifier agree on the required reveals.
Ties: C (real getSubExpressions/numReveals/verifyWeights/prepareRejectionSamplingThreshold/getNextCoin vs
Model.StateProofWeights, exact big-integer agreement) + F (the `consts` op: precisionBits, ln2IntApproximation,
MaxReveals, VersionForCoinGenerator of the current tree vs the model's copies)."""
import common

T, PREC, MAXR, M64 = 45427, 16, 640, 1 << 64   # only used by the monitor; the `consts` op checks them against the tree


def _sub(sw):
    d = sw.bit_length() - 1
    y = sw * sw + (1 << (d + 2)) * sw + (1 << (2 * d))
    x = 3 * (1 << PREC) * (sw * sw - (1 << (2 * d)))
    w = d * (T - 1)
    return y, x, w


def _nd(sw, lnp, st):
    y, x, w = _sub(sw)
    return st * T * y, x + (w - lnp) * y


def monitor(op, impl):
    """The property evaluated on the implementation's outputs alone."""
    f, r = op.split(), impl.split()
    k = f[0]
    try:
        if k == "mon" and r and r[0] == "ok":
            sw, lnp, st = int(f[1]), int(f[2]), int(f[3])
            n, a, b = int(r[1]), r[2], r[3]
            N, D = _nd(sw, lnp, st)
            if a != "ok":
                return "numReveals(%d,%d,%d) = %d but verifyWeights rejects that count (%s)" % (sw, lnp, st, n, a)
            if n * D < N or n > MAXR:
                return "numReveals(%d,%d,%d) = %d violates the verifier inequality" % (sw, lnp, st, n)
            if n > 0:
                viol = (n - 1) * D < N
                if viol and b == "ok":
                    return "verifyWeights accepts %d reveals although the inequality is violated" % (n - 1)
                if not viol and b != "ok":
                    return "verifyWeights rejects %d reveals although the inequality holds" % (n - 1)
        elif k == "nr" and r and r[0] == "ok":
            sw, lnp, st, n = int(f[1]), int(f[2]), int(f[3]), int(r[1])
            N, D = _nd(sw, lnp, st)
            if sw == 0 or D <= 0 or n * D < N or n > MAXR:
                return "numReveals(%d,%d,%d) = %d violates the verifier inequality" % (sw, lnp, st, n)
        elif k == "vw" and r:
            sw, lnp, n, st = int(f[1]), int(f[2]), int(f[3]), int(f[4])
            if n > MAXR or sw == 0:
                bad = True
            else:
                N, D = _nd(sw, lnp, st)
                bad = n * D < N
            if bad and r[0] == "ok":
                return "verifyWeights(%d,%d,%d,%d) accepts a count violating the inequality / bounds" % (sw, lnp, n, st)
            if not bad and r[0] != "ok":
                return "verifyWeights(%d,%d,%d,%d) rejects a count satisfying the inequality" % (sw, lnp, n, st)
        elif k == "thr" and r and r[0] != "PANIC":
            sw = int(f[1])
            if sw >= 1 and int(r[0]) != (M64 // sw) * sw:
                return "rejection threshold for signedWeight %d is %s, not floor(2^64/sw)*sw" % (sw, r[0])
        elif k == "coin" and r and r[0] != "PANIC":
            sw = int(f[1])
            if not int(r[0]) < sw:
                return "coin %s not below signedWeight %d" % (r[0], sw)
        elif k == "xcoins" and r and r[0] != "PANIC":
            sw = int(f[1])
            for c in r[0].split(","):
                if c and not int(c) < sw:
                    return "coin %s not below signedWeight %d" % (c, sw)
    except (ValueError, IndexError):
        return "unparsable implementation output %r for %r" % (impl[:80], op[:80])
    return None


def trivial(op):
    f = op.split()
    return f[0] == "consts" or (len(f) > 1 and f[1] in ("0", "1"))


def run(ctx, replay_ops=None):
    ctx.overlay()
    ctx.assumptions += [
        "uint64 arguments are modelled as Nat (all harness operands are < 2^64); big.Int values as Int",
        "lnProvenWeight is taken as given: the floating-point LnIntApproximation (math.Log) is not modelled",
        "the XOF (SHAKE256 over the seed encoding) is a parameter: getNextCoin is modelled over the stream of 64-bit draws; "
        "uniformity is the exact counting statement about accepted draws, not a probabilistic one",
        "signedWeight = 0 is outside the prover-side domain (getSubExpressions panics there; reached only behind Prover.Ready, modelled)",
    ]
    proved = ctx.prove(["AlgoVerif.Props.C38"])
    ok, out = ctx.lean_build(["c38"])
    if not ok:
        raise RuntimeError("model driver does not build: " + out[-800:])
    env = {}
    if not proved:
        env["VERIF_BUDGET_SCALE"] = "1000" if ctx.tier == "quick" else "300"
    ctx.cov["rule"] = ("ops = fixed corpus (quotient at/over the uint64 boundary) + boundary grid (signedWeight at 2^k-1/2^k/2^k+1 and small; "
                       "lnProvenWeight = ln of proven weights around the signed weight, the zero of the denominator ±2, w(sw)±1, extremes; "
                       "strengthTarget boundaries and the values landing the count on MaxReveals) + exact-equality cases n*D = N + "
                       "seeded realistic/random triples + scripted-XOF coin draws at the threshold edges + the real SHAKE generator; "
                       "an op is trivial when signedWeight is 0 or 1 (every count fails) or it is the constants line; distinct = distinct op lines")
    res = common.correspondence(ctx, pkg="./crypto/stateproof", test="TestVerifC38", name="c38", drivers=[("c38", [], "model")],
                                trivial=trivial, env=env, model_is_spec=True, monitor=monitor,
                                what="state-proof weights/coin arithmetic differs from the proved model", replay_ops=replay_ops)
    if res:
        ops, impl, _ = res
        br = {}
        for o, a in zip(ops, impl):
            k = o.split(" ", 1)[0]
            if k in ("mon", "nr", "vw"):
                key = "%s:%s" % (k, " ".join(a.split()[:2]) if a.startswith("err") else a.split()[0] if a else "")
                br[key] = br.get(key, 0) + 1
        ctx.cov["distribution"]["result_branches"] = br
        oks = [int(a.split()[1]) for o, a in zip(ops, impl) if o.startswith("mon ") and a.startswith("ok ")]
        ctx.cov["distribution"]["distinct_ok_counts"] = len(set(oks))


def replay(ctx, path):
    common.std_replay(ctx, path, run)
