"""C43 — peers never deliver oversized or duplicate gossip to handlers.
Ties: F (protocol.TagList + MaxMessageSize + read-loop constants -> Gen/Tags.lean, regenerated every run),
      C (the real LimitedReaderSlurper / messageFilter / wsPeer.readLoop vs Model.Net over the same op lines),
plus monitors evaluated on the implementation's output alone (size <= limit, capacity <= maxAllocation, Bytes = stream,
TooLarge iff over the limit, no duplicate reported new / delivered within the retention window, no false positive)."""
import os
import common
import vf

DEDUP_SAFE = {"4156", "5458"}   # "AV", "TX" (hex), the duplicate-safe tags named by the property
# tags the read loop hands to the handlers that are NOT duplicate-safe: PP NP SP UE VB NI — a repeated message must still arrive
NOT_DEDUP_SAFE = {"5050", "4e50", "5350", "5545", "5642", "4e49"}


def kv(line):
    d = {}
    for t in line.split():
        if "=" in t:
            k, v = t.split("=", 1)
            d[k] = v
    return d


def ints(s):
    return [int(x) for x in s.split("/") if x != ""]


def line_monitor(op, impl):
    """property predicates that can be decided from one op line and the implementation's result line"""
    f = op.split()
    if not f:
        return None
    if f[0] == "sread":
        r = impl.split()
        if not r or r[0].startswith("PANIC"):
            return "slurper panicked: " + impl[:80]
        d = kv(impl)
        try:
            size, mx, alloc, left = int(d["size"]), int(d["max"]), int(d["alloc"]), int(d["left"])
            caps, lens = ints(d["caps"]), ints(d["lens"])
        except (KeyError, ValueError):
            return "unparsable slurper state: " + impl[:80]
        ln = int(f[1])
        if mx > 0 and size > mx:
            return "slurper holds %d bytes, more than the message limit %d" % (size, mx)
        if sum(caps) > alloc:
            return "slurper allocated %d bytes, more than maxAllocation %d" % (sum(caps), alloc)
        if any(l > c for l, c in zip(lens, caps)) or sum(lens) != size:
            return "buffer lengths inconsistent"
        if d.get("fresh") == "true":
            if d.get("pfx") != "true":
                return "Bytes() is not the prefix of the stream that was read"
            eff = alloc if (mx == 0 or mx > alloc) else mx
            has_fail = any(t.startswith("f") for t in f[3].split(","))
            if r[0] == "ok" and (size != ln or left != 0):
                return "Read returned nil but Bytes() is not the whole stream (%d of %d)" % (size, ln)
            if not has_fail:
                if ln > eff and r[0] != "toolarge":
                    return "stream of %d bytes exceeds the limit %d but Read returned %s" % (ln, eff, r[0])
                if ln <= eff and r[0] != "ok":
                    return "stream of %d bytes is within the limit %d but Read returned %s" % (ln, eff, r[0])
    elif f[0] == "rlmsg":
        if impl.startswith("MULTI") or impl.startswith("PANIC") or impl.startswith("TIMEOUT"):
            return "read loop misbehaved: " + impl[:80]
        if impl.startswith("delivered"):
            d = kv(impl)
            lim, ln = int(d["lim"]), int(d["len"])
            if lim == 0:
                return "a message with tag %s reached the handlers although the tag has no size limit" % d["tag"]
            if ln > lim:
                return "a %d byte message reached the handlers, tag limit is %d" % (ln, lim)
            if d.get("eq") != "true":
                return "the delivered message is not the message that was sent"
    return None


class Window:
    """dedup window monitor for one filter: after a digest was inserted (reported new, or promoted) it must be reported
    as seen while fewer than (buckets-1)*maxBucketSize add-operations on other digests happened."""
    def __init__(self, nb, m):
        self.k = max(nb - 1, 0) * m
        self.adds = 0
        self.stamp, self.own, self.ever = {}, {}, set()

    def op(self, d, add, promote, has):
        hit = None
        if d in self.stamp:
            other = self.adds - self.stamp[d] - self.own[d]
            if other < self.k and not has:
                hit = "digest %s reported new again after only %d other additions (window %d)" % (d, other, self.k)
        if has and d not in self.ever:
            hit = "digest %s reported as seen but was never added" % d
        if add:
            self.adds += 1
            self.ever.add(d)
            if (not has) or promote:
                self.stamp[d] = self.adds
                self.own[d] = 0
            elif d in self.stamp:
                self.own[d] += 1
        return hit


def sequence_monitor(ops, impl):
    """history-dependent predicates; returns (index, message) of the first hit, or None"""
    w = None
    rw = None
    for i, (op, res) in enumerate(zip(ops, impl)):
        f = op.split()
        if not f:
            continue
        hit = None
        if f[0] == "fmake":
            w = None if res.startswith("PANIC") else Window(int(f[1]), int(f[2]))
        elif f[0] in ("fcheck", "fmsg") and w is not None:
            r = res.split()
            if r and r[0] in ("true", "false"):
                key = f[1] if f[0] == "fcheck" else f[1] + ":" + f[2]
                hit = w.op(key, f[-2] == "true", f[-1] == "true", r[0] == "true")
        elif f[0] in ("rlnew", "wsnew"):
            rw = Window(int(f[2]), int(f[3])) if int(f[2]) > 0 else None
        elif f[0] == "rlmsg" and f[2].lstrip("x") in NOT_DEDUP_SAFE and res == "dropped":
            hit = "a message with the non-duplicate-safe tag %s was dropped instead of delivered" % f[2].lstrip("x")
        elif f[0] == "rlmsg" and rw is not None:
            tag = f[2].lstrip("x")
            if tag in DEDUP_SAFE and int(f[3]) > 0 and (res.startswith("delivered") or res == "dropped"):
                key = "%s:%s:%s" % (tag, f[3], f[4])
                hit = rw.op(key, True, True, res == "dropped")
                if hit:
                    hit = "duplicate gossip delivered: " + hit
        if hit:
            return i, hit
    return None


def trivial(op):
    f = op.split()
    return f[0] in ("consts", "smake", "sreset", "fmake", "rlnew", "wsnew")


def case_slices(ops):
    """start index of the case (smake / fmake / rlnew) each op belongs to"""
    start, cur = [], 0
    for i, op in enumerate(ops):
        if op.split()[0] in ("smake", "fmake", "rlnew", "wsnew"):
            cur = i
        start.append(cur)
    return start


def correspond(ctx, env, replay_ops):
    """common.correspondence for a STATEFUL line protocol: a replay file carries the whole case (from its smake / fmake /
    rlnew / wsnew line) up to the offending op, so that replaying it reproduces the state."""
    pkg, test, name = "./network", "TestVerifC43", "c43"
    e = dict(env)
    if replay_ops is not None:
        rp = os.path.join(ctx.work, name + ".replay")
        open(rp, "w").write("\n".join(replay_ops) + "\n")
        e["VERIF_REPLAY"] = rp
    rc, out = ctx.go_test(pkg, test, env=e, timeout=3000)
    opsf, implf = os.path.join(ctx.work, name + ".ops"), os.path.join(ctx.work, name + ".impl")
    if rc != 0 or not os.path.exists(opsf):
        ctx.tie_failures.append("harness %s %s failed to run (rc=%d): %s" % (pkg, test, rc, out[-600:]))
        return None
    ops, impl = ctx.read_lines(opsf), ctx.read_lines(implf)
    ctx.account(ops, trivial=trivial)
    start = case_slices(ops)
    h = {"pkg": pkg, "test": test, "name": name}
    mf = os.path.join(ctx.work, name + ".model.out")
    drc = ctx.driver("c43", [], opsf, mf)
    if drc != 0:
        ctx.tie_failures.append("driver c43 failed rc=%d" % drc)
    else:
        model = ctx.read_lines(mf)
        bad = ctx.compare(ops, impl, model, "model")
        seen_cases = set()
        for (i, op, a, b) in bad:
            st = start[i] if i < len(start) else 0
            if st in seen_cases:
                continue          # later lines of a case that already diverged
            seen_cases.add(st)
            if len(seen_cases) > 5:
                ctx.notes.append("%d mismatching lines in total; further cases suppressed" % len(bad))
                break
            hit = line_monitor(op, a)
            ctx.violation("slurper / filter / read loop output differs from Model.Net" + ((": " + hit) if hit else ""),
                          {"kind": "correspondence", "driver": "model", "ops": ops[st:i + 1], "index": i, "impl_out": a, "model_out": b,
                           "harness": h}, found_input=True)
    for i, (op, a) in enumerate(zip(ops, impl)):
        hit = line_monitor(op, a)
        if hit:
            ctx.violation("monitor: " + hit, {"kind": "monitor", "ops": ops[start[i]:i + 1], "impl_out": a, "harness": h}, found_input=True)
            break
    hit = sequence_monitor(ops, impl)
    if hit:
        i, msg = hit
        ctx.violation("monitor: " + msg, {"kind": "monitor", "ops": ops[start[i]:i + 1], "impl_out": impl[i], "harness": h}, found_input=True)
    return ops, impl


def run(ctx, replay_ops=None):
    ctx.overlay()
    ctx.assumptions += [
        "an io.Reader is modelled as a finite stream plus a finite script of per-call behaviours (any chunking, zero-length reads, EOF with or without data, a non-EOF error); a reader that stalls forever is outside the model",
        "currentMessageBytesRead (uint64) does not wrap (would need 2^64 bytes read)",
        "filter_no_false_positive / dedup through CheckIncomingMessage: the hash is injective on the messages considered (hypothesis of the theorem)",
        "real-websocket peers (wsnew): the connection read limit SetReadLimit(MaxMessageLength) bounds tag+payload, so a frame longer than that closes the connection before delivery; this guard sits in the driver (removes deliveries only), not in the theorems",
        "read loop: websocket framing (NextReader), goroutines and channels are trusted; decompression is the identity (no compression negotiated in the harness); within-limit MI/TS payload handling is not modelled",
    ]
    # tie F: tag table and constants from the current source
    rc, out = ctx.go_test("./network", "TestVerifC43Tags")
    gen = os.path.join(ctx.work, "Tags.lean")
    if rc != 0 or not os.path.exists(gen):
        ctx.tie_failures.append("fact extraction TestVerifC43Tags failed (rc=%d): %s" % (rc, out[-400:]))
    else:
        with vf.Lock("gen"):
            vf._overlay.write_if_changed(os.path.join(vf.LEAN, "AlgoVerif", "Gen", "Tags.lean"), open(gen).read())
    proved = ctx.prove(["AlgoVerif.Props.C43"])
    okb, out = ctx.lean_build(["c43"])
    if not okb:
        raise RuntimeError("driver c43 does not build: " + out[-800:])
    env = {}
    if not proved:
        env["VERIF_BUDGET_SCALE"] = "1000" if ctx.tier == "quick" else "300"
    ctx.cov["rule"] = ("cases = (a) slurpers with small base/max/limit/stream sizes read through random scripts of chunk sizes (0, 1, around the "
                       "buffer capacity, whole stream, huge; EOF with data; rare reader errors), (b) slurpers spanning 1-4 allocation steps with sizes at the "
                       "buffer boundaries, (c) the read loop's slurper with every tag's limit at limit-1/limit/limit+1; filters with 1-5 buckets of 0-5 entries "
                       "under random add/promote/duplicate sequences; real wsPeer read loops (1-3 peers sharing a filter) fed messages of every tag at "
                       "limit-1/limit/limit+1, unknown/deprecated/truncated tags, duplicates across peers — through a scripted connection (arbitrary chunking) and "
                       "through a real websocket connection pair whose writer fragments messages into 16..65536-byte frames. Trivial = construction/reset lines; distinct = distinct op lines")
    res = correspond(ctx, env, replay_ops)
    if res is None:
        return
    ops, impl = res
    # distribution of outcomes (what the generator actually reached)
    dist = ctx.cov["distribution"]
    for op, r in zip(ops, impl):
        k = op.split()[0]
        if k in ("sread", "rlmsg", "fcheck", "fmsg"):
            key = k + ":" + (r.split()[0] if r else "")
            dist[key] = dist.get(key, 0) + 1


def replay(ctx, path):
    common.std_replay(ctx, path, run)
