"""Reusable check shapes."""
import json, os
import vf

SKIP = "-"

def correspondence(ctx, *, pkg, test, name, drivers, trivial=None, kind_of=None, env=None, timeout=1800,
                   model_is_spec=True, monitor=None, what="implementation output differs from the proved model", replay_ops=None):
    """Run the Go harness `test` in `pkg` (writes <name>.ops/.impl into ctx.work), run each driver
    (exe, args, label) on the ops, compare line by line.
    model_is_spec: a mismatch with a model whose output the theorems pin uniquely is a property violation on that input.
    monitor(op, impl_line) -> None | str : property predicate evaluated on the implementation output alone."""
    e = dict(env or {})
    if replay_ops is not None:
        rp = os.path.join(ctx.work, name + ".replay")
        open(rp, "w").write("\n".join(replay_ops) + "\n")
        e["VERIF_REPLAY"] = rp
    rc, out = ctx.go_test(pkg, test, env=e, timeout=timeout)
    opsf, implf = os.path.join(ctx.work, name + ".ops"), os.path.join(ctx.work, name + ".impl")
    if rc != 0 or not os.path.exists(opsf):
        ctx.tie_failures.append("harness %s %s failed to run (rc=%d): %s" % (pkg, test, rc, out[-600:]))
        return None
    ops, impl = ctx.read_lines(opsf), ctx.read_lines(implf)
    ctx.account(ops, trivial=trivial, kind_of=kind_of)
    allbad = []
    for exe, args, label in drivers:
        mf = os.path.join(ctx.work, "%s.%s.out" % (name, label))
        drc = ctx.driver(exe, args, opsf, mf)
        if drc != 0:
            ctx.tie_failures.append("driver %s %s failed rc=%d" % (exe, " ".join(args), drc))
            continue
        model = ctx.read_lines(mf)
        bad = [t for t in ctx.compare(ops, impl, model, label) if t[3] != SKIP]   # a driver answers SKIP for ops it does not model
        if monitor and bad:
            # report the mismatches on which the property monitor fires first (they carry a concrete failing input)
            bad = sorted(bad, key=lambda t: (0 if monitor(t[1], t[2]) else 1, t[0]))
        for (i, op, a, b) in bad[:5]:
            hit = monitor(op, a) if monitor else None
            found = model_is_spec or bool(hit)
            ctx.violation(what + (" [%s]" % label) + ((": " + hit) if hit else ""),
                          {"kind": "correspondence", "driver": label, "ops": [op], "index": i, "impl_out": a, "model_out": b,
                           "harness": {"pkg": pkg, "test": test, "name": name}}, found_input=found)
        if bad and len(bad) > 5:
            ctx.notes.append("%d further mismatches vs %s suppressed" % (len(bad) - 5, label))
        allbad += bad
    if monitor:
        for op, a in zip(ops, impl):
            hit = monitor(op, a)
            if hit:
                ctx.violation("monitor: " + hit, {"kind": "monitor", "ops": [op], "impl_out": a,
                                                  "harness": {"pkg": pkg, "test": test, "name": name}}, found_input=True)
                break
    return ops, impl, allbad


def std_replay(ctx, path, run):
    """Default replay: re-run the check's correspondence on exactly the recorded ops."""
    r = json.load(open(path))
    ops = r.get("ops")
    run(ctx, replay_ops=ops)
