"""C01 — consensus safety: no two honest nodes commit different blocks for a round.

Layer 1 (proved, Props.C01): Spec.AgreementAbs — abs_safety, commit_unique, acceptor_sound, crash_preserves_inv,
safety_with_crashes, rounds_compose, next_values_unique, for every history satisfying the local rules `WF true` under the
quorum-intersection hypothesis HQ.
Tie (this check): NetDrive — N real agreement.Service instances under a harness-owned schedule (deliver / drop / duplicate /
delay, timeouts, partitions, crash + restore, a Byzantine minority signing with real keys).  Every explored run is
projected to an abstract event trace and must be ACCEPTED by the executable acceptor `c01abs` (= checkEv of the proved
model): the refinement "real player ⊑ WF" is not a theorem, it is checked on the sampled schedules.  Independently a
monitor on the implementation alone requires all EnsureBlock digests of a round to be equal over all honest nodes and
incarnations.  Replay = the schedule (header + decisions), re-executed deterministically."""
import concurrent.futures, glob, json, os, re, shutil
import vf
import netdrive

KNOWN_WIPE = {"kind": "double-crash-state-wipe"}


# ----------------------------------------------------------------------------- running
def build_test_binary(ctx):
    exe = os.path.join(ctx.work, "agreement.test")
    rc, out = ctx.sh(["go", "test", "-c", "-overlay", ctx.ovl, "-tags", "verif", "-vet=off", "-o", exe, "./agreement"],
                     cwd=vf.REPO, timeout=2400)
    if rc != 0 or not os.path.exists(exe):
        ctx.tie_failures.append("NetDrive harness does not build against the current tree: " + out[-800:])
        return None
    return exe


def run_shard(ctx, exe, name, env, timeout):
    out_dir = os.path.join(ctx.work, name)
    shutil.rmtree(out_dir, ignore_errors=True)
    os.makedirs(out_dir)
    e = {"VERIF_OUT": out_dir, "VERIF_SEED": str(ctx.seed), "VERIF_TIER": ctx.tier}
    e.update(env)
    rc, out = ctx.sh([exe, "-test.run", "^TestVerifNetDrive$", "-test.count=1", "-test.timeout", "%ds" % timeout],
                     cwd=os.path.join(vf.REPO, "agreement"), env=e, timeout=timeout + 60)
    return {"name": name, "dir": out_dir, "rc": rc, "out": out}


def accept(ctx, shard):
    """runs c01abs on the shard's trace; returns [(schedule id, round, [(line, verdict)])]"""
    tr = os.path.join(shard["dir"], "netdrive.trace")
    if not os.path.exists(tr):
        return []
    outp = os.path.join(shard["dir"], "trace.out")
    rc = ctx.driver("c01abs", [], tr, outp, timeout=3000)
    lines, verdicts = ctx.read_lines(tr), ctx.read_lines(outp)
    if rc != 0 or len(lines) != len(verdicts):
        ctx.tie_failures.append("acceptor c01abs failed on %s (rc=%d, %d lines, %d answers)" % (tr, rc, len(lines), len(verdicts)))
        return []
    hist, cur = [], None
    for l, v in zip(lines, verdicts):
        m = re.match(r"# schedule (\d+) round (\d+)", l)
        if m:
            cur = (int(m.group(1)), int(m.group(2)), [])
            hist.append(cur)
        elif cur is not None:
            cur[2].append((l, v))
    return hist


def schedules_of(shard):
    """{id: [header + decision lines]}"""
    res, cur = {}, None
    for l in netdrive.read_lines(os.path.join(shard["dir"], "netdrive.sched")):
        if l.startswith("schedule "):
            cur = int(l.split()[1])
            res[cur] = []
        if cur is not None:
            res[cur].append(l)
    return res


def logs_of(shard):
    res = {}
    for l in netdrive.read_lines(os.path.join(shard["dir"], "netdrive.log")):
        m = re.match(r"S(\d+) (.*)", l)
        if m:
            res.setdefault(int(m.group(1)), []).append(m.group(2))
    return res


def kv(line):
    return dict(x.split("=", 1) for x in line.split() if "=" in x)


# ----------------------------------------------------------------------------- analysis
def analyse(ctx, shard, stats, corpus_name=None):
    hists = accept(ctx, shard)
    scheds, logs = schedules_of(shard), logs_of(shard)
    by_sched = {}
    for sid, rnd, evs in hists:
        by_sched.setdefault(sid, []).append((rnd, evs))
    if shard["rc"] != 0:
        last = max(scheds) if scheds else None
        tail = shard["out"][-600:]
        ctx.tie_failures.append("NetDrive harness process failed (rc=%d) in %s, last schedule %s: %s" % (shard["rc"], shard["name"], last, tail))
        if last is not None:
            ctx.violation("the real agreement code (or the harness) crashed while executing this schedule: " + tail[-300:],
                          {"kind": "netdrive", "sched": scheds[last], "corpus": corpus_name}, found_input=False)
    for sid in sorted(scheds):
        log = logs.get(sid, [])
        header = scheds[sid][0]
        stats["schedules"] += 1
        prof = kv(header).get("profile", "?")
        stats["profiles"][prof] = stats["profiles"].get(prof, 0) + 1
        for d in scheds[sid][1:]:
            k = d.split()[0]
            stats["decisions"][k] = stats["decisions"].get(k, 0) + 1
        # ---- monitor on the implementation alone: one digest per round over all honest nodes and incarnations
        digests = {}
        for l in log:
            if l.startswith("ENSURE "):
                f = kv(l)
                digests.setdefault(int(f["round"]), {}).setdefault(f["digest"], []).append("node %s gen %s (cert period %s)" % (f["node"], f["gen"], f["cperiod"]))
                stats["ensure"] += 1
        conflict = {r: d for r, d in digests.items() if len(d) > 1}
        wipe_nodes = {kv(l)["node"] for l in log if l.startswith("CHECKPOINT ") and kv(l).get("round") == "0"}
        notes = [l for l in log if l.startswith("NOTE ") and any(t in l for t in ("QUIET-TIMEOUT", "HARNESS-PANIC", "SCHEDULE-TIMEOUT", "unknown-cause", "SHUTDOWN-TIMEOUT"))]
        for nline in notes[:2]:
            ctx.notes.append("schedule %d: %s" % (sid, nline[:200]))
            stats["harness_notes"] += 1
        # ---- acceptance
        rejects, abstract_violation, bad = [], False, []
        for rnd, evs in by_sched.get(sid, []):
            stats["histories"] += 1
            nontrivial = False
            for l, v in evs:
                k = l.split()[0] if l else ""
                if k in ("vote", "see", "enter", "commit", "crash"):
                    stats["events"] += 1
                    stats["kinds"][k] = stats["kinds"].get(k, 0) + 1
                    if k in ("enter", "crash") or (k == "vote" and l.split()[3] not in ("1", "2")):
                        nontrivial = True
                if k == "params" and "hq=true" not in v:
                    ctx.tie_failures.append("schedule %d: parameters do not satisfy HQ (%s)" % (sid, v))
                if v.startswith("reject"):
                    rejects.append((rnd, l, v))
                if "SAFETY-VIOLATION" in v:
                    abstract_violation = True
                if v == "bad-line":
                    bad.append((rnd, l))
            if nontrivial and any(l.startswith("commit") for l, _ in evs):
                stats["nontrivial"] += 1
            if len(stats["samples"]) < 6 and evs:
                stats["samples"].append("S%d r%d: " % (sid, rnd) + " ; ".join(l for l, _ in evs[1:9]))
        if bad:
            ctx.tie_failures.append("schedule %d: the harness emitted lines the acceptor cannot parse: %s" % (sid, bad[:3]))
        stats["rejects"] += len(rejects)
        if not (rejects or conflict or abstract_violation):
            continue
        replay = {"kind": "netdrive", "sched": scheds[sid], "corpus": corpus_name,
                  "rejects": ["round %d: `%s` → %s" % r for r in rejects[:8]],
                  "digests": {str(r): d for r, d in conflict.items()}}
        rej_nodes = {r[1].split()[1] for r in rejects if len(r[1].split()) > 1}
        wipe = bool(wipe_nodes) and (not rejects or bool(rej_nodes & wipe_nodes))
        mk = KNOWN_WIPE if wipe else None
        if conflict or abstract_violation:
            r0 = sorted(conflict)[0] if conflict else None
            what = ("two different blocks committed for round %s: %s" % (r0, json.dumps(conflict[r0])) if conflict
                    else "the acceptor's commit monitor fired (different certified values in one round)")
            if rejects:
                what += "; first rule broken by the real code: `%s` → %s" % (rejects[0][1], rejects[0][2])
            if wipe:
                what += " [crash state wiped by the re-executed attest after a restore; second crash forgets the round's votes]"
            if ctx.violation(what, replay, found_input=True, match_key=mk):
                stats["violations"] += 1
        else:
            what = ("the real agreement code produced a trace the proved model does not allow (no differing commits in this schedule): "
                    "round %d `%s` → %s" % rejects[0])
            if wipe:
                what += " [crash state wiped by the re-executed attest after a restore; second crash forgets the round's votes]"
            stats["reject_scheds"].append(sid)
            if len([1 for s in stats["reject_scheds"]]) <= 4:
                ctx.violation(what, replay, found_input=False, match_key=mk)
    return by_sched


def new_stats():
    return {"schedules": 0, "histories": 0, "events": 0, "nontrivial": 0, "rejects": 0, "violations": 0, "ensure": 0, "harness_notes": 0,
            "kinds": {}, "profiles": {}, "decisions": {}, "samples": [], "reject_scheds": []}


ASSUMPTIONS = [
    "HQ: W + F < 2·T (quorum intersection) — hypothesis of every Props.C01 theorem; the harness runs the real code with committee size = total stake and all thresholds = T = ⌊(W+F)/2⌋+1, so HQ holds and the real sortition gives every account its stake as weight (checked per schedule)",
    "committees are idealised as fixed weights per round; the sortition probability argument (stake fractions ⇒ HQ for sampled committees) is NOT proved",
    "the refinement `real player ⊑ WF true` is NOT a theorem: it is checked by trace acceptance (c01abs = checkEv, checkEv_none_iff) on the sampled schedules only",
    "signatures / VRF unforgeable: a vote carrying an honest sender was cast by that node (Byzantine votes are signed by the harness with the Byzantine nodes' own real keys only)",
    "timer order (environment): no fast-recovery timeout is handled while the player is at Step ≤ cert in a period in which it later cert-votes — true when timers fire in deadline order; default schedules respect it (see the report: with it violated the real code can reach two commits)",
    "goroutine scheduling inside a Service is not controlled: the harness serialises by waiting for quiescence (the package's coserviceMonitor accounting) between schedule decisions",
    "one abstract history per round (rounds_compose); votes enter the trace at the handle that produced the attest and only if persisted or released",
]


def run(ctx, replay=None):
    ctx.overlay()
    netdrive.hooked_overlay(ctx)
    ctx.assumptions += ASSUMPTIONS
    ctx.trusted.append("NetDrive harness (Go) incl. the generated hook copy of agreement/service.go (two call sites, anchors checked each run)")
    proved = ctx.prove(["AlgoVerif.Props.C01"])
    ok, out = ctx.lean_build(["c01abs"])
    if not ok:
        raise RuntimeError(out[-800:])
    ctx.cov["rule"] = ("a case = one (schedule, round) history of a real multi-node run: 4–7 real Services, PRNG-chosen deliver/drop/dup/delay, "
                       "timeouts, partitions, crashes+restores, Byzantine equivocation; non-trivial = it commits and contains a period change, "
                       "a crash or a next-type vote; distinct by construction (different schedule seeds)")
    exe = build_test_binary(ctx)
    if exe is None:
        return
    stats = new_stats()
    tmo = 3000

    # ---- replay of one recorded schedule
    if replay is not None:
        rp = os.path.join(ctx.work, "replay.sched")
        open(rp, "w").write("\n".join(replay["sched"]) + "\n")
        for i in range(2):   # twice: goroutine scheduling inside a Service is not controlled
            sh = run_shard(ctx, exe, "replay%d" % i, {"VERIF_REPLAY": rp}, tmo)
            analyse(ctx, sh, stats, corpus_name=replay.get("corpus"))
            if ctx.violations:
                break
        finish_cov(ctx, stats)
        return

    # ---- 1. corpus: schedules that once broke the property (must be accepted on a correct tree)
    for path in sorted(glob.glob(os.path.join(vf.VERIF, "corpus", "C01", "*.sched"))):
        name = "corpus-" + os.path.basename(path)[:-6]
        sh = run_shard(ctx, exe, name, {"VERIF_REPLAY": path}, tmo)
        analyse(ctx, sh, stats, corpus_name=os.path.basename(path))

    # ---- 2. generated schedules, in parallel shards
    total = ctx.budget(40, 2400)
    if not proved:
        total *= 5
    scale = os.environ.get("VERIF_BUDGET_SCALE")
    if scale and scale.isdigit():
        total = max(1, total * int(scale) // 100)
    nsh = ctx.budget(4, 8)
    per = (total + nsh - 1) // nsh
    jobs = [("shard%d" % i, {"VERIF_ND_FROM": str(i * per), "VERIF_ND_SCHEDULES": str(min(total, (i + 1) * per))}) for i in range(nsh) if i * per < total]
    with concurrent.futures.ThreadPoolExecutor(max_workers=len(jobs)) as ex:
        shards = list(ex.map(lambda j: run_shard(ctx, exe, j[0], j[1], tmo), jobs))
    for sh in shards:
        analyse(ctx, sh, stats)

    # ---- 3. a rejected trace without differing commits: search harder around it (same configurations, more seeds)
    if stats["reject_scheds"] and not any(v["found_input"] for v in ctx.violations):
        extra = ctx.budget(60, 600)
        jobs = [("search%d" % i, {"VERIF_SEED": str(ctx.seed * 977 + 101 + i), "VERIF_ND_FROM": "0", "VERIF_ND_SCHEDULES": str(extra // 4)}) for i in range(4)]
        with concurrent.futures.ThreadPoolExecutor(max_workers=4) as ex:
            shards = list(ex.map(lambda j: run_shard(ctx, exe, j[0], j[1], tmo), jobs))
        for sh in shards:
            analyse(ctx, sh, stats)
        ctx.notes.append("rejected traces seen: %d extra schedules searched for differing commits" % extra)
    finish_cov(ctx, stats)


def finish_cov(ctx, stats):
    ctx.cov["evaluations"] = stats["events"]
    ctx.cov["distinct_nontrivial"] = stats["nontrivial"]
    ctx.cov["samples"] = stats["samples"]
    ctx.cov["distribution"] = {"schedules": stats["schedules"], "round_histories": stats["histories"], "ensure_block_calls": stats["ensure"],
                               "rejected_events": stats["rejects"], "event_kinds": stats["kinds"], "profiles": stats["profiles"],
                               "decisions": stats["decisions"], "harness_notes": stats["harness_notes"]}
    ctx.say("C01: %d schedules, %d round histories, %d abstract events, %d EnsureBlock calls, %d rejected events, %d violations"
            % (stats["schedules"], stats["histories"], stats["events"], stats["ensure"], stats["rejects"], len(ctx.violations)))
    if stats["schedules"] and stats["events"] == 0:
        ctx.tie_failures.append("NetDrive produced no abstract events: the hooks saw nothing")


def replay(ctx, path):
    r = json.load(open(path))
    if r.get("kind") != "netdrive" or not r.get("sched"):
        run(ctx)
        return
    run(ctx, replay=r)
