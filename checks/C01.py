"""C01 — consensus safety: no two honest nodes commit different blocks for a round.

Layer 1 (proved, Props.C01): Spec.AgreementAbs — abs_safety, commit_unique, acceptor_sound, crash_preserves_inv,
safety_with_crashes, rounds_compose, next_values_unique, for every history satisfying the local rules `WF true` under the
quorum-intersection hypothesis HQ.
Tie (this check): NetDrive — N real agreement.Service instances under a harness-owned schedule (deliver / drop / duplicate /
delay, timeouts, partitions, crash + restore, a Byzantine minority signing with real keys).  Every explored run is
projected to an abstract event trace and must be ACCEPTED by the executable acceptor `c01abs` (= checkEv of the proved
model): the refinement "real player ⊑ WF" is not a theorem, it is checked on the sampled schedules.  Independently a
monitor on the implementation alone requires all EnsureBlock digests of a round to be equal over all honest nodes and
incarnations.  Replay = the schedule (header + decisions), re-executed deterministically."""
import concurrent.futures, glob, json, os, re, shutil
import vf
import netdrive

KNOWN_WIPE = {"kind": "double-crash-state-wipe"}
KNOWN_FAST = {"kind": "fastvote-before-cert"}
KNOWN_STALECERT = {"kind": "panic-stale-cert-bundle"}
KNOWN_TRIM = {"kind": "trim-drops-staged-payload"}
SCENARIOS = ["doublecommit", "fastcommit", "latepayload", "stalecert", "trimdrop"]
# recrash-<P>-<soft|next>-<k>-<x>: k honest nodes crash + restore in recovery period P after that vote, the period's votes lost
RECRASH_QUICK = ["recrash-1-soft-3-1", "recrash-2-next-3-1"]
RECRASH_ALL = ["recrash-%d-%s-%d-%d" % (P, a, k, x) for P in (1, 2) for a in ("soft", "next") for k in (3, 2) for x in (1, 0)]   # harness/agreement/zz_verif_netdrive_scen_test.go


# ----------------------------------------------------------------------------- analysis
def analyse(ctx, shard, stats, corpus_name=None):
    hists = netdrive.accept(ctx, shard)
    scheds, logs = netdrive.schedules_of(shard), netdrive.logs_of(shard)
    by_sched = {}
    for sid, rnd, evs in hists:
        by_sched.setdefault(sid, []).append((rnd, evs))
    if shard["rc"] != 0:
        # monitor class "node panic": a Service goroutine (real agreement code) killed the process while executing the last
        # schedule of the shard — a concrete failing schedule.  Anything else (build failure, harness fatal) is a tie failure.
        last = max(scheds) if scheds else None
        out = shard["out"]
        tail = out[-600:]
        stats["crashes"] = stats.get("crashes", 0) + 1
        in_service = ("agreement.(*Service).mainLoop" in out or "agreement.(*Service).demuxLoop" in out) and "panic" in out
        m = re.search(r"^panic: (.*)$", out, re.M)
        msg = m.group(1)[:200] if m else "process exited with rc=%d" % shard["rc"]
        frames = [f for f in re.findall(r"agreement\.(\(\*?\w+\)\.\w+|\w+)\(", out) if not f.startswith("nd") and "logVote" not in f]
        mk = KNOWN_STALECERT if ("(*periodRouter).update" in out and "nil pointer dereference" in out) else None
        if last is not None and in_service:
            if stats["crashes"] <= 3:
                ctx.violation(("[a cert bundle of an old period of the current round reached a garbage-collected period router] " if mk else "") +
                              "node panic: the real agreement code panicked inside a Service goroutine: %s; top frames: %s"
                              % (msg, ", ".join(frames[:4])),
                              {"kind": "netdrive", "sched": scheds[last], "corpus": corpus_name, "panic": tail}, found_input=True, match_key=mk)
        else:
            ctx.tie_failures.append("NetDrive harness process failed (rc=%d) in %s, last schedule %s: %s" % (shard["rc"], shard["name"], last, tail))
    for sid in sorted(scheds):
        log = logs.get(sid, [])
        header = scheds[sid][0]
        stats["schedules"] += 1
        prof = netdrive.kv(header).get("profile", "?")
        stats["profiles"][prof] = stats["profiles"].get(prof, 0) + 1
        for d in scheds[sid][1:]:
            k = d.split()[0]
            stats["decisions"][k] = stats["decisions"].get(k, 0) + 1
        # ---- monitor on the implementation alone: one digest per round over all honest nodes and incarnations
        digests = {}
        for l in log:
            if l.startswith("ENSURE "):
                f = netdrive.kv(l)
                digests.setdefault(int(f["round"]), {}).setdefault(f["digest"], []).append("node %s gen %s (cert period %s)" % (f["node"], f["gen"], f["cperiod"]))
                stats["ensure"] += 1
        conflict = {r: d for r, d in digests.items() if len(d) > 1}
        wipe_nodes = {netdrive.kv(l)["node"] for l in log if l.startswith("CHECKPOINT ") and netdrive.kv(l).get("round") == "0"}
        notes = [l for l in log if l.startswith("NOTE ") and any(t in l for t in ("QUIET-TIMEOUT", "HARNESS-PANIC", "SCHEDULE-TIMEOUT", "unknown-cause", "SHUTDOWN-TIMEOUT"))]
        for nline in notes[:2]:
            ctx.notes.append("schedule %d: %s" % (sid, nline[:200]))
            stats["harness_notes"] += 1
        # ---- acceptance
        rejects, abstract_violation, bad = [], False, []
        for rnd, evs in by_sched.get(sid, []):
            stats["histories"] += 1
            nontrivial = False
            for l, v in evs:
                k = l.split()[0] if l else ""
                if k in ("vote", "see", "enter", "commit", "crash"):
                    stats["events"] += 1
                    stats["kinds"][k] = stats["kinds"].get(k, 0) + 1
                    if k in ("enter", "crash") or (k == "vote" and l.split()[3] not in ("1", "2")):
                        nontrivial = True
                if k == "params" and "hq=true" not in v:
                    if corpus_name:   # a directed robustness scenario with harness-played nodes: only the panic and digest monitors apply
                        ctx.notes.append("corpus %s: HQ does not hold (%s): acceptance verdicts are informational" % (corpus_name, v))
                    else:
                        ctx.tie_failures.append("schedule %d: parameters do not satisfy HQ (%s)" % (sid, v))
                if v.startswith("reject"):
                    rejects.append((rnd, l, v))
                if "SAFETY-VIOLATION" in v:
                    abstract_violation = True
                if v == "bad-line":
                    bad.append((rnd, l))
            if nontrivial and any(l.startswith("commit") for l, _ in evs):
                stats["nontrivial"] += 1
            if len(stats["samples"]) < 6 and evs:
                stats["samples"].append("S%d r%d: " % (sid, rnd) + " ; ".join(l for l, _ in evs[1:9]))
        if bad:
            ctx.tie_failures.append("schedule %d: the harness emitted lines the acceptor cannot parse: %s" % (sid, bad[:3]))
        stats["rejects"] += len(rejects)
        if not (rejects or conflict or abstract_violation):
            continue
        replay = {"kind": "netdrive", "sched": scheds[sid], "corpus": corpus_name,
                  "rejects": ["round %d: `%s` → %s" % r for r in rejects[:8]],
                  "digests": {str(r): d for r, d in conflict.items()}}
        rej_nodes = {r[1].split()[1] for r in rejects if len(r[1].split()) > 1}
        wipe = bool(wipe_nodes) and (not rejects or bool(rej_nodes & wipe_nodes))
        # a fast-recovery vote (redo/down) cast while player.Step ≤ cert, or a late vote while Step = soft
        fast = any(l.startswith("ATTEST ") and ((netdrive.kv(l).get("step") in ("254", "255") and netdrive.kv(l).get("pstep") in ("1", "2")) or
                                                (netdrive.kv(l).get("step") == "253" and netdrive.kv(l).get("pstep") == "1")) for l in log)
        fast = fast and any(r[2].split()[-1] in ("cert-after-next", "soft-after-next") for r in rejects)
        # a node next-votes another value (⊥) than its own cert vote of the period: proposalStore.trim dropped the staged payload
        trim = (not wipe) and (not fast) and any(r[2].split()[-1] == "next-own-cert" for r in rejects)
        mk = KNOWN_WIPE if wipe else (KNOWN_FAST if fast else (KNOWN_TRIM if trim else None))
        if conflict or abstract_violation:
            r0 = sorted(conflict)[0] if conflict else None
            what = ("two different blocks committed for round %s: %s" % (r0, json.dumps(conflict[r0])) if conflict
                    else "the acceptor's commit monitor fired (different certified values in one round)")
            if rejects:
                what += "; first rule broken by the real code: `%s` → %s" % (rejects[0][1], rejects[0][2])
            if wipe:
                what += " [crash state wiped by the re-executed attest after a restore; second crash forgets the round's votes]"
            if fast and not wipe:
                what += " [fast-recovery vote cast while player.Step ≤ cert, earlier step's vote cast afterwards]"
            if trim:
                what += " [a node next-voted ⊥ after its own cert vote: the staged value's payload was dropped by proposalStore.trim]"
            if ctx.violation(what, replay, found_input=True, match_key=mk):
                stats["violations"] += 1
        else:
            what = ("the real agreement code produced a trace the proved model does not allow (no differing commits in this schedule): "
                    "round %d `%s` → %s" % rejects[0])
            if wipe:
                what += " [crash state wiped by the re-executed attest after a restore; second crash forgets the round's votes]"
            if fast and not wipe:
                what += " [fast-recovery vote cast while player.Step ≤ cert, earlier step's vote cast afterwards]"
            stats["reject_scheds"].append(sid)
            if len(stats["reject_scheds"]) <= 3:
                ctx.violation(what, replay, found_input=False, match_key=mk)
    return by_sched


def new_stats():
    return {"schedules": 0, "histories": 0, "events": 0, "nontrivial": 0, "rejects": 0, "violations": 0, "ensure": 0, "harness_notes": 0,
            "kinds": {}, "profiles": {}, "decisions": {}, "samples": [], "reject_scheds": []}


ASSUMPTIONS = [
    "HQ: W + F < 2·T (quorum intersection) — hypothesis of every Props.C01 theorem; the harness runs the real code with committee size = total stake and all thresholds = T = ⌊(W+F)/2⌋+1, so HQ holds and the real sortition gives every account its stake as weight (checked per schedule)",
    "committees are idealised as fixed weights per round; the sortition probability argument (stake fractions ⇒ HQ for sampled committees) is NOT proved",
    "the refinement `real player ⊑ WF true` is NOT a theorem: it is checked by trace acceptance (c01abs = checkEv, checkEv_none_iff) on the sampled schedules only",
    "signatures / VRF unforgeable: a vote carrying an honest sender was cast by that node (Byzantine votes are signed by the harness with the Byzantine nodes' own real keys only)",
    "timers are environment: the harness fires step deadlines and fast-recovery timeouts in any order, at any step (no timer-order assumption: issueFastVote gives up the earlier steps of the period)",
    "goroutine scheduling inside a Service is not controlled: the harness serialises by waiting for quiescence (the package's coserviceMonitor accounting) between schedule decisions",
    "one abstract history per round (rounds_compose); votes enter the trace at the handle that produced the attest and only if persisted or released",
]


def run(ctx, replay=None):
    ctx.overlay()
    netdrive.hooked_overlay(ctx)
    ctx.assumptions += ASSUMPTIONS
    ctx.trusted.append("NetDrive harness (Go) incl. the generated hook copy of agreement/service.go (two call sites, anchors checked each run)")
    proved = ctx.prove(["AlgoVerif.Props.C01"])
    ok, out = ctx.lean_build(["c01abs"])
    if not ok:
        raise RuntimeError(out[-800:])
    ctx.cov["rule"] = ("a case = one (schedule, round) history of a real multi-node run: 4–7 real Services, PRNG-chosen deliver/drop/dup/delay, "
                       "timeouts, partitions, crashes+restores, Byzantine equivocation; non-trivial = it commits and contains a period change, "
                       "a crash or a next-type vote; distinct by construction (different schedule seeds)")
    exe = netdrive.build_test_binary(ctx)
    if exe is None:
        return
    stats = new_stats()
    tmo = 3000

    # ---- replay of one recorded schedule
    if replay is not None:
        rp = os.path.join(ctx.work, "replay.sched")
        open(rp, "w").write("\n".join(replay["sched"]) + "\n")
        for i in range(2):   # twice: goroutine scheduling inside a Service is not controlled
            sh = netdrive.run_shard(ctx, exe, "replay%d" % i, {"VERIF_REPLAY": rp}, tmo)
            analyse(ctx, sh, stats, corpus_name=replay.get("corpus"))
            if ctx.violations:
                break
        finish_cov(ctx, stats)
        return

    # ---- 1. corpus: schedules that once broke the property (must be accepted on a correct tree)
    for path in sorted(glob.glob(os.path.join(vf.VERIF, "corpus", "C01", "*.sched"))):
        name = "corpus-" + os.path.basename(path)[:-6]
        sh = netdrive.run_shard(ctx, exe, name, {"VERIF_REPLAY": path}, tmo)
        analyse(ctx, sh, stats, corpus_name=os.path.basename(path))

    # ---- 1b. directed scenarios, executed LIVE (they pick messages by sender / step / value, so they adapt to what the
    #          current code sends; a recorded schedule only replays what the unchanged code sent)
    for sc in SCENARIOS + ctx.budget(RECRASH_QUICK, RECRASH_ALL):
        sh = netdrive.run_shard(ctx, exe, "scenario-" + sc, {"VERIF_ND_SCENARIO": sc}, tmo, test="TestVerifNetDriveScenario")
        analyse(ctx, sh, stats, corpus_name="scenario:" + sc)

    # ---- 2. generated schedules, in parallel shards
    total = ctx.budget(40, 2400)
    if not proved:
        total *= 5
    scale = os.environ.get("VERIF_BUDGET_SCALE")
    if scale and scale.isdigit():
        total = max(1, total * int(scale) // 100)
    nsh = ctx.budget(4, 8)
    per = (total + nsh - 1) // nsh
    jobs = [("shard%d" % i, i * per, min(total, (i + 1) * per)) for i in range(nsh) if i * per < total]
    with concurrent.futures.ThreadPoolExecutor(max_workers=len(jobs)) as ex:
        groups = list(ex.map(lambda j: netdrive.run_range(ctx, exe, j[0], j[1], j[2], {}, tmo), jobs))
    for g in groups:
        for sh in g:
            analyse(ctx, sh, stats)

    # ---- 3. a rejected trace without differing commits: search harder around it (same configurations, more seeds)
    if stats["reject_scheds"] and not any(v["found_input"] for v in ctx.violations):
        extra = ctx.budget(60, 600)
        jobs = [("search%d" % i, {"VERIF_SEED": str(ctx.seed * 977 + 101 + i)}) for i in range(4)]
        with concurrent.futures.ThreadPoolExecutor(max_workers=4) as ex:
            groups = list(ex.map(lambda j: netdrive.run_range(ctx, exe, j[0], 0, extra // 4, j[1], tmo), jobs))
        for g in groups:
            for sh in g:
                analyse(ctx, sh, stats)
        ctx.notes.append("rejected traces seen: %d extra schedules searched for differing commits" % extra)
    finish_cov(ctx, stats)


def finish_cov(ctx, stats):
    ctx.cov["evaluations"] = stats["events"]
    ctx.cov["distinct_nontrivial"] = stats["nontrivial"]
    ctx.cov["samples"] = stats["samples"]
    ctx.cov["distribution"] = {"schedules": stats["schedules"], "round_histories": stats["histories"], "ensure_block_calls": stats["ensure"],
                               "rejected_events": stats["rejects"], "event_kinds": stats["kinds"], "profiles": stats["profiles"],
                               "decisions": stats["decisions"], "harness_notes": stats["harness_notes"]}
    ctx.say("C01: %d schedules, %d round histories, %d abstract events, %d EnsureBlock calls, %d rejected events, %d violations"
            % (stats["schedules"], stats["histories"], stats["events"], stats["ensure"], stats["rejects"], len(ctx.violations)))
    if stats["schedules"] and stats["events"] == 0:
        ctx.tie_failures.append("NetDrive produced no abstract events: the hooks saw nothing")


def replay(ctx, path):
    r = json.load(open(path))
    if r.get("kind") != "netdrive" or not r.get("sched"):
        run(ctx)
        return
    run(ctx, replay=r)
