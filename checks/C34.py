"""C34 — programs cannot use features newer than their version or outside their mode.

Ties: F  TestVerifC34Facts dumps OpSpecs, the built opsByOpcode tables (after the real init()), every field group and the
         AST-derived state-touching classification into lean/AlgoVerif/Gen/OpTable.lean (+ optable.json) on every run;
      C  TestVerifC34 runs a minimal program for every opcode byte / (opcode, sub-opcode) / field x every version
         0..LogicVersion x both modes through the real Check* and Eval* and prints the verdict class; the Lean driver c34
         prints Model.OpTables' verdict over buildTables(Gen.opSpecs). Exhaustive, no sampling.
Monitors on the implementation alone (c34.mon carries `ran=1` when the instruction under test completed without error):
      M1 an instruction that RAN must be registered in OpSpecs for its (opcode, sub-opcode) at a version <= the program's,
         allow the run mode, and every field immediate must be a visible field of its group with version <= the program's
         and a mode mask containing the run mode;
      M2 the same against the language specifications committed in the repo (langspec_v<N>.json, N = 1..13), which are
         independent of the Go tables: an instruction that got past the version/mode/field gates of a version-N program must
         exist in langspec_vN with that mode, and its field must be listed there. This is what catches a row registered
         with a too-low version or a widened mode mask (changes that alter table and behaviour consistently);
      M3 (branch layouts) when Check* accepts a program, every pc the real eval visits (tracer) is an instruction start that
         the real checkStep recorded, or the end of the program. The check verdict itself (ok / misaligned / outside / ...)
         is compared with Model.OpCheck.staticCheck, whose widths come from OpDetails.Size, not from Immediates."""
import json, os
import common
import vf

PKG = "./data/transactions/logic"


def parse(op):
    body = op.split("#", 1)[0].split()
    if len(body) < 6:
        return None
    try:
        prog = bytes.fromhex(body[4])
        return {"kind": body[0], "mode": body[1], "minv": int(body[2]), "pc": int(body[3]), "prog": prog, "stk": body[5]}
    except ValueError:
        return None


def kv(line):
    d = {}
    for t in line.split():
        if "=" in t:
            k, v = t.split("=", 1)
            d[k] = v
    return d


class Tables:
    """declared tables (optable.json) and the in-repo language specifications"""
    def __init__(self, twin, repo):
        self.lv = twin["logicVersion"]
        self.rows = twin["rows"]
        self.groups = {g["key"]: g for g in twin["groups"]}
        self.prefix = {r["opcode"] for r in self.rows if r["sub"] != 0}
        self.bykey = {}
        for r in self.rows:
            self.bykey.setdefault((r["opcode"], r["sub"]), []).append(r)
        self.spec = {}
        d = os.path.join(repo, "data", "transactions", "logic")
        for v in range(1, self.lv + 1):
            p = os.path.join(d, "langspec_v%d.json" % v)
            if os.path.exists(p):
                ops = {}
                for o in json.load(open(p))["Ops"]:
                    oc = o["Opcode"]
                    ops[(oc, 0) if isinstance(oc, int) else tuple(oc)] = o
                self.spec[v] = ops
        self.spec_prefix = {k[0] for ops in self.spec.values() for k in ops if k[1] != 0}

    def key(self, c, prefixes):
        op = c["prog"][c["pc"]]
        if op in prefixes and c["pc"] + 1 < len(c["prog"]):
            return (op, c["prog"][c["pc"] + 1])
        return (op, 0)

    def row_at(self, key, v):
        """the declared row for key at version v: newest version <= v, last listed"""
        best = None
        for r in self.bykey.get(key, []):
            if 1 <= r["version"] <= v and (best is None or r["version"] >= best["version"]):
                best = r
        return best

    def field_of(self, c, row):
        """(group key, field byte) of the field immediate of the instruction, or None"""
        base = c["pc"] + 1 + (1 if row["sub"] else 0)
        for i, im in enumerate(row["imms"] or []):
            if im["group"]:
                at = base + i
                if at < len(c["prog"]):
                    return im["group"], c["prog"][at]
        return None


def monitor_declared(t, c, ran):
    """M1: evaluated only for instructions that completed without error"""
    if not ran:
        return None
    v = c["prog"][0]
    ve = max(v, 1)       # table 0 is the alias of table 1
    mode = 1 if c["mode"] == "sig" else 2
    key = t.key(c, t.prefix)
    if key not in t.bykey:
        return "a version %d program executed opcode 0x%02x/0x%02x which no OpSpecs row registers" % (v, key[0], key[1])
    intro = min(r["version"] for r in t.bykey[key])
    name = t.bykey[key][0]["name"]
    if intro > ve:
        return "a version %d program executed %s, introduced in version %d" % (v, name, intro)
    row = t.row_at(key, ve)
    if row is None or not (row["modes"] & mode):
        return "%s executed in %s mode, its mode mask is %s" % (name, c["mode"], row and row["modes"])
    if row["touches"] and mode == 1 and row["ungated"]:
        return "%s reaches ledger state (%s) and executed in signature mode" % (name, ",".join(row["ungated"]))
    fo = t.field_of(c, row)
    if fo:
        g, f = t.groups.get(fo[0]), fo[1]
        if g is None or f >= len(g["fields"]) or g["fields"][f]["name"] == "":
            return "%s executed with field %d which its field group %s does not have" % (name, f, fo[0])
        fr = g["fields"][f]
        if fr["version"] > v:
            return "a version %d program executed %s %s; the field was introduced in version %d" % (v, name, fr["name"], fr["version"])
        if not (fr["modes"] & mode):
            return "%s %s executed in %s mode, the field's mode mask is %d" % (name, fr["name"], c["mode"], fr["modes"])
        if mode == 1 and fr["touches"]:
            return "%s %s reaches ledger state and executed in signature mode" % (name, fr["name"])
    return None


def monitor_langspec(t, c, ev):
    """M2: evaluated for crafted programs whose instruction under test got past every version / mode / field gate"""
    if c["kind"] not in ("op", "field") or ev != "pass":
        return None
    v = c["prog"][0]
    ve = max(v, 1)
    ops = t.spec.get(ve)
    if ops is None:
        return None
    mode = 1 if c["mode"] == "sig" else 2
    key = t.key(c, t.prefix | t.spec_prefix)
    o = ops.get(key)
    if o is None:
        nm = t.bykey.get(key, [{"name": "0x%02x" % key[0]}])[0]["name"]
        return "a version %d program got %s past the version gate; langspec_v%d.json has no such opcode" % (v, nm, ve)
    if not (o["Modes"] & mode):
        return "%s accepted in %s mode; langspec_v%d.json gives it Modes=%d" % (o["Name"], c["mode"], ve, o["Modes"])
    if c["kind"] == "field":
        row = t.row_at(key, ve)
        fo = row and t.field_of(c, row)
        if fo:
            g, f = t.groups.get(fo[0]), fo[1]
            nm = g["fields"][f]["name"] if g and f < len(g["fields"]) else ""
            if nm == "" or nm not in (o.get("ArgEnum") or []):
                return "a version %d program got %s field #%d (%s) past the field gate; langspec_v%d.json does not list it" % (
                    v, o["Name"], f, nm or "hidden", ve)
    return None


def monitor_boundaries(c, chk, m):
    """M3 (kind br): check accepted  =>  every pc eval reached is an instruction start recorded by check, or len"""
    if c["kind"] != "br" or chk != "ok":
        return None, 0
    parts = m.split("|")
    d = kv(parts[-1]) if parts else {}
    try:
        n = int(d["len"])
        starts = {int(x) for x in d.get("starts", "").split(",") if x != ""}
        reached = [int(x) for x in d.get("reached", "").split(",") if x != ""]
    except (KeyError, ValueError):
        return "unparsable boundary record: " + m[-120:], 0
    jumps = sum(1 for a, b in zip(reached, reached[1:]) if b < a or b > a + 1)
    for pc in reached:
        if pc not in starts and pc != n:
            return ("check accepted the program but eval reached pc %d, which check did not record as an instruction start "
                    "(starts %s)" % (pc, sorted(starts))), jumps
    return None, jumps


def run(ctx, replay_ops=None):
    ctx.overlay()
    ctx.assumptions += [
        "the program version is a single-byte varint (versions 0..LogicVersion are); Proto.LogicSigVersion >= LogicVersion in the harness environment, so begin's protocol gate never fires",
        "an OpSpecs row has a non-nil evalFunc and nil SubOps (checked by the extractor on every run)",
        "the 'reaches ledger state' classification of ops and fields is an over-approximating by-name AST call-graph scan of the package (markers: .Ledger, .subtxns, assignments to .EvalDelta, availableBox)",
        "verdict classes are recognised from the error text of the real evaluator (illegal opcode / prefix opcode; '<op> not allowed in current mode'; 'invalid <...> field|encoding|type|curve|standard|group|config', 'unsupported array field'; '<group>[<field>] not allowed in current mode')",
        "branch-target alignment: the CHECK side is proved for the model (check_targets_aligned) and tied by exhaustive branch layouts; that eval only moves to pc+width or to such a target is a monitor on the real eval, not a theorem",
    ]
    # ---- tie F
    rc, out = ctx.go_test(PKG, "TestVerifC34Facts")
    gen, twinf = os.path.join(ctx.work, "OpTable.lean"), os.path.join(ctx.work, "optable.json")
    twin = None
    if rc != 0 or not os.path.exists(gen) or not os.path.exists(twinf):
        ctx.tie_failures.append("fact extraction TestVerifC34Facts failed (rc=%d): %s" % (rc, out[-500:]))
    else:
        with vf.Lock("gen"):
            vf._overlay.write_if_changed(os.path.join(vf.LEAN, "AlgoVerif", "Gen", "OpTable.lean"), open(gen).read())
        twin = json.load(open(twinf))
    proved = ctx.prove(["AlgoVerif.Props.C34"])
    okb, out = ctx.lean_build(["c34"])
    if not okb:
        raise RuntimeError("driver c34 does not build: " + out[-800:])
    ctx.cov["rule"] = ("EXHAUSTIVE, no sampling: (raw) every opcode byte alone and followed by 0x00/0x01/0xff — every one of the 256 "
                       "sub-opcode bytes for a prefix opcode — x versions 0..LogicVersion x {sig, app}; (op/field/nofield) every (opcode, "
                       "sub-opcode) named by OpSpecs with a type-correct stack built from intcblock/bytecblock constants and well-formed "
                       "immediates, for field-taking ops once per slot of the field group (hidden slots included) and for three "
                       "out-of-range field values, x versions x modes; (br) for every version x mode: every branching opcode available "
                       "(bnz/bz/b/callsub in their 2-byte or varint form, switch, match) x every multi-byte instruction shape available "
                       "(incl. prefix+sub-opcode instructions and fat intcblock/bytecblock/pushbytes/pushint/pushints/pushbytess) as victim, "
                       "a TAKEN forward branch to every byte offset of the victim (aligned and misaligned), to len, len+1, itself and 0, and a "
                       "taken backward branch to every byte offset of the victim; plus VERIF_SEED-driven random layouts of 2-5 instructions "
                       "with 1-2 branches to random positions in 0..len+1. Trivial = raw (uncrafted) lines; distinct = distinct op lines")
    res = common.correspondence(ctx, pkg=PKG, test="TestVerifC34", name="c34", drivers=[("c34", [], "model")],
                                trivial=lambda op: op.startswith("raw "), kind_of=lambda op: " ".join(op.split()[:2]),
                                model_is_spec=True, timeout=3000,
                                what="version/mode/field verdict of the real check/eval differs from Model.OpTables over buildTables(OpSpecs)",
                                replay_ops=replay_ops)
    if res is None:
        return
    ops, impl, _ = res
    h = {"pkg": PKG, "test": "TestVerifC34", "name": "c34"}
    monf = os.path.join(ctx.work, "c34.mon")
    mon = ctx.read_lines(monf) if os.path.exists(monf) else []
    if len(mon) != len(ops):
        ctx.tie_failures.append("monitor side file c34.mon has %d lines for %d ops" % (len(mon), len(ops)))
        mon = mon + [""] * (len(ops) - len(mon))
    dist = ctx.cov["distribution"]
    if twin is None:
        return
    t = Tables(twin, vf.REPO)
    ctx.cov["langspec_versions"] = sorted(t.spec)
    hits = {"declared": 0, "langspec": 0}
    nran = nbr_ok = 0
    for op, res_line, m in zip(ops, impl, mon):
        c = parse(op)
        d = kv(res_line)
        k = "verdict " + d.get("chk", "?") + "/" + d.get("ev", "?")
        dist[k] = dist.get(k, 0) + 1
        if c is None or (c["kind"] != "br" and c["pc"] >= len(c["prog"])):
            continue
        ran = m.startswith("ran=1")
        nran += ran
        if c["kind"] == "br":
            hit, _ = monitor_boundaries(c, d.get("chk"), m)
            nbr_ok += d.get("chk") == "ok"
            if hit:
                if hits.get("boundaries", 0) < 3:
                    ctx.violation("monitor (boundaries): " + hit,
                                  {"kind": "monitor", "monitor": "boundaries", "ops": [op], "impl_out": res_line, "detail": m, "harness": h},
                                  found_input=True)
                hits["boundaries"] = hits.get("boundaries", 0) + 1
        if res_line.startswith("PANIC") or "PANIC" in res_line or "setupfail" in res_line:
            if hits.get("panic", 0) < 3:
                ctx.violation("monitor: evaluator panicked or the harness set-up failed: " + res_line[:80],
                              {"kind": "monitor", "ops": [op], "impl_out": res_line, "detail": m, "harness": h}, found_input=True)
            hits["panic"] = hits.get("panic", 0) + 1
            continue
        for name, hit in (("declared", monitor_declared(t, c, ran)), ("langspec", monitor_langspec(t, c, d.get("ev")))):
            if hit:
                if hits[name] < 3:
                    ctx.violation("monitor (%s): %s" % (name, hit),
                                  {"kind": "monitor", "monitor": name, "ops": [op], "impl_out": res_line, "detail": m, "harness": h},
                                  found_input=True)
                hits[name] += 1
    dist["instructions that ran to completion"] = nran
    dist["branch layouts accepted by check (boundary monitor evaluated)"] = nbr_ok
    for k, n in hits.items():
        if n > 3:
            ctx.notes.append("%d further %s monitor hits suppressed" % (n - 3, k))


def replay(ctx, path):
    common.std_replay(ctx, path, run)
