"""C06 — vote counting emits exactly one threshold per step, for the right value.
Tie C: real voteTracker (through a real stepRouter + voteTrackerContract, or handle directly) vs Model.VoteTracker, line by
line, plus an independent property monitor evaluated on the implementation's outputs alone."""
import os, re
import common


# ----------------------------------------------------------------------------- cases
def split_cases(ops, impl):
    """[(start_index, [(op, impl_line), ...])] ; a case starts at a `reset` line."""
    cases, cur, start = [], None, 0
    for i, (o, a) in enumerate(zip(ops, impl)):
        if o.startswith("reset") or cur is None:
            if cur:
                cases.append((start, cur))
            cur, start = [], i
        cur.append((o, a))
    if cur:
        cases.append((start, cur))
    return cases


def case_of(ops, i):
    """op lines of the case containing index i, cut after i (a replayable prefix)."""
    j = i
    while j > 0 and not ops[j].startswith("reset"):
        j -= 1
    return ops[j:i + 1]


# ----------------------------------------------------------------------------- property monitor (impl outputs only)
_B = re.compile(r"^thr k=(\S+) r=(\d+) p=(\d+) s=(\d+) prop=(\S+) B r=(\d+) p=(\d+) s=(\d+) prop=(\S+) votes=\[(.*?)\] eq=\[(.*?)\]$")
_S = re.compile(r"^V=\[(.*?)\] C=\[(.*?)\] E=\[(.*?)\] EC=(\d+)$")


def _items(s):
    return [x for x in s.split(",") if x] if s else []


def parse_counts(s):
    """C=[v:count:(a:b:c,...),...] -> {v: (count, [(s,w,v)])}"""
    res = {}
    for m in re.finditer(r"(\d+):(\d+):\(([^)]*)\)", s):
        votes = [tuple(int(y) for y in x.split(":")) for x in _items(m.group(3))]
        res[int(m.group(1))] = (int(m.group(2)), votes)
    return res


def monitor_case(case, stats):
    """Return None or (index_in_case, message).  The predicate is the property text itself:
    at most one signal; a signal exactly at the first crossing of the threshold by a value with a regular voter,
    equivocators counted once for every value; duplicates change nothing; the bundle is a valid quorum proof."""
    f = case[0][0].split()
    if f[0] != "reset":
        return None
    step, T, rnd, per = int(f[2]), int(f[3]), f[5], f[6]
    hist = []                 # accepted (s, w, v)
    first = {}                # sender -> first vote
    equiv = {}                # sender -> (first vote, second value)
    weight_of = {}
    emitted = 0
    prev_state = "V=[] C=[] E=[] EC=0"
    in_scope = True           # weights > 0 and a function of the sender (the property's quantifier)

    def spec_over():
        ew = sum(first[s][1] for s in equiv)
        reg = {}
        for s, (_, w, v) in first.items():
            if s not in equiv:
                reg[v] = reg.get(v, 0) + w
        return {v for v, c in reg.items() if step != 0 and c + ew >= T}, reg, ew

    for idx, (op, out) in enumerate(case[1:], start=1):
        g = op.split()
        if g[0] != "vote":
            continue
        s, w, v = int(g[1]), int(g[2]), int(g[3])
        if w == 0 or weight_of.setdefault(s, w) != w:
            in_scope = False
        if not in_scope:
            stats["out_of_scope_votes"] = stats.get("out_of_scope_votes", 0) + 1
            return None
        if out.startswith("PANIC") or out == "DEAD":
            # a panic is outside the "accepted in one step" histories; which panics may occur is pinned by the model tie
            if out.startswith("PANIC contract"):
                return idx, "the tracker broke its own contract on an in-scope history: " + out
            stats["panic_cases"] = stats.get("panic_cases", 0) + 1
            return None
        over_before, _, _ = spec_over()
        dup = (s in equiv) or (s in first and first[s][2] == v)
        hist.append((s, w, v))
        if s not in first:
            first[s] = (s, w, v)
        elif s not in equiv and first[s][2] != v:
            equiv[s] = (first[s], v)
        over_after, reg, ew = spec_over()
        parts = out.split(" | ")
        if len(parts) != 2:
            return idx, "unparseable output " + out[:80]
        ev, st = parts
        ms = _S.match(st)
        if not ms:
            return idx, "unparseable tallies " + st[:80]
        # duplicates never add weight
        if dup and (st != prev_state or ev != "none"):
            return idx, "a duplicate / already-equivocating vote changed the tallies or signalled"
        prev_state = st
        # tallies = spec counts
        counts = parse_counts(ms.group(2))
        ec = int(ms.group(4))
        if ec != ew:
            return idx, "EquivocatorsCount %d != weight of equivocators %d" % (ec, ew)
        if set(counts) != set(reg):
            return idx, "Counts keys %s != values with a regular voter %s" % (sorted(counts), sorted(reg))
        for val, (c, _) in counts.items():
            if c != reg[val]:
                return idx, "Counts[%d]=%d != weight of regular voters %d" % (val, c, reg[val])
        # exactly-once, at the first crossing, for a value that is over
        if ev == "none":
            if not over_before and over_after:
                return idx, "threshold crossed for %s but no signal" % sorted(over_after)
            continue
        mb = _B.match(ev)
        if not mb:
            return idx, "unparseable event " + ev[:80]
        emitted += 1
        stats["signals"] = stats.get("signals", 0) + 1
        if emitted > 1:
            return idx, "second threshold event in one step"
        if over_before:
            return idx, "signal although a value was already over the threshold before this vote"
        kind, prop = mb.group(1), int(mb.group(5))
        if prop not in over_after:
            return idx, "signal for value %d which is not over the threshold (over: %s)" % (prop, sorted(over_after))
        if len(over_after) != 1:
            return idx, "signal while %d values are over the threshold" % len(over_after)
        want_kind = "1" if step == 1 else "2" if step == 2 else "3"
        if kind != want_kind or mb.group(2) != rnd or mb.group(3) != per or int(mb.group(4)) != step:
            return idx, "signal of the wrong kind/round/period/step"
        # the bundle is a valid quorum proof for prop
        if (mb.group(6), mb.group(7), int(mb.group(8)), int(mb.group(9))) != (rnd, per, step, prop):
            return idx, "bundle header differs from the signal"
        bv = [x.split(":") for x in _items(mb.group(10))]
        be = [x.split(":") for x in _items(mb.group(11))]
        senders = [x[0] for x in bv] + [x[0] for x in be]
        if len(set(senders)) != len(senders):
            return idx, "bundle repeats a sender"
        tot = 0
        H = set(hist)
        for x in bv:
            if "BADCRED" in x or "BADSIG" in x or len(x) != 3:
                return idx, "bundle vote with a foreign credential/signature"
            a, b, c = int(x[0]), int(x[1]), int(x[2])
            if c != prop or (a, b, prop) not in H:
                return idx, "bundle vote %s is not an accepted vote for the value" % ":".join(x)
            tot += b
        for x in be:
            if len(x) != 6 or not all(y.isdigit() for y in x):
                return idx, "malformed equivocation pair in bundle"
            a, b, p0, p1, s0, s1 = (int(y) for y in x)
            if p0 == p1 or (s0, s1) != (p0, p1) or (a, b, p0) not in H or (a, b, p1) not in H:
                return idx, "bundle equivocation pair %s is not two accepted votes for different values" % ":".join(x)
            tot += b
        if tot < T:
            return idx, "bundle weight %d below the threshold %d" % (tot, T)
        if len(bv) > T or len(be) > T or len(bv) + len(be) > T or not bv:
            return idx, "bundle size rejected by unauthenticatedBundle.verify"
    return None


def in_scope(case_ops):
    """the property's quantifier: positive weights that are a function of the sender"""
    w = {}
    for o in case_ops:
        g = o.split()
        if g[0] == "vote" and (int(g[2]) == 0 or w.setdefault(g[1], g[2]) != g[2]):
            return False
    return True


_BUNDLE = re.compile(r" B r=\d+ p=\d+ s=\d+ prop=\S+ votes=\[.*?\] eq=\[.*?\]")


def pinned(line):
    """the part of an output line that count_refines / threshold_exact determine uniquely: event kind and value (or
    none / panic) and the four tallies; the bundle's packing order is only constrained by genBundle_valid"""
    return _BUNDLE.sub("", line)


# ----------------------------------------------------------------------------- the check
def out_kind(a):
    if a.startswith("thr"):
        return "out:threshold"
    if a.startswith("none"):
        return "out:none"
    if a.startswith("PANIC") or a == "DEAD":
        return "out:" + a
    return "out:other"


def run(ctx, replay_ops=None):
    ctx.overlay()
    ctx.assumptions += [
        "accepted votes have weight > 0 (committee.Credential.Verify / Selected) and the weight is a function of the sender within one (round, period, step) (hypotheses PosWeights, Consistent of the theorems)",
        "all votes dispatched to one voteTracker carry the same round, period and step (router invariant; voteTrackerContract.pre checks the step)",
        "uint64 weight sums do not wrap: every sum formed is bounded by the total online stake < 2^64 (model uses Nat)",
        "no_panic additionally assumes the protocol's honesty bound: equivocating weight < T and total committee weight + equivocating weight < 2T",
        "genBundle_valid: `valid` (signature + credential verification of single votes) is a parameter; every accepted vote is assumed valid with its stated weight",
    ]
    proved = ctx.prove(["AlgoVerif.Props.C06"])
    ok, out = ctx.lean_build(["c06"])
    if not ok:
        raise RuntimeError("driver c06 does not build: " + out[-800:])
    env = {}
    if not proved:
        env["VERIF_BUDGET_SCALE"] = "1000" if ctx.tier == "quick" else "300"
    name, pkg, test = "c06", "./agreement", "TestVerifC06"
    if replay_ops is not None:
        rp = os.path.join(ctx.work, name + ".replay")
        open(rp, "w").write("\n".join(replay_ops) + "\n")
        env["VERIF_REPLAY"] = rp
    ctx.cov["rule"] = ("a case = one tracker: reset(mode router+contract | direct, step kind incl. propose/late/redo/down, protocol → threshold T) followed by "
                       "votes (sender, weight, value); directed scenarios (sole-voter equivocation, equivocation before/after crossing, T−1 then +1, too many "
                       "equivocators, two values over at once, equal weights) × 7 steps × 3 protocols; ALL sequences of length 4 (quick) / 5 (thorough) over "
                       "3 senders × 3 values for fixed (T, weights); random cases over ≤ 8 senders with weights ≈ T/k, equal, up to T, or small, duplicates 40%, "
                       "equivocation 40%, 3% cases with sender-inconsistent weights, rare weight 0 / T = 0; a case is non-trivial when it has ≥ 2 votes; distinct = distinct "
                       "(reset parameters minus round/period, vote list)")
    rc, out = ctx.go_test(pkg, test, env=env, timeout=3000)
    opsf, implf = os.path.join(ctx.work, name + ".ops"), os.path.join(ctx.work, name + ".impl")
    if rc != 0 or not os.path.exists(opsf):
        ctx.tie_failures.append("harness %s %s failed to run (rc=%d): %s" % (pkg, test, rc, out[-600:]))
        return
    ops, impl = ctx.read_lines(opsf), ctx.read_lines(implf)
    mf = os.path.join(ctx.work, name + ".model.out")
    drc = ctx.driver("c06", [], opsf, mf)
    if drc != 0:
        ctx.tie_failures.append("driver c06 failed rc=%d" % drc)
        model = []
    else:
        model = ctx.read_lines(mf)
    hz = {"pkg": pkg, "test": test, "name": name}

    # coverage accounting
    cases = split_cases(ops, impl)
    dist = ctx.cov["distribution"]
    for o, a in zip(ops, impl):
        k = o.split(" ", 1)[0]
        dist[k] = dist.get(k, 0) + 1
        if k == "vote":
            ko = out_kind(a)
            dist[ko] = dist.get(ko, 0) + 1
        elif k == "reset":
            f = o.split()
            ks = "step:%s/%s" % (f[2] if int(f[2]) < 4 else "next+" if int(f[2]) < 253 else f[2], f[1])
            dist[ks] = dist.get(ks, 0) + 1
    ctx.cov["evaluations"] += len(ops)
    distinct = set()
    for _, c in cases:
        votes = [o for o, _ in c if o.startswith("vote")]
        if len(votes) >= 2:
            distinct.add((" ".join(c[0][0].split()[:5]),) + tuple(votes))
    ctx.cov["distinct_nontrivial"] += len(distinct)
    import random
    rnd = random.Random(ctx.seed)
    for _, c in rnd.sample(cases, min(6, len(cases))):
        ctx.cov["samples"].append(("; ".join(o for o, _ in c))[:400])

    # 1. model correspondence.  Event kind/value and the tallies are pinned by count_refines / threshold_exact for in-scope
    #    histories, so a divergence there is a violation on that input; a divergence only in the bundle packing, or on a
    #    history outside the quantifier, breaks the tie (still reported) but is a failing input only if the monitor agrees.
    bad = ctx.compare(ops, impl, model, "model") if model else []
    seen_cases = set()
    for (i, op, a, b) in bad:
        j = i
        while j > 0 and not ops[j].startswith("reset"):
            j -= 1
        if j in seen_cases:
            continue
        seen_cases.add(j)
        if len(seen_cases) > 5:
            break
        cops = case_of(ops, i)
        hit = monitor_case(list(zip(cops, impl[j:i + 1])), {})
        found = bool(hit) or (op.startswith("vote") and in_scope(cops) and pinned(a) != pinned(b)) or op.startswith("rq")
        ctx.violation("voteTracker output differs from the proved model at vote %d of the case: impl `%s` vs model `%s`%s" % (i - j, a[:200], b[:200], (" — monitor: " + hit[1]) if hit else ""),
                      {"kind": "correspondence", "driver": "model", "ops": cops, "index": i, "impl_out": a, "model_out": b, "harness": hz},
                      found_input=found)
    if len(bad) > 5:
        ctx.notes.append("%d mismatching lines vs model in total" % len(bad))

    # 2. property monitor on the implementation's outputs alone
    stats = {}
    hits = 0
    for start, c in cases:
        hit = monitor_case(c, stats)
        if hit:
            idx, msg = hit
            hits += 1
            if hits <= 5:
                ctx.violation("monitor: " + msg, {"kind": "monitor", "ops": [o for o, _ in c[:idx + 1]], "impl_out": c[idx][1], "harness": hz}, found_input=True)
    for k, v in stats.items():
        dist["monitor:" + k] = v
    dist["monitor:cases_checked"] = len(cases)


def replay(ctx, path):
    common.std_replay(ctx, path, run)
