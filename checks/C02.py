"""C02 — honest nodes never equivocate, even across crashes.

Proved (Props.C02, over Model.AgreementSvc with an abstract player): release_after_persist, release_needs_checkpoint,
no_equivocation (hypothesis AttestOnce on the player), no_equivocation_on_run, no_equivocation_epochs and the negative
zero_state_persisted_allows_equivocation (restore rule of the code before 7a74b7193e).
Tie (this check): NetDrive — N real agreement.Service instances under a harness-owned schedule — with the C02 hooks
(checks/c02hooks.py: generated copies of service.go, actions.go, persistence.go, pseudonode.go, anchors checked each run) and
crashes injected AT the hook points between attest, persist, checkpoint and release (crash DB snapshotted at the point, the
rest of the incarnation discarded, restart on the snapshot, schedule continued; double crashes), plus hold / crash / crashmid.
 * acceptor `c02` (= Model.AgreementSvc.step on the trace player + observation checks) must accept every hook trace;
 * monitors on the implementation alone: per (sender key, round, period, step ≥ soft) ONE value over all released votes
   (VOTEOUT own=1) of all incarnations; without a crash at most one proposal value per (key, round, period);
 * tie F: persistent() is true exactly for attest (source scan).
Replay = the schedule (header + decisions incl. `hcrash`), re-executed by TestVerifC02."""
import concurrent.futures, glob, json, os, re
import vf
import netdrive, c02hooks

# acceptor rules that are the property itself (a vote left / would survive without its state being durable)
PROPERTY_RULES = ("release-before-checkpoint", "wait-passed-before-checkpoint", "ckpt-before-persist", "persisted-image-mismatch",
                  "restart-lost-state", "restart-state-mismatch", "epoch-overlap", "attest-once", "out-value-mismatch", "epoch-round")
POINTS = ("attest", "enq", "enqd", "pbegin", "persisted", "ckpt", "waitbegin", "waitend", "out")

ASSUMPTIONS = [
    "AttestOnce (hypothesis of no_equivocation): along every event list the real player/router produces one attest value per (round, period, step). NOT proved for the concrete player here; backed by Props.C01.honest_never_equivocates / next_values_unique on the abstract rules plus trace acceptance (c01abs rule vote-unique, c02 rule attest-once evaluated on the logical run of every explored trace)",
    "Go channel / goroutine behaviour (persistStateDone, asyncPersistenceLoop FIFO, demux priorities) is represented by the order of the hook events, not verified; the refinement `real Service ⊑ Model.AgreementSvc` is checked by trace acceptance on the sampled schedules only",
    "scope: votes produced by attest actions (steps ≥ soft). Proposal-step votes (assemble / repropose) are released without persistence BY DESIGN: after a crash a node may send a second, different proposal vote for a round; only the crash-free monitor applies to them",
    "a crash = everything volatile is lost, the crash DB row is as of the crash point (sqlite atomic commit assumed: C07/C09 cover the codec and the store); a stale-round restart (restored round < Ledger.NextRound) starts a new epoch in a later round (no_equivocation_epochs, rule epoch-overlap)",
    "one participation key per node in the harness; a vote task signs the attest's value once per key",
    "signatures unforgeable: a vote carrying an honest sender was produced by that node's pseudonode",
]


def split_trace(shard):
    """{schedule id: [(line, verdict)]} from c02.trace + acceptor output"""
    tr = os.path.join(shard["dir"], "c02.trace")
    out = os.path.join(shard["dir"], "c02.out")
    if not os.path.exists(tr) or not os.path.exists(out):
        return None
    lines, verdicts = netdrive.read_lines(tr), netdrive.read_lines(out)
    if len(lines) != len(verdicts):
        return None
    res, cur = {}, None
    for l, v in zip(lines, verdicts):
        m = re.match(r"# schedule (\d+)", l)
        if m:
            cur = int(m.group(1))
            res[cur] = []
        elif cur is not None:
            res[cur].append((l, v))
    return res


def analyse(ctx, shard, stats, corpus_name=None):
    scheds, logs = netdrive.schedules_of(shard), netdrive.logs_of(shard)
    tr = os.path.join(shard["dir"], "c02.trace")
    if os.path.exists(tr):
        rc = ctx.driver("c02", [], tr, os.path.join(shard["dir"], "c02.out"), timeout=1800)
        if rc != 0:
            ctx.tie_failures.append("acceptor c02 failed on %s (rc=%d)" % (tr, rc))
    traces = split_trace(shard)
    if traces is None:
        ctx.tie_failures.append("no usable hook trace from shard %s (rc=%d): %s" % (shard["name"], shard["rc"], shard["out"][-400:]))
        traces = {}
    if shard["rc"] != 0:
        out = shard["out"]
        last = max(scheds) if scheds else None
        in_service = "panic" in out and any(f in out for f in ("agreement.(*Service).mainLoop", "agreement.(*Service).demuxLoop",
                                                               "agreement.(*asyncPersistenceLoop).loop", "agreement.pseudonodeVotesTask.execute"))
        m = re.search(r"^panic: (.*)$", out, re.M)
        if last is not None and in_service and stats["panics"] < 3:
            stats["panics"] += 1
            ctx.violation("node panic: the real agreement code panicked inside a Service goroutine: %s" % (m.group(1)[:200] if m else "rc=%d" % shard["rc"]),
                          {"kind": "c02", "sched": scheds[last], "corpus": corpus_name, "panic": out[-800:]}, found_input=True)
        else:
            ctx.tie_failures.append("C02 harness process failed (rc=%d) in %s, last schedule %s: %s" % (shard["rc"], shard["name"], last, out[-600:]))
    # c01abs on the abstract trace: only rule vote-unique matters here (evidence for AttestOnce)
    for sid, rnd, evs in netdrive.accept(ctx, shard):
        for l, v in evs:
            if v.startswith("reject"):
                stats["c01_rejects"][v.split()[-1]] = stats["c01_rejects"].get(v.split()[-1], 0) + 1
                if v.split()[-1] == "vote-unique" and sid in scheds and stats["reported"] < 4:
                    stats["reported"] += 1
                    ctx.violation("an honest node produced two attest values for one (round, period, step) in one surviving history: round %d `%s`" % (rnd, l),
                                  {"kind": "c02", "sched": scheds[sid], "corpus": corpus_name}, found_input=True)
    for l in netdrive.read_lines(os.path.join(shard["dir"], "c02.summary")):
        f = netdrive.kv(l)
        for key in ("crashes", "hookcrashes", "armed", "between", "pfails", "ckptfirst"):
            stats[key] += int(f.get(key, 0))
        for name, dst in (("hits", stats["hits"]), ("crashedat", stats["crashedat"])):
            for item in f.get(name, "").split(","):
                if "=" in item:
                    k, v = item.split("=")
                    dst[k] = dst.get(k, 0) + int(v)
    for sid in sorted(scheds):
        log = logs.get(sid, [])
        stats["schedules"] += 1
        prof = netdrive.kv(scheds[sid][0]).get("profile", "?")
        stats["profiles"][prof] = stats["profiles"].get(prof, 0) + 1
        for d in scheds[sid][1:]:
            k = d.split()[0]
            stats["decisions"][k] = stats["decisions"].get(k, 0) + 1
        for nline in [l for l in log if l.startswith("NOTE ") and any(t in l for t in ("QUIET-TIMEOUT", "HARNESS-PANIC", "SCHEDULE-TIMEOUT", "SHUTDOWN-TIMEOUT"))][:2]:
            ctx.notes.append("schedule %d: %s" % (sid, nline[:200]))
            stats["harness_notes"] += 1
            if "HARNESS-PANIC" in nline:
                ctx.tie_failures.append("schedule %d: %s" % (sid, nline[:300]))
        # ---- monitor 1: one value per (sender key, round, period, step >= soft) over all incarnations' released votes
        released, proposals, crashed = {}, {}, set()
        hon = netdrive.kv(scheds[sid][0]).get("honest", "").split(",")
        honest = {str(i) for i, b in enumerate(hon) if b == "1"}
        doubles = 0
        lastcrash = {}
        for l in log:
            f = netdrive.kv(l)
            if l.startswith("CRASH "):
                crashed.add(f["node"])
                stats["crash_lines"] += 1
            if l.startswith("RESTART "):
                if f.get("restored") == "true":
                    stats["restored"] += 1
                else:
                    stats["fresh"] += 1
            if l.startswith("VOTEOUT ") and f.get("own") == "1" and f.get("sender") in honest:
                key = (f["sender"], f["round"], f["period"], f["step"])
                if f["step"] == "0":
                    proposals.setdefault(key[:3], set()).add(f["val"])
                else:
                    released.setdefault(key, []).append(f["val"])
                    stats["released"] += 1
        equiv = {k: sorted(set(v)) for k, v in released.items() if len(set(v)) > 1}
        stats["keys"] += len(released)
        stats["rereleased"] += sum(1 for v in released.values() if len(v) > 1)
        props2 = {k: sorted(v) for k, v in proposals.items() if len(v) > 1 and k[0] not in crashed}
        stats["proposal_changes_after_crash"] += sum(1 for k, v in proposals.items() if len(v) > 1 and k[0] in crashed)
        # ---- monitor 2: the hook trace is a trace of the proved state machine
        evs = traces.get(sid, [])
        rejects = [(l, v) for l, v in evs if v.startswith("reject")]
        bad = [l for l, v in evs if v == "bad-line"]
        stats["events"] += sum(1 for l, v in evs if v == "ok" or v.startswith("reject"))
        stats["rejects"] += len(rejects)
        for l, v in evs:
            k = l.split()[0] if l else ""
            stats["kinds"][k] = stats["kinds"].get(k, 0) + 1
        if any(l.startswith("crash") for l, _ in evs) and any(l.startswith("out") for l, _ in evs):
            stats["nontrivial"] += 1
        if len(stats["samples"]) < 5 and evs:
            i0 = next((i for i, (l, _) in enumerate(evs) if l.startswith("crash")), 0)
            stats["samples"].append("S%d: " % sid + " ; ".join(l for l, _ in evs[max(0, i0 - 6):i0 + 4]))
        if bad:
            ctx.tie_failures.append("schedule %d: hook trace lines the acceptor cannot parse: %s" % (sid, bad[:3]))
        if not (equiv or props2 or rejects):
            continue
        replay = {"kind": "c02", "sched": scheds[sid], "corpus": corpus_name,
                  "equivocation": {"/".join(k): v for k, v in equiv.items()},
                  "rejects": ["`%s` → %s" % r for r in rejects[:10]]}
        if equiv:
            k0 = sorted(equiv)[0]
            what = "node %s released votes for two different values at (round %s, period %s, step %s): %s" % (k0[0], k0[1], k0[2], k0[3], equiv[k0])
            if rejects:
                what += "; first model rule broken: `%s` → %s" % rejects[0]
            stats["violations"] += 1
            if stats["violations"] <= 3:
                ctx.violation(what, replay, found_input=True)
        elif rejects:
            prop = [r for r in rejects if r[1].split()[-1] in PROPERTY_RULES]
            r0 = prop[0] if prop else rejects[0]
            what = ("the real Service produced a hook trace the proved state machine does not allow: `%s` → %s" % r0)
            stats["reject_scheds"].append(sid)
            if stats["reported"] < 4:
                stats["reported"] += 1
                ctx.violation(what, replay, found_input=bool(prop))
        if props2 and stats["reported"] < 6:
            stats["reported"] += 1
            k0 = sorted(props2)[0]
            ctx.violation("node %s, which never crashed in this schedule, sent two different proposal values for (round %s, period %s): %s" % (k0[0], k0[1], k0[2], props2[k0]),
                          dict(replay, proposals={"/".join(k): v for k, v in props2.items()}), found_input=True)


def new_stats():
    return {"schedules": 0, "events": 0, "rejects": 0, "nontrivial": 0, "violations": 0, "reported": 0, "panics": 0, "harness_notes": 0,
            "released": 0, "keys": 0, "rereleased": 0, "proposal_changes_after_crash": 0, "crash_lines": 0, "restored": 0, "fresh": 0,
            "crashes": 0, "hookcrashes": 0, "armed": 0, "between": 0, "pfails": 0, "ckptfirst": 0, "hits": {}, "crashedat": {}, "kinds": {}, "profiles": {}, "decisions": {},
            "c01_rejects": {}, "samples": [], "reject_scheds": []}


def run_range(ctx, exe, name, lo, hi, env, timeout):
    shards, k = [], 0
    while lo < hi and k < 6:
        e = dict(env)
        e.update({"VERIF_ND_FROM": str(lo), "VERIF_ND_SCHEDULES": str(hi)})
        sh = netdrive.run_shard(ctx, exe, "%s-%d" % (name, k) if k else name, e, timeout, test="TestVerifC02")
        shards.append(sh)
        if sh["rc"] == 0:
            break
        done = netdrive.schedules_of(sh)
        lo = (max(done) + 1) if done else hi
        k += 1
    return shards


def run(ctx, replay=None):
    ctx.overlay()
    c02hooks.hooked_overlay(ctx)
    facts, probs = c02hooks.persistent_facts()
    for p in probs:
        ctx.tie_failures.append("tie F: " + p)
    ctx.assumptions += ASSUMPTIONS
    ctx.trusted.append("NetDrive + C02 harness (Go) incl. the generated hook copies of agreement/{service,actions,persistence,pseudonode}.go "
                       "(11 call sites, anchors and statement shapes checked each run); tie F persistent()=%s" % json.dumps(facts, sort_keys=True))
    proved = ctx.prove(["AlgoVerif.Props.C02"])
    ok, out = ctx.lean_build(["c02", "c01abs"])
    if not ok:
        raise RuntimeError(out[-800:])
    ctx.cov["rule"] = ("a case = one schedule of a real multi-node run (4–7 real Services; deliver/drop/dup, timeouts, partitions, Byzantine votes, "
                       "hold / crash / crashmid and crashes injected at the nine hook points between attest, persist, checkpoint and release, "
                       "double crashes); an evaluation = one hook event checked against the model; non-trivial = the schedule contains a crash "
                       "and a released vote; distinct by construction (different schedule seeds)")
    exe = netdrive.build_test_binary(ctx)
    if exe is None:
        return
    stats = new_stats()
    tmo = 3000

    if replay is not None:
        rp = os.path.join(ctx.work, "replay.sched")
        open(rp, "w").write("\n".join(replay["sched"]) + "\n")
        for i in range(3):   # goroutine scheduling inside a Service is not controlled
            sh = netdrive.run_shard(ctx, exe, "replay%d" % i, {"VERIF_REPLAY": rp}, tmo, test="TestVerifC02")
            analyse(ctx, sh, stats, corpus_name=replay.get("corpus"))
            if ctx.violations:
                break
        finish_cov(ctx, stats)
        return

    # ---- 1. corpus first: the double-crash schedules of C01 (crash-state wipe, 7a74b7193e) and C02's own
    paths = sorted(glob.glob(os.path.join(vf.VERIF, "corpus", "C01", "doublecrash*.sched"))) + sorted(glob.glob(os.path.join(vf.VERIF, "corpus", "C02", "*.sched")))
    for path in paths:
        name = "corpus-" + os.path.basename(path)[:-6]
        sh = netdrive.run_shard(ctx, exe, name, {"VERIF_REPLAY": path}, tmo, test="TestVerifC02")
        analyse(ctx, sh, stats, corpus_name=os.path.basename(path))
    stats["corpus"] = len(paths)

    # ---- 2. generated schedules, in parallel shards
    total = ctx.budget(24, 1200)
    if not proved or ctx.tie_failures:
        total *= 4
    scale = os.environ.get("VERIF_BUDGET_SCALE")
    if scale and scale.isdigit():
        total = max(1, total * int(scale) // 100)
    nsh = ctx.budget(4, 8)
    per = (total + nsh - 1) // nsh
    jobs = [("shard%d" % i, i * per, min(total, (i + 1) * per)) for i in range(nsh) if i * per < total]
    with concurrent.futures.ThreadPoolExecutor(max_workers=len(jobs)) as ex:
        groups = list(ex.map(lambda j: run_range(ctx, exe, j[0], j[1], j[2], {}, tmo), jobs))
    for g in groups:
        for sh in g:
            analyse(ctx, sh, stats)

    # ---- 3. a rejected trace without an equivocation: search around it (crash-heavy, more hook crashes, other seeds)
    if stats["reject_scheds"] and not stats["violations"]:
        extra = ctx.budget(32, 400)
        jobs = [("search%d" % i, {"VERIF_SEED": str(ctx.seed * 977 + 101 + i), "VERIF_ND_PROFILE": "crash", "VERIF_C02_ARM": "120"}) for i in range(4)]
        with concurrent.futures.ThreadPoolExecutor(max_workers=4) as ex:
            groups = list(ex.map(lambda j: run_range(ctx, exe, j[0], 0, extra // 4, j[1], tmo), jobs))
        for g in groups:
            for sh in g:
                analyse(ctx, sh, stats)
        ctx.notes.append("rejected traces seen: %d extra crash-heavy schedules searched for released equivocations" % extra)
    finish_cov(ctx, stats)


def finish_cov(ctx, stats):
    ctx.cov["evaluations"] = stats["events"]
    ctx.cov["distinct_nontrivial"] = stats["nontrivial"]
    ctx.cov["samples"] = stats["samples"]
    ctx.cov["distribution"] = {
        "schedules": stats["schedules"], "profiles": stats["profiles"], "decisions": stats["decisions"], "hook_event_kinds": stats["kinds"],
        "hook_point_hits": stats["hits"], "crashes_injected_at_hook_point": stats["crashedat"], "crashes_total": stats["crashes"],
        "hook_point_crashes": stats["hookcrashes"], "crashes_with_attest_enqueued_but_vote_not_yet_released": stats["between"],
        "persist_failures_injected": stats["pfails"], "checkpoint_action_started_before_the_vote_task_waited(forced)": stats["ckptfirst"],
        "restarts_restored": stats["restored"], "restarts_fresh": stats["fresh"], "released_votes": stats["released"],
        "released_vote_keys": stats["keys"], "keys_released_by_more_than_one_vote_message": stats["rereleased"],
        "proposal_value_changed_after_crash(by design, not a violation)": stats["proposal_changes_after_crash"],
        "model_rejects": stats["rejects"], "c01abs_rejects": stats["c01_rejects"], "harness_notes": stats["harness_notes"]}
    ctx.say("C02: %d schedules, %d hook events (%d rejected), %d crashes (%d at hook points %s; %d between enqueue and release), %d persist failures injected (%d with the checkpoint action ahead of the vote task's wait), %d released votes on %d keys, %d violations"
            % (stats["schedules"], stats["events"], stats["rejects"], stats["crashes"], stats["hookcrashes"],
               json.dumps(stats["crashedat"], sort_keys=True), stats["between"], stats["pfails"], stats["ckptfirst"], stats["released"], stats["keys"], len(ctx.violations)))
    if stats["schedules"] and stats["events"] == 0:
        ctx.tie_failures.append("the C02 hooks saw nothing: no hook events in %d schedules" % stats["schedules"])
    elif stats["schedules"] >= 8:
        dead = [p for p in POINTS if stats["hits"].get(p, 0) == 0]
        if dead:
            ctx.tie_failures.append("hook points never reached in %d schedules: %s" % (stats["schedules"], dead))
        if stats["pfails"] == 0:
            ctx.tie_failures.append("no persist failure was injected in %d schedules (the error branch of checkpointAction.do is not exercised)" % stats["schedules"])
        if stats["hookcrashes"] == 0:
            ctx.tie_failures.append("no crash was injected at a hook point in %d schedules" % stats["schedules"])


def replay(ctx, path):
    r = json.load(open(path))
    if r.get("kind") not in ("c02", "netdrive") or not r.get("sched"):
        run(ctx)
        return
    run(ctx, replay=r)
