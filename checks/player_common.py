"""PlayerDrive (harness/agreement/zz_verif_player_test.go) vs PlayerM (lean exe `player`): shared by C03 and C07.
Runs the harness on the real rootRouter + player, runs the model driver on the same op lines, splits into cases
(a case = `reset` … until the next `reset`), and offers the two property monitors that look at the implementation's
output alone."""
import os, re
import vf

NAME, PKG, TEST, EXE = "player", "./agreement", "TestVerifPlayer", "player"
HZ = {"pkg": PKG, "test": TEST, "name": NAME}

RULE = ("directed first (6 cases, then 1 per 10 generated): quorums that only form through 1–3 EQUIVOCATORS in one (round, period, step) — D votes w, the equivocators vote "
        "twice (w first or two other values), threshold set so that Σw(D)+Σw(all but the last-packed equivocator) < T ≤ Σw(D)+Σw(equivocators); two canonical cert-step cases "
        "(X→w, D→w, X→u, Y→a, Y→b), then random step (soft/cert/next), count, first values and arrival order; every emitted bundle (ensure certificate, stageDigest, relayed / "
        "re-broadcast bundles) is re-verified structurally by the harness. Then: a case = one real rootRouter+player started at (round 1..30, period 0 or ≤5, step soft) with 4–7 senders (weights 1–4 ×{1,10,1000}, "
        "rare whale) and thresholds ≈ 68/70/72/30/66/74 % of the total weight (10 %: all 51 %), DynamicFilterTimeout on 70 %; then 60–200 events "
        "generated ADAPTIVELY from the live player's (round, period, step): whole synchronous periods (1–3 proposal-votes with credentials, "
        "payload present/verified, compound vote+payload with Pending/TaskIndex, filter timeout, soft quorum, cert quorum, late payload), single "
        "proposals, timeouts (soft / next / napping), soft / cert quorums (complete or 1–2 senders short), next-vote quorums for ⊥ or a value, "
        "verified bundles for soft / cert / next of the current, next, far-future and stale periods with equivocation pairs, fast-recovery "
        "timeouts with late / redo / down quorums, pipelined next-round proposals + votes, late / duplicate payloads, replays of earlier traffic, "
        "checkpoints, round interruptions; every batch perturbed by drop 3 %, duplicate 6 %, stale/future shifted copy 4 %, neighbour swaps 10 %, "
        "equivocation 3 %, failed / cancelled / no-protocol verification 3 %; plus a malformed stream (1/6 of the budget: arbitrary nearby "
        "coordinates, ⊥ votes, weights 0, empty bundles, backwards round interruptions). `persist` (real encode+decode, msgp or reflect) after "
        "10 % of the batches and at the end of every case; the decoded router then receives every later event too. A case is non-trivial when it "
        "has ≥ 10 events; distinct = distinct op sequence")

ASSUME = [
    "PlayerM scope: player.lowestCredentialArrivals / dynamicFilterTimeout / validatedAt / receivedAt are NOT modelled (filter timeout = FilterTimeout(period), "
    "exact while < 40 period-0 rounds complete in one case — the generator stops far earlier); consensus-version lookup errors on timeout events are not generated; "
    "rounds / steps / durations are unbounded naturals (steps stay < 30 on the timeout path); periods wrap only in `Period-1` at period 0 and in the GC test",
    "events are *verified* events: signatures, VRF credentials and block validation are outside (symbolic senders / values / credential ranks mapped to real "
    "objects by the harness); a verified bundle's votes all carry the bundle's round / period / step (bundle.go builds them so)",
    "uint64 weight sums do not wrap (bounded by the total stake)",
]


def corpus_ops():
    """directed scenarios kept from past work (run before the generated stream): corpus/player/*.ops"""
    d = os.path.join(vf.VERIF, "corpus", "player")
    out = []
    if os.path.isdir(d):
        for f in sorted(os.listdir(d)):
            if f.endswith(".ops"):
                out += [l for l in open(os.path.join(d, f)).read().splitlines() if l.strip()]
    return out


def drive(ctx, replay_ops=None, env=None, timeout=3000):
    """returns (ops, impl, model) or None when the tie could not be established (recorded in ctx.tie_failures)"""
    if replay_ops is None:
        c = corpus_ops()
        pre = _drive(ctx, c, env, timeout, tag=".corpus") if c else ([], [], [])
        if pre is None:
            return None
        gen = _drive(ctx, None, env, timeout)
        if gen is None:
            return None
        return pre[0] + gen[0], pre[1] + gen[1], (pre[2] + gen[2]) if (pre[2] or not pre[0]) and (gen[2] or not gen[0]) else []
    return _drive(ctx, replay_ops, env, timeout)


def _drive(ctx, replay_ops, env, timeout, tag=""):
    e = dict(env or {})
    if replay_ops is not None:
        rp = os.path.join(ctx.work, NAME + ".replay")
        open(rp, "w").write("\n".join(replay_ops) + "\n")
        e["VERIF_REPLAY"] = rp
    rc, out = ctx.go_test(PKG, TEST, env=e, timeout=timeout)
    opsf, implf = os.path.join(ctx.work, NAME + ".ops"), os.path.join(ctx.work, NAME + ".impl")
    if rc != 0 or not os.path.exists(opsf):
        ctx.tie_failures.append("harness %s %s failed to run (rc=%d): %s" % (PKG, TEST, rc, out[-600:]))
        return None
    ops, impl = ctx.read_lines(opsf), ctx.read_lines(implf)
    mf = os.path.join(ctx.work, NAME + tag + ".model.out")
    drc = ctx.driver(EXE, [], opsf, mf)
    if drc != 0:
        ctx.tie_failures.append("driver %s failed rc=%d" % (EXE, drc))
        return ops, impl, []
    return ops, impl, ctx.read_lines(mf)


def case_start(ops, i):
    j = i
    while j > 0 and not ops[j].startswith("reset"):
        j -= 1
    return j


def split_cases(ops, impl):
    cases, cur, start = [], [], 0
    for i, (o, a) in enumerate(zip(ops, impl)):
        if o.startswith("reset") and cur:
            cases.append((start, cur)); cur = []; start = i
        cur.append((o, a))
    if cur:
        cases.append((start, cur))
    return cases


def account(ctx, ops, impl):
    dist = ctx.cov["distribution"]
    acts = {}
    for o, a in zip(ops, impl):
        k = o.split(" ", 1)[0]
        dist[k] = dist.get(k, 0) + 1
        if " | " in a:
            live = a.split(" || ")[0]
            for act in live.split(" | ")[0].split("; "):
                t = "act:" + act.split(" ")[0]
                dist[t] = dist.get(t, 0) + 1
        elif a.startswith("PANIC"):
            t = "out:" + a.split(" || ")[0]
            dist[t] = dist.get(t, 0) + 1
    cases = split_cases(ops, impl)
    ctx.cov["evaluations"] += len(ops)
    distinct = set()
    maxp = 0
    rounds = 0
    for _, c in cases:
        if len(c) >= 10:
            distinct.add(tuple(o for o, _ in c))
        rs = [int(m.group(1)) for _, a in c for m in [re.search(r"\| R=(\d+) P=(\d+)", a)] if m]
        ps = [int(m.group(2)) for _, a in c for m in [re.search(r"\| R=(\d+) P=(\d+)", a)] if m]
        if rs:
            rounds += max(rs) - min(rs)
        if ps:
            maxp = max(maxp, max(ps))
    ctx.cov["distinct_nontrivial"] += len(distinct)
    dist["cases"] = len(cases)
    dist["rounds_advanced"] = rounds
    dist["max_period"] = maxp
    import random
    rnd = random.Random(ctx.seed)
    for _, c in rnd.sample(cases, min(4, len(cases))):
        ctx.cov["samples"].append(("; ".join(o for o, _ in c[:12]))[:400])
    return cases


def live_part(line):
    return line.split(" || ")[0]


def shadow_part(line):
    if " || " not in line:
        return None
    return line.split(" || ", 1)[1].split(" ## ")[0]


def ensure_actions(line):
    """the `ensure …` actions of the live machine on an output line"""
    lp = live_part(line)
    if " | " not in lp:
        return []
    return [a for a in lp.split(" | ")[0].split("; ") if a.startswith("ensure ")]
