"""C16 — Catchpoint catchup reproduces the source state and rejects tampering.

Proof: Props.C16 (about Model.CatchpointFile: the file the writer produces, ProcessStagingBalances / BuildMerkleTrie /
GetVerifyData / VerifyCatchpoint as coded, incl. the unique constraints of the staging tables).
Tie C (zz_verif_c16_test.go): a real ledger that stores catchpoints produces a real file with the real catchpointFileWriter; a
fresh real ledger restores it through the real CatchpointCatchupAccessor driven as catchup/catchpointService does; the restored
tracker DB is compared with the producer's at the accounts round, the restored ledger then keeps producing the producer's
labels. Tamper stream: ~90 single changes of the decoded file (header fields, version, totals, one record field, dropped /
duplicated / reordered records and chunks, kv edits incl. the boundary shift, split account records, raw byte flips).
  * monitor (implementation only): honest file ⇒ restored state identical + later labels identical; tampered file ⇒ rejected
    before the node adopts it, or the adopted state is identical to the producer's (benign change). An accepted file whose adopted
    state differs is a violation — the kv boundary-shift class is the known finding F2;
  * correspondence: the Lean model predicts accept / reject(stage) / same-or-different state for every file, byte-level label
    recomputation included (SHA-512/256, leaves, canonical trie in Lean). The model variant (first record's account data kept /
    continuation records must repeat it) is the FACT observed on the split-account mutations of the same run."""
import os, re
import vf

PKG, TEST, NAME = "./ledger", "TestVerifC16", "c16"
HARNESS = {"pkg": PKG, "test": TEST, "name": NAME}
KV_KEY = {"kind": "kv-boundary-shift"}
SPLIT_KEY = {"kind": "split-account-first-record"}


def cls(line):
    f = line.split()
    if len(f) >= 2 and f[0] in ("accept", "reject"):
        return f[0] + " " + f[1].split("-then")[0]
    return line[:60]


def family(mid):
    return re.sub(r"-\d+(split)?$", "", mid).split("-")[0]


def kv_shift_only(diff):
    """the adopted state differs from the producer's ONLY in kv rows, and the key‖value concatenations are the same"""
    parts = [p.strip() for p in diff.split(" ; ") if p.strip()]
    prod, rest = [], []
    for p in parts:
        m = re.match(r"row\[K\] producer\{(.*?)\} restored\{(.*?)\}$", p)
        if not m:
            return False
        for side, acc in ((m.group(1), prod), (m.group(2), rest)):
            if side:
                f = side.split()
                if len(f) != 3 or f[0] != "K":
                    return False
                acc.append(("" if f[1] == "_" else f[1]) + ("" if f[2] == "_" else f[2]))
    return bool(prod) and sorted(prod) == sorted(rest)


def run(ctx, replay_ops=None):
    ctx.overlay()
    ctx.assumptions += [
        "hash as a parameter; tamper_rejected_partial assumes, for the two label computations compared (source / restored): the label rendering round#base32(digest) "
        "determines round and digest, the label hash does not collide on the two buffers, the two files name the same label version, and the trie root of the two leaf lists "
        "commits to the leaf multiset (C17 proves root = function of the set; the converse under collision freedom is assumed, as in C15)",
        "leaves vs stored rows: tamper_rejected_partial concludes equality of the staged LEAVES, totals and verification digests; that the stored rows are exactly the hashed rows is NOT proved "
        "(tied on every run: model and real accessor agree on every mutation). Proved counter-examples: kv_shift_accepted (known finding F2, every variant) and split_account_accepted "
        "(the code before the repair 3daf973709; split_account_rejected for the repaired code)",
        "restore_file_partial assumes the producer's rows satisfy the unique constraints of the staging tables (stated operationally: the staging inserts succeed) and carry consistent resource counts",
        "records carry the decoded fields the accessor reads (resource counts, flags, update rounds) next to their raw encodings: msgpack decoding itself, SQLite, tar/gzip framing and the "
        "block download (the node obtains the block of the round the file names) are not modelled; catchpoint file version V5 and files that fail to decode are answered `reject process` without a model of the decoder",
    ]
    proved = ctx.prove(["AlgoVerif.Props.C16"])
    ok, out = ctx.lean_build(["c1416"])
    if not ok:
        raise RuntimeError("driver c1416 does not build: " + out[-800:])
    env = {} if proved else {"VERIF_BUDGET_SCALE": "300"}
    ctx.cov["rule"] = ("a case = one random history of real blocks → producer ledger (CatchpointTracking=2) → one of its real catchpoint files, restored honestly (completed, ledger reloaded, "
                       "remaining blocks added) and under every applicable mutation of the catalogue (each draws its target record at random). Evaluations = files restored; "
                       "a mutation is non-trivial when it changes the file bytes; distinct = distinct (case, mutation id)")
    e = dict(env)
    if replay_ops is not None:
        rp = os.path.join(ctx.work, NAME + ".replay")
        open(rp, "w").write("\n".join(replay_ops) + "\n")
        e["VERIF_REPLAY"] = rp
    rc, out = ctx.go_test(PKG, TEST, env=e, timeout=6000)
    opsf, implf = os.path.join(ctx.work, NAME + ".ops"), os.path.join(ctx.work, NAME + ".impl")
    if rc != 0 or not os.path.exists(opsf):
        ctx.tie_failures.append("harness %s %s failed to run (rc=%d): %s" % (PKG, TEST, rc, out[-600:]))
        return
    ops, impl = ctx.read_lines(opsf), ctx.read_lines(implf)
    # fact: which account data does the staging table keep for an account split over several records?
    split_lines = [(o, a) for o, a in zip(ops, impl) if o.startswith("mut acct-split-first-record-tampered")]
    first_wins = any(a.startswith("accept") for _, a in split_lines)
    variant = "first" if first_wins else "checked"
    ctx.notes.append("fact observed: split account records — " + ("the FIRST record's account data is kept (code before the repair)" if first_wins
                                                                  else "continuation records must repeat the account data"))
    ops2 = os.path.join(ctx.work, NAME + ".model.ops")
    with open(ops2, "w") as fo:
        for o in ops:
            fo.write((o + " split=" + variant if o.startswith("case16 ") else o) + "\n")
    mf = os.path.join(ctx.work, NAME + ".model.out")
    if ctx.driver("c1416", [], ops2, mf, timeout=3000) != 0:
        ctx.tie_failures.append("driver c1416 failed")
        return
    model = ctx.read_lines(mf)
    dist = ctx.cov["distribution"]
    ctx.cov["evaluations"] += sum(1 for o in ops if o.startswith(("file ", "mut ")))
    case = None
    seen = set()
    reported = 0
    for i, op in enumerate(ops):
        a = impl[i] if i < len(impl) else "<missing>"
        b = model[i] if i < len(model) else "<missing>"
        f = op.split(" ", 2)
        k = f[0]
        if k == "case16":
            case = op
            dist["cases"] = dist.get("cases", 0) + 1
            continue
        if a.startswith("FAILED"):
            ctx.tie_failures.append("harness case failed: %s (%s)" % (case, a))
            continue
        mid = f[1] if k == "mut" else "honest"
        fam = "honest" if k == "file" else family(mid)
        c = cls(a)
        dist[fam + ": " + c] = dist.get(fam + ": " + c, 0) + 1
        if (case, mid) not in seen:
            seen.add((case, mid))
            ctx.cov["distinct_nontrivial"] += 1
        only = (case or "") + ((" only=" + mid) if k == "mut" and " only=" not in (case or "") else (" only=-" if k == "file" and " only=" not in (case or "") else ""))
        rp = {"kind": "tamper" if k == "mut" else "roundtrip", "ops": [only], "mutation": mid, "impl_out": a[:3000], "model_out": b[:300],
              "file": op[:3000], "harness": HARNESS}
        hit = False
        # ---- property monitor on the implementation alone
        if k == "file":
            if not a.startswith("accept same") or "LATER-DIFF" in a:
                hit = True
                ctx.violation("the honest catchpoint file of the producer is not restored to the producer's state / later labels: " + a[:300], rp, found_input=True)
        elif a.startswith("accept DIFF"):
            hit = True
            diff = a[len("accept DIFF"):].strip()
            diff = re.sub(r"^then-\S+-failed\s*", "", diff)
            what = ("a tampered catchpoint file (%s) passes VerifyCatchpoint against the source label and the node adopts a state that differs from the producer's: %s"
                    % (mid, diff[:400]))
            if kv_shift_only(diff):
                ctx.violation("kv boundary shift: " + what, rp, found_input=True, match_key=KV_KEY)
            elif mid.startswith("acct-split-first-record-tampered"):
                ctx.violation("split account record: " + what, rp, found_input=True, match_key=SPLIT_KEY)
            else:
                ctx.violation(what, rp, found_input=True)
        elif not (a.startswith("reject ") or a.startswith("accept same")):
            hit = True
            ctx.violation("unexpected outcome of the catchup on a tampered file (%s): %s" % (mid, a[:300]), rp, found_input=True)
        # ---- correspondence with the model
        if cls(a) != cls(b) and b != "-" and reported < 5:
            reported += 1
            ctx.violation("outcome of the real catchup differs from the proved model's on this file (%s): real `%s`, model `%s`" % (mid, cls(a), cls(b)), rp,
                          found_input=hit)
    ctx.cov["samples"] += [o[:300] for o in ops if o.startswith("mut ")][:8]


def replay(ctx, path):
    import json
    r = json.load(open(path))
    run(ctx, replay_ops=[o for o in r.get("ops", []) if o and o.startswith("case16")])
