"""C10 — paginated listings return each resource exactly once.
Tie C: the REAL accountUpdates page functions (LookupAssetResources / LookupApplicationResources / LookupKvPairsByPrefix over the
real sqlite reader) under HistGen x SchedGen, against (a) the history oracle Spec.LedgerHistory (sorted live list + page rule) and
(b) the code-shaped Model.AcctUpdates page functions; a second harness drives the REAL REST handlers' next-token logic.
Monitors on the implementation alone: concatenated pages = the listing obtained by point lookups, strictly increasing, no
element twice, every page within its limits, the listing ends exactly when the last element was returned."""
import os
import common, au_common
from au_common import kv

F3_KEY = {"kind": "boxes-limit0-unlimited-config"}


def is_page(op):
    return op.split(" ", 1)[0] in ("reset", "block", "commit", "reload", "flush", "evict", "page", "iter", "full")


def items_of(s):
    return [] if s in ("-", "") else s.split(",")


def strictly_increasing(keys):
    return all(a < b for a, b in zip(keys, keys[1:]))


def monitor_pages(ctx, run):
    """iter ops are followed by the `full` listing of the same round obtained by point lookups"""
    stats = {"iterations": 0, "pages": 0, "multi-page": 0, "byte-capped pages": 0}
    n = len(run.ops)

    def viol(i, msg):
        ctx.violation("monitor: " + msg, {"kind": "monitor", "ops": run.ops[run.start[i]:i + 2], "impl_out": run.impl[i],
                                          "reference": run.impl[i + 1] if i + 1 < n else "", "harness": au_common.HARNESS}, found_input=True)

    for i, (op, a) in enumerate(zip(run.ops, run.impl)):
        f = op.split()
        if f[0] == "page" and f[1] == "kv" and a.startswith("ok "):
            d = kv(op)
            limit, maxb, vals = int(d["limit"]), int(d["maxb"]), d["vals"] == "1"
            its = items_of(a.split(" ", 3)[3] if len(a.split(" ", 3)) > 3 else "-")
            if limit > 0 and len(its) > limit:
                return viol(i, "a page holds %d items, limit %d" % (len(its), limit)) or stats
            size = sum(len(k) // 2 + (0 if v in ("-", "_") else len(v) // 2) for k, v in (x.split("=") for x in its))
            if len(its) > 1 and size > maxb:
                return viol(i, "a page of %d items holds %d bytes, cap %d" % (len(its), size, maxb)) or stats
            if len(its) == 1 and size > maxb:
                stats["byte-capped pages"] += 1
            continue
        if f[0] != "iter" or not a.startswith("ok "):
            continue
        # the reference listing
        j = i + 1
        while j < n and not run.ops[j].startswith("full") and run.ops[j].startswith("iter"):
            j += 1
        if j >= n or not run.ops[j].startswith("full") or not run.impl[j].startswith("ok"):
            continue
        ref = run.impl[j]
        stats["iterations"] += 1
        pages = a[3:].split("|")
        stats["pages"] += len(pages)
        if len(pages) > 1:
            stats["multi-page"] += 1
        d = kv(op)
        limits = [int(x) for x in d["limits"].split(",")]
        if "MORE-BUT-EMPTY" in pages:
            return viol(i, "moreData is set on an empty page: the listing cannot be continued") or stats
        flat = [x for p in pages for x in items_of(p)]
        for pi, p in enumerate(pages):
            if len(items_of(p)) > limits[pi % len(limits)]:
                return viol(i, "page %d holds more items than its limit" % pi) or stats
            if not items_of(p) and len(pages) > 1 and f[1] == "kv":
                return viol(i, "page %d is empty although the listing continued" % pi) or stats
        if f[1] == "kv":
            prefix = d["prefix"]
            vals = d["vals"] == "1"
            want = [x for x in items_of(ref[3:]) if x.split("=")[0].startswith(prefix)]
            if not vals:
                want = [x.split("=")[0] + "=-" for x in want]
            keys = [bytes.fromhex(x.split("=")[0]) for x in flat]
        else:
            want_all = items_of(ref.split(" ", 2)[2] if len(ref.split(" ", 2)) > 2 else "-")
            is_app = f[1] == "apps"
            want = [x for x in want_all if (int(x.split(":")[0]) > au_common.NASSET) == is_app]
            if is_app and d.get("params") != "1":
                want = [":".join(x.split(":")[:3]) + ":P-" for x in want]
            keys = [int(x.split(":")[0]) for x in flat]
        if not strictly_increasing(keys):
            return viol(i, "the pages are not strictly increasing (an element is repeated or out of order)") or stats
        if flat != want:
            missing = [x for x in want if x not in flat]
            extra = [x for x in flat if x not in want]
            return viol(i, "concatenated pages differ from the listing by point lookups (missing %s, unexpected %s)" % (missing[:3], extra[:3])) or stats
    return stats


def handler_monitor(ctx, ops, impl):
    """REST handlers (second harness): pages chained by next-token must reproduce the reference listing"""
    stats = {"handler ops": 0, "handler multi-page": 0}
    h = {"pkg": "./daemon/algod/api/server/v2/test", "test": "TestVerifC10H", "name": "c10h"}
    for op, a in zip(ops, impl):
        d = kv(a)
        if a.startswith("PANIC") or a.startswith("bad-op") or "status" not in d:
            ctx.violation("handler harness failed: " + a[:160], {"kind": "monitor", "ops": [op], "impl_out": a, "harness": h}, found_input=True)
            return stats
        stats["handler ops"] += 1
        if d["status"] != "200":
            continue        # legacy path refusing more boxes than the configured maximum
        pages = [] if d["pages"] == "-" and d["pagesn"] == "0" else d["pages"].split("|")
        flat = [x for p in pages for x in items_of(p)]
        ref = items_of(d["ref"])
        if len(pages) > 1:
            stats["handler multi-page"] += 1
        msg = None
        if d.get("path") == "legacy":
            if sorted(flat) != sorted(ref):
                msg = "the unpaginated listing differs from the boxes that exist"
        else:
            name = lambda x: bytes.fromhex(x.split("=")[0]) if op.startswith("hboxes") else int(x.split(":")[0])
            if flat != ref:
                missing = [x for x in ref if x not in flat]
                msg = "pages chained by next-token return %d of %d elements (missing e.g. %s)" % (len(flat), len(ref), missing[:3])
            elif not strictly_increasing([name(x) for x in flat]):
                msg = "pages are not strictly increasing"
            elif d.get("lasttoken") == "1":
                msg = "the final page still carries a next-token"
        if msg:
            o = kv(op)
            f3 = op.startswith("hboxes") and o.get("cfgmax") == "0" and o.get("limit") == "-"
            ctx.violation("monitor (REST handler): " + msg, {"kind": "monitor-handler", "ops": [op], "impl_out": a, "harness": h},
                          found_input=True, match_key=F3_KEY if f3 else None)
            return stats
    return stats


def run(ctx, replay_ops=None):
    ctx.overlay()
    ctx.assumptions += [
        "histories are well formed as the evaluator produces them (History.WF, see C08); params records come from the creator only and the creator "
        "table agrees with the params (Spec: creatorAt = some c iff c's resource has params)",
        "a page call does not overlap a commit (operation granularity); the DB round re-check is modelled",
        "byte strings compare bytewise (Go string order = SQLite BLOB order); SQLite's ORDER BY / LIMIT / range scan are trusted to do what they say",
        "the HTTP layer (echo routing, JSON encoding, b64 next-token codec) is exercised by correspondence only",
    ]
    proved = ctx.prove(["AlgoVerif.Props.C10"])
    okb, out = ctx.lean_build(["au"])
    if not okb:
        raise RuntimeError("driver au does not build: " + out[-800:])
    env = {} if proved else {"VERIF_BUDGET_SCALE": "400" if ctx.tier == "quick" else "200"}
    ctx.cov["rule"] = ("cases = the HistGen x SchedGen cases of C08 (opt-in/out, create/destroy, box create/resize/delete; deletions living only in "
                       "memory; every memory/disk split) with, after every block, single pages from arbitrary cursors (limit 0-7, byte caps 0, 1, around "
                       "item sizes, 1000; prefixes of 1..n bytes incl. the 0xff carry; cursors = existing, deleted and random keys) and full iterations to "
                       "exhaustion with page sizes 1-7 followed by the reference listing by point lookups; plus the REST handlers chained by next-token "
                       "on a real ledger (flushed + in-memory state). Trivial = schedule and block lines; distinct = distinct (case prefix length, op) pairs")
    handler_replay = replay_ops is not None and any(o.startswith("h") for o in replay_ops)
    if not handler_replay:
        run_ = au_common.run_au(ctx, "c10", env, replay_ops)
        if run_ is None:
            return
        ctx.account(run_.ops, trivial=lambda op: op.split(" ", 1)[0] not in ("page", "iter", "full"),
                    kind_of=lambda op: " ".join(op.split()[:2]) if op.split(" ", 1)[0] in ("page", "iter", "full") else op.split()[0])
        au_common.compare(ctx, run_, is_page, "page differs from the sorted live list of the history (page rule: limit, byte cap with at least one item)",
                          "page / commit output differs from Model.AcctUpdates")
        stats = monitor_pages(ctx, run_) or {}
        ctx.cov["distribution"].update({k: v for k, v in stats.items()})
    if replay_ops is None or handler_replay:
        e = dict(env)
        if handler_replay:
            rp = os.path.join(ctx.work, "c10h.replay")
            open(rp, "w").write("\n".join(replay_ops) + "\n")
            e["VERIF_REPLAY"] = rp
        rc, out = ctx.go_test("./daemon/algod/api/server/v2/test", "TestVerifC10H", env=e, timeout=3000)
        opsf, implf = os.path.join(ctx.work, "c10h.ops"), os.path.join(ctx.work, "c10h.impl")
        if rc != 0 or not os.path.exists(opsf):
            ctx.tie_failures.append("handler harness TestVerifC10H failed to run (rc=%d): %s" % (rc, out[-600:]))
            return
        hops, himpl = ctx.read_lines(opsf), ctx.read_lines(implf)
        ctx.account(hops, kind_of=lambda op: op.split()[0])
        ctx.cov["distribution"].update(handler_monitor(ctx, hops, himpl))


def replay(ctx, path):
    common.std_replay(ctx, path, run)
