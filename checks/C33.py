"""C33 — assembler and disassembler round-trip.

Ties: F  TestVerifC34Facts regenerates lean/AlgoVerif/Gen/OpTable.lean (OpSpecs rows, built tables, field groups) and
         TestVerifC33Facts regenerates lean/AlgoVerif/Gen/AsmTable.lean (asm function of every row, deadening ops, pseudo-op
         dispatch, constants, positive-cost fields, the observed constant-definedness rule) on every run;
      C  TestVerifC33 feeds token-level programs (`prog`), bytecode (`code`) and free-form sources (`src`) to the real
         AssembleStringWithVersion / Disassemble / CheckSignature / CheckContract; the Lean driver c33 answers the same lines
         with Model.AsmFormat (asm = encode . parse, dis = print . decode, staticCheck) over the regenerated tables.
Monitors on the implementation alone (no model involved):
      M1 every program the real assembler produced (from a prog or src line): the real static check does not reject it for a
         reason other than run mode, Disassemble succeeds, assembling the disassembly gives the SAME bytes, and a second
         round gives the same text and bytes;
      M2 every bytecode that passes the real check and whose disassembly assembles: asm(dis(asm(dis p))) == asm(dis p)
         (text equality dis(asm(dis p)) == dis(p) does NOT hold for non-canonical p — `arg 1` comes back as arg_1 — and is
         compared with the model's prediction instead);
      M3 every token program the assembler accepts disassembles to exactly as many instructions as the source has (a stray
         byte, e.g. the zero left behind a too-wide branch placeholder, shows up as an extra `err`), and every varint branch
         immediate of an assembled program is the minimal encoding of its displacement;
      M4 no PANIC."""
import os, re
import common
import vf

PKG = "./data/transactions/logic"


def fields_of(res):
    head = res.split(" dis=", 1)[0]
    d = {}
    for t in head.split():
        if "=" in t:
            k, v = t.split("=", 1)
            d[k] = v
    if " dis=" in res:
        d["dis"] = res.split(" dis=", 1)[1]
    return d


def live_verdicts(chk, minv, hexprog):
    """verdicts of the modes whose environment admits the program's version (an app-call group requires v >= 2: a v0/v1
    program is rejected there by the version gate, which has nothing to do with the assembler)"""
    try:
        v = int(hexprog[:2], 16)
        mins = [int(x) for x in minv.split("/")]
    except ValueError:
        return chk.split("/")
    if v >= 128:
        return chk.split("/")
    return [c for c, m in zip(chk.split("/"), mins) if v >= m]


def monitor(op, res):
    if "PANIC" in res:
        return "the implementation panicked: " + res[:120]
    f = op.split(" ", 3)
    kind = f[0]
    d = fields_of(res)
    if kind == "code" and len(f) >= 4:
        origin = f[1]
        chk = d.get("chk", "")
        if origin == "asm":
            if "err" in live_verdicts(chk, f[2], f[3]):
                return "a program produced by the real assembler is rejected by the real static check (chk=%s)" % chk
            if "ok" not in chk.split("/"):
                return None     # uses opcodes of both run modes: the check stops at the mode error in either mode
            if d.get("dis") == "ERR":
                return "a program produced by the real assembler does not disassemble"
            if d.get("re") != "same":
                return "asm(dis(asm(src))) != asm(src): re-assembly gives %s" % str(d.get("re"))[:80]
            if d.get("fix") != "ok" or d.get("re2") != "same":
                return "second round trip of an assembled program changes it (fix=%s re2=%s)" % (d.get("fix"), d.get("re2"))
            if d.get("vmin") == "bad":
                return "an assembled program has a varint branch immediate that is not the minimal encoding of its displacement"
        else:
            if "re" in d and d["re"] != "ERR" and d.get("re2") != "same":
                return "asm(dis(asm(dis p))) != asm(dis p) for checked bytecode (re2=%s)" % d.get("re2")
        return None
    if kind == "prog" and "ops" in d:
        k, _, n = d["ops"].partition("/")
        if k != n:
            return ("the assembled bytes disassemble to %s instructions, the source has %s: a byte of the program is not accounted "
                    "for by a source instruction" % (k, n))
        return None
    if kind == "src":
        if d.get("asm") in (None, "ERR"):
            return None
        chk = d.get("chk", "")
        if "err" in live_verdicts(chk, "0/2", d["asm"]):
            return "a source the real assembler accepts assembles to a program the real static check rejects (chk=%s)" % chk
        if d.get("re") != "same":
            return "asm(dis(asm(src))) != asm(src) for an accepted source: re=%s" % str(d.get("re"))[:80]
        if d.get("fix") != "ok" or d.get("re2") != "same":
            return "second round trip of an assembled source changes it (fix=%s re2=%s)" % (d.get("fix"), d.get("re2"))
    return None


KNOWN_PSEUDO = {"kind": "explicit-const-index-with-pseudo-constants"}
_PSEUDO = re.compile(r"(^|[;\n])\s*(\S+:\s*)?(int|byte|addr|method)\s")
_EXPLICIT = re.compile(r"(^|[;\n])\s*(\S+:\s*)?(intc|bytec)\s+(0x[0-9a-fA-F]+|\d+)")


def known_shape(op, res, detail):
    """the recorded KNOWN finding: a source mixing int/byte/addr/method pseudo-op constants with an explicit intc/bytec index
    assembles, but the constant-block optimiser removes or reorders the constants the index names, so re-assembling the
    disassembly stops at `intc N is not defined`"""
    if not op.startswith("src ") or " re=ERR" not in res or "is not defined" not in (detail or ""):
        return False
    try:
        text = bytes.fromhex(op.split()[2]).decode(errors="replace")
    except (ValueError, IndexError):
        return False
    text = "\n".join(l.split("//")[0] for l in text.splitlines())
    return bool(_PSEUDO.search(text)) and bool(_EXPLICIT.search(text))


def trivial(op):
    f = op.split()
    if f[0] == "prog":
        return len(f) <= 3
    if f[0] == "code":
        return len(f[-1]) <= 4
    return False


def kind_of(op):
    f = op.split(" ", 2)
    return f[0] + (" " + f[1] if f[0] == "code" and len(f) > 1 else "")


def refresh(ctx):
    """tie F: both fact extractors in one `go test` invocation (one link of the package's test binary)"""
    rc, out = ctx.go_test(PKG, "(TestVerifC34Facts|TestVerifC33Facts)")
    for name in ("OpTable.lean", "AsmTable.lean"):
        gen = os.path.join(ctx.work, name)
        if rc != 0 or not os.path.exists(gen):
            ctx.tie_failures.append("fact extraction for %s failed (rc=%d): %s" % (name, rc, out[-500:]))
            continue
        with vf.Lock("gen"):
            vf._overlay.write_if_changed(os.path.join(vf.LEAN, "AlgoVerif", "Gen", name), open(gen).read())


def run(ctx, replay_ops=None):
    ctx.overlay()
    ctx.assumptions += [
        "asm_dis_asm is proved for token-level sources without the pseudo-ops int/byte/addr/method (hence without mixing pseudo-op constants with an explicit intc/bytec N>=4, the recorded known finding) and under the constant-definedness rule 'any block seen' observed by the facts test (TokFacts.rule: the proof breaks if the tree reverts fix d0bedba4d8); list immediates have fewer than 2^64 items (SmallProg)",
        "assembled_checks is proved about the model's staticCheck, which mirrors eval.go check/checkStep and is tied to the real CheckSignature/CheckContract by the correspondence of every run (every code line), not by proof; run mode must allow all opcodes of the program, protocol version >= program version",
        "encode_total_canonical assumes the version rules of resolveLabels for the decoded program; that the static check implies them is stated (CheckedObeysRulesStatement), not proved",
        "text is compared at TOKEN level: lexing (comments, string/base64/base32 literals, octal/binary numerals), #pragma lines, macros, the pseudo-ops int/byte/addr/method with the constant-block optimiser, the type tracker and the off-curve salt are exercised by the implementation-only monitor (src lines) but not modelled or proved",
        "the model's tables are buildTables(OpSpecs) and the asm function names dumped from the current tree (tie F); a row with an asm function the model does not know makes the driver answer SKIP for lines using it",
        "decode treats a branch target that is not an instruction start as an error; the real Disassemble prints a label it never defines (such programs fail the real static check, and the harness compares disassemblies only for programs that pass it)",
        "static cost (pre-v4) is kept out of the way by a very large budget in the harness environment; version gates use the harness protocol (LogicSigVersion = LogicVersion)",
    ]
    refresh(ctx)
    proved = ctx.prove(["AlgoVerif.Props.C33"])
    okb, out = ctx.lean_build(["c33"])
    if not okb:
        raise RuntimeError("driver c33 does not build: " + out[-800:])
    env = {} if proved else {"VERIF_BUDGET_SCALE": "400" if ctx.tier == "quick" else "150"}
    ctx.cov["rule"] = ("prog: (sweep) every op name of every version 0..LogicVersion in chunks of 24 statements with well-formed immediates, "
                       "every field of every field group at the newest version and at random versions; (directed) forward/backward/self "
                       "branches, switch and match over filler of every size around the 1/2/3-byte varint and the int16 limits, pairs and "
                       "chains of mutually dependent varint branches, constant blocks in dead code; (cascades, v13+) forward and backward chains of k=2..6 varint "
                       "branches with crossing spans whose true distances sit exactly on the 63|64 and 8191|8192 limits (each link shrinks only after the next one: "
                       "k passes of findBranchSizes), padding swept -2..+2 around the limit per chain and per link, and random nests of 3..7 branches whose paddings "
                       "are tuned with a reference fixpoint layout so that true distances land on / next to a limit; (random) 1..50 statements from the "
                       "version's table, branch-heavy half of the time, 1 in 5 with token-level damage. src: the package's `nonsense` corpus "
                       "at every version >= its own, the repository's .teal files, hand-written pseudo-op/macro/pragma sources, random token "
                       "programs re-spelled with int/byte/addr/method, comments, macros and ';'. code raw: instruction-wise random bytecode "
                       "from the real per-version tables (non-minimal varints, explicit-index constant loads, valid and 1% misaligned "
                       "targets) and byte-level mutants of assembled programs, kept when the real check passes (1 in 5 otherwise). "
                       "Every assembled prog/src yields a derived `code asm` line. Trivial = empty programs; distinct = distinct op lines")
    known_ops = set()

    def mon_hit(op, res):
        return None if op in known_ops else monitor(op, res)

    # the monitor runs after the correspondence (below): the known shape is recognised from the side file (error text)
    # and the source text, which common.correspondence does not see
    res = common.correspondence(ctx, pkg=PKG, test="TestVerifC33", name="c33", drivers=[("c33", [], "model")],
                                trivial=trivial, kind_of=kind_of, env=env, model_is_spec=False, monitor=None, timeout=3000,
                                what="real assembler / disassembler / static check differs from Model.AsmFormat",
                                replay_ops=replay_ops)
    if res is None:
        return
    ops, impl, _ = res
    dist = ctx.cov["distribution"]
    monf = os.path.join(ctx.work, "c33.mon")
    mon = ctx.read_lines(monf) if os.path.exists(monf) else []
    mon += [""] * (len(ops) - len(mon))
    modelf = os.path.join(ctx.work, "c33.model.out")
    model = ctx.read_lines(modelf) if os.path.exists(modelf) else []
    skipped = sum(1 for o, m in zip(ops, model) if m == common.SKIP and not o.startswith("src"))
    dist["prog/code lines the model skipped"] = skipped
    hits = 0
    h = {"pkg": PKG, "test": "TestVerifC33", "name": "c33"}
    prev_known = None
    for op, r, m in zip(ops, impl, mon):
        if known_shape(op, r, m):
            known_ops.add(op)
            prev_known = fields_of(r).get("asm")
            ctx.violation("known: explicit constant index into pseudo-op constants does not survive the round trip",
                          {"kind": "monitor", "ops": [op], "impl_out": r, "detail": m, "harness": h}, found_input=True,
                          match_key=KNOWN_PSEUDO)
        elif prev_known and op.startswith("code asm ") and op.split()[-1] == prev_known:
            known_ops.add(op)       # the derived bytecode line of that source
        else:
            prev_known = None
    for op, r, m in zip(ops, impl, mon):
        d = fields_of(r)
        k = kind_of(op)
        if k == "prog":
            key = "prog asm=" + ("ERR" if d.get("asm") == "ERR" else "ok")
        elif k == "src":
            key = "src asm=" + ("ERR" if d.get("asm") == "ERR" else "ok")
        else:
            re_ = d.get("re")
            if re_ not in (None, "same", "ERR"):
                re_ = "canonicalised"
            key = "%s chk=%s re=%s" % (k, d.get("chk"), re_ if d.get("dis") != "ERR" else "dis-ERR")
        dist[key] = dist.get(key, 0) + 1
        hit = mon_hit(op, r)
        if hit:
            hits += 1
            if hits <= 4:
                ctx.violation("monitor: " + hit, {"kind": "monitor", "ops": [op], "impl_out": r, "detail": m, "harness": h},
                              found_input=True)
    if hits > 4:
        ctx.notes.append("%d further monitor hits suppressed" % (hits - 4))


def replay(ctx, path):
    common.std_replay(ctx, path, run)
