"""C29 — Group and block commitments bind their contents.

Ties: C ×2 — (g) the REAL BlockEvaluator.TransactionGroup / TestTransactionGroup on groups decoded from the op line, (b) the REAL
Block.PaysetCommit / ContentsMatchHeader and BlockHeader.PreCheck on blocks / headers decoded from the op line — against the
Lean model `Model.Commitments` instantiated with a Lean SHA-512/256, SHA-256, SHA-512 and the msgpack bytes of the op line:
verdicts AND digests (group id, the three payset commitments) must be byte-identical.  Plus the property monitor on the
implementation's own answers: every honest group / block / header accepted, every altered one rejected."""
import json
import common

GRP_GOOD = ("honest", "regroup", "single")
BLK_GOOD = ("honest", "recommit")

def _mut(tok):
    return tok.split(":", 1)[0]

def monitor(op, out):
    f = op.split()
    if len(f) < 2:
        return None
    kind, mut = f[0], _mut(f[1])
    o = out.split()
    if out.startswith("PANIC"):
        return "%s %s: the implementation panicked: %s" % (kind, f[1], out[:200])
    if kind == "grp":
        n = len(f) - 2
        verd = dict(x.split("=", 1) for x in o if "=" in x)
        tg, ttg = verd.get("tg"), verd.get("ttg")
        if mut in GRP_GOOD:
            if tg != "ok" or ttg != "ok":
                return "honest group of %d (%s) rejected: TransactionGroup=%s TestTransactionGroup=%s" % (n, f[1], tg, ttg)
        else:
            if tg == "ok" or ttg == "ok":
                return ("altered group accepted (%s, %d members): TransactionGroup=%s TestTransactionGroup=%s — the members still carry a group id "
                        "that is not the hash of the list of their ids" % (f[1], n, tg, ttg))
        return None
    if kind == "blk":
        if len(f) < 7 or not o:
            return None
        pc = f[3]
        cmh = o[0] == "cmh=true"
        n = len(f) - 7
        if mut in BLK_GOOD:
            if pc in ("1", "2") and not cmh:
                return "honest block (%s, %d transactions, protocol %s) does not match its own header commitments" % (f[1], n, f[2])
            if pc not in ("1", "2") and cmh:
                return "block of a protocol without payset commitment (%s) matches" % f[2]
        elif cmh:
            return ("altered block accepted by ContentsMatchHeader (%s, %d transactions, protocol %s flags pc=%s sha256=%s sha512=%s): the header "
                    "commitments are not the commitments of this payset" % (f[1], n, f[2], pc, f[4], f[5]))
        return None
    if kind in ("pre", "prex"):
        if mut == "honest":
            if out != "ok":
                return "header built by MakeBlock on its predecessor is refused by PreCheck: %s" % out
        elif out == "ok":
            return "PreCheck accepts a header whose link to the previous block was altered (%s, sha512 flag %s)" % (f[1], f[2])
        return None
    return None

def trivial(op):
    f = op.split()
    if f[0] == "grp":
        return len(f) <= 3          # a single transaction
    if f[0] == "blk":
        return len(f) <= 7          # empty payset
    return False

def kind_of(op):
    f = op.split()
    if f[0] == "blk" and len(f) > 5:
        return "blk:%s:pc%s%s%s" % (_mut(f[1]), f[3], f[4], f[5])
    if f[0] in ("pre", "prex") and len(f) > 2:
        return "%s:%s:s512=%s" % (f[0], _mut(f[1]), f[2])
    return "%s:%s" % (f[0], _mut(f[1]) if len(f) > 1 else "?")

def run(ctx, replay_ops=None, only=None):
    ctx.overlay()
    ctx.assumptions += [
        "hash functions are parameters of every theorem; binding is relative to `CollisionFreeOn H S` with S = the hash inputs occurring in the statement (the two TG / PF / BH pre-images, the TX / STIB pre-images of the compared members), stated as hypotheses",
        "canonical msgpack encoders of Transaction, SignedTxnInBlock, Payset, BlockHeader are injective (hypotheses; C40); for TxGroup this is PROVED for the concrete encoder (msgpackGroup_inj, via C40 enc_inj)",
        "Merkle and vector-commitment variants: hypotheses of C37 verify_sound for the two honest (padded) trees (every digest of the tree has a single pre-image, digests of the hash's size, no all-zero digest), ≤ 2^63 leaves",
        "everything BlockEvaluator.transaction does besides failing or not (balances, fees, leases, logic) is abstracted as `txOk`; the WellFormed pre-pass and the fee check after the group check are not modelled; PreCheck's checks after Branch512 are abstracted as `later`",
        "the Lean SHA-2 used by the driver is validated by the byte-identical digests of this very tie (and by C37's sha ops), not proved; no theorem depends on it",
        "the evaluator harness runs consensus vFuture (MaxTxGroupSize 16) on payment transactions; DecodeSignedTxn is run by the harness to supply the decoded transaction bytes",
    ]
    proved = ctx.prove(["AlgoVerif.Props.C29"])
    ok, out = ctx.lean_build(["c29"])
    if not ok:
        raise RuntimeError("driver does not build: " + out[-800:])
    env = {} if proved else {"VERIF_BUDGET_SCALE": "1000" if ctx.tier == "quick" else "300"}
    ctx.cov["rule"] = ("groups: random payment groups of 1..16 members (boundary sizes favoured) with the honest id assigned by the real TxGroup hashing, each followed by "
                       "2-4 derived member lists: drop / add / duplicate / swap / rotate / reverse a member, single-field mutation of one member (amount, note, receiver, "
                       "sender, fee, last-valid), one bit of one or all Group fields, Group zeroed, id computed without zeroing Group, id over the SORTED ids, "
                       "mutation followed by honest re-assignment, 17-18 members, ungrouped singles.  blocks: 13 consensus versions (no commitment type, flat, Merkle, "
                       "+SHA-256, +SHA-512, unknown) × paysets of 0..138 mixed transactions with apply data, each followed by 3-5 derived blocks: drop / add / duplicate / "
                       "swap / rotate an entry, single-field mutation of a transaction, its signature, its apply data or its genesis-id flag, one bit / zeroing of each of "
                       "the three header commitments, one stale commitment with the others recomputed, full recommit, genesis id stored in clear.  headers: MakeBlock successors "
                       "with Branch / Branch512 bit flips, zeroing, setting where not allowed, hash of a different predecessor, SHA-512 prefix in Branch, round ±1, unknown protocol. "
                       "trivial = single transaction / empty payset; distinct = distinct op lines")
    if only in (None, "c29g"):
        common.correspondence(ctx, pkg="./ledger/eval", test="TestVerifC29Eval", name="c29g", drivers=[("c29", [], "model")],
                              trivial=trivial, kind_of=kind_of, env=env, model_is_spec=True, monitor=monitor,
                              what="group verdict or group id differs from the model", replay_ops=replay_ops if only == "c29g" else None)
    if only in (None, "c29b"):
        common.correspondence(ctx, pkg="./data/bookkeeping", test="TestVerifC29", name="c29b", drivers=[("c29", [], "model")],
                              trivial=trivial, kind_of=kind_of, env=env, model_is_spec=True, monitor=monitor,
                              what="payset commitment / ContentsMatchHeader / PreCheck differs from the model", replay_ops=replay_ops if only == "c29b" else None)

def replay(ctx, path):
    r = json.load(open(path))
    ops = r.get("ops")
    name = (r.get("harness") or {}).get("name")
    if not ops or name not in ("c29g", "c29b"):
        if ops:
            name = "c29g" if ops[0].startswith("grp") else "c29b"
        else:
            return run(ctx)
    run(ctx, replay_ops=ops, only=name)
