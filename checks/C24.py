"""C24 — fees and proposer payouts stay within their limits.
Ties: T (go2lean → Gen/Fees.lean: CheckGroupFees, FeeForUsage, ComputeLoad, computeBonus, NextCongestionTax) + C (the real functions and the
real BlockEvaluator.proposerPayout / validateForPayouts on a mock ledger vs Spec.Fees and vs the regenerated definitions)."""
import common

def monitor(op, out):
    f = op.split()
    M = 1 << 64
    if f[0] == "cgf":
        paid, usage, minfee = int(f[1]), int(f[2]), int(f[3])
        need = -(-(minfee * usage) // 1000000)
        if out == "ok" and paid < need:
            return "group accepted with fees %d below the rounded-up requirement %d" % (paid, need)
        if out == "err" and paid >= need:
            return "group rejected although fees %d cover the requirement %d" % (paid, need)
    elif f[0] == "payout" and out not in ("err", "PANIC"):
        pct, fees, bonus, sink, mb = [int(x) for x in f[1:6]]
        mb = min(mb * (1 + (int(f[6]) if len(f) > 6 else 0)), (1 << 64) - 1)   # the sink's OWN minimum balance
        p = int(out)
        if p > fees * pct // 100 + bonus or p > max(sink - mb, 0):
            return "payout %d exceeds its bound" % p
    elif f[0] == "vpay" and out == "ok":
        claimed, pct, fees, bonus, sink, mb = [int(x) for x in f[1:7]]
        mb = min(mb * (1 + (int(f[7]) if len(f) > 7 else 0)), (1 << 64) - 1)
        if claimed > min(fees * pct // 100 + bonus, max(sink - mb, 0)):
            return "header payout %d above the allowed maximum was accepted" % claimed
    elif f[0] == "load" and out.isdigit() and int(out) > 1000000:
        return "load above 1e6"
    return None

def run(ctx, replay_ops=None):
    ctx.overlay()
    ctx.assumptions += ["operands < 2^64; Payouts.Percent ≤ 100 (NewPercent panics otherwise; true of every consensus version)",
                        "proposerPayout/validateForPayouts are modelled by hand as a composition of regenerated helpers (Props/C24Model.lean) and tied by running the real methods on a mock ledger; the sink account holds 0–4 assets in the harness (its minimum balance is proto.MinBalance·(1+assets)); apps/boxes on the sink are not exercised"]
    ok_gen, _ = ctx.go2lean(["Fees"])
    proved = ok_gen and ctx.prove(["AlgoVerif.Props.C24"])
    okb, out = ctx.lean_build(["fees"])
    if not okb:
        raise RuntimeError("spec driver does not build: " + out[-800:])
    drivers = [("fees", [], "spec")]
    if ok_gen:
        okg, _ = ctx.lean_build(["gen_fees"])
        if okg:
            drivers.append(("gen_fees", [], "gen"))
        else:
            ctx.tie_failures.append("generated definitions (Gen/Fees.lean) do not compile into the gen driver")
    env = {} if proved else {"VERIF_BUDGET_SCALE": "800" if ctx.tier == "quick" else "300"}
    ctx.cov["rule"] = ("fee checks aimed at the rounded-up requirement ±1; payouts with the sink at/around its minimum balance and claims at the bound ±1; "
                       "load, bonus-plan and congestion-tax operands boundary-biased; trivial = none")
    if replay_ops is None or any(o.split()[0] in ("cgf", "load", "payout", "vpay", "absent") for o in replay_ops):
        common.correspondence(ctx, pkg="./ledger/eval", test="TestVerifFees", name="fees", drivers=drivers, env=env, monitor=monitor,
                              what="fee/payout decision differs from the specification", replay_ops=replay_ops)
    if replay_ops is None or any(o.split()[0] in ("bonus", "ctax") for o in replay_ops):
        common.correspondence(ctx, pkg="./data/bookkeeping", test="TestVerifC24", name="c24", drivers=drivers[1:], env=env, model_is_spec=False,
                              what="bonus/congestion-tax arithmetic differs from the regenerated definitions (translator tie)", replay_ops=replay_ops)

def replay(ctx, path):
    common.std_replay(ctx, path, run)
