"""C03 — every committed block carries a certificate that authenticates it.
Proof: Props.C03 (ensure_cert_valid / ensure_cert_authenticates over PlayerM, every event list).  Tie C: PlayerDrive — the real
rootRouter + player against PlayerM, line by line.  Monitor on the REAL code: for every ensureAction the real router emits the
harness checks the structural conditions of Certificate.Authenticate on the real objects (step = cert, the real
claimsToAuthenticate(block), value(payload) = certificate proposal, distinct senders, every vote / equivocation pair one that
was delivered as verified for (round, period, cert, value) with that weight, Σ weight reaches the cert threshold of the protocol
in force, size bounds) and prints `c03=ok` / `c03=BAD:<reason>`."""
import common, player_common as pc


def run(ctx, replay_ops=None):
    ctx.overlay()
    ctx.assumptions += pc.ASSUME + [
        "ensure_cert_valid hypotheses: GoodSpec (a verified vote has positive weight, weight is a function of the sender per (round, period, step)) and RunOK "
        "(every vote delivered as verified / inside a verified bundle satisfies the per-vote predicate; a payload delivered as payloadVerified is a block of the "
        "player's round — proposal.validate checks entry.Round() == current and stale requests are cancelled; NOT enforced by the router itself)",
        "ensure_cert_authenticates additionally: a good vote is one unauthenticatedVote.verify accepts with its weight (C04 model), injective value ids, cert threshold of the protocol = P.certT",
        "signatures are absent in PlayerDrive: the monitor checks the structural conditions of Certificate.Authenticate against the set of votes the harness delivered as verified (C04 covers the cryptographic half)",
    ]
    proved = ctx.prove(["AlgoVerif.Props.C03"])
    ok, out = ctx.lean_build([pc.EXE])
    if not ok:
        raise RuntimeError("driver does not build: " + out[-800:])
    env = {} if proved else {"VERIF_BUDGET_SCALE": "600"}
    ctx.cov["rule"] = pc.RULE
    res = pc.drive(ctx, replay_ops, env=env)
    if res is None:
        return
    ops, impl, model = res
    pc.account(ctx, ops, impl)
    dist = ctx.cov["distribution"]

    # 1. monitor on the implementation alone.  Scope = the theorem's hypothesis RunOK: the round equality is claimed for payloads that were
    #    delivered as payloadVerified while the player was in the block's round (the generator also replays / shifts / pipelines
    #    validated payloads of other rounds; for those only step and value are re-checked here, the bundle by the harness).
    import re
    hits = 0
    n_ens = 0
    n_off = 0
    cur_round, off = None, set()
    for i, (o, a) in enumerate(zip(ops, impl)):
        f = o.split()
        if f and f[0] == "reset":
            cur_round, off = int(f[15]), set()
        elif f and f[0] == "pl" and f[1] == "1" and f[2] not in ("1", "2") and cur_round is not None and int(f[4]) != cur_round:
            off.add(f[3])
        ens = pc.ensure_actions(a)
        n_ens += len(ens)
        bad = "c03=BAD" in a or "bundle=BAD" in a or (ens and a.count("## c03=ok") != len(ens))
        # structural re-check in python, independent of the harness's verdict: step, round, value
        for e in ens:
            g = e.split()
            pay_v, pay_r = g[1].split(":")
            if pay_v in off:
                n_off += 1
            if g[4] != "2" or (g[2] != pay_r and pay_v not in off) or g[5] != pay_v:
                bad = True
        if bad:
            hits += 1
            if hits <= 3:
                j = pc.case_start(ops, i)
                ctx.violation("monitor: the real router emitted an ensure action whose certificate does not authenticate the payload, or a bundle that does not verify: "
                              + a.split(" | ")[0][:300] + " … " + " ".join(t for t in a.split(" ## ")[1:]),
                              {"kind": "monitor", "ops": ops[j:i + 1], "impl_out": a, "harness": pc.HZ}, found_input=True)
        m = re.search(r"\| R=(\d+) ", pc.live_part(a))
        if m:
            cur_round = int(m.group(1))
    dist["monitor:ensures_of_off_round_payloads(outside RunOK)"] = n_off
    dist["monitor:ensure_actions_checked"] = n_ens

    # 2. correspondence with PlayerM.  ensure_cert_valid does not pin the whole output line; a divergence is a failing input for C03
    #    when the ensure actions differ (a block committed, or not, against the proved model), otherwise it only breaks the tie.
    bad = ctx.compare(ops, impl, model, "model") if model else []
    seen = set()
    for (i, op, a, b) in bad:
        j = pc.case_start(ops, i)
        if j in seen:
            continue
        seen.add(j)
        if len(seen) > 4:
            break
        found = pc.ensure_actions(a) != pc.ensure_actions(b) or "c03=BAD" in a or "bundle=BAD" in a
        ctx.violation("real router/player differs from PlayerM at event %d of the case: impl `%s` vs model `%s`" % (i - j, a[:240], b[:240]),
                      {"kind": "correspondence", "driver": "model", "ops": ops[j:i + 1], "index": i, "impl_out": a, "model_out": b, "harness": pc.HZ},
                      found_input=found)
    if len(bad) > 4:
        ctx.notes.append("%d mismatching lines vs model in total" % len(bad))


def replay(ctx, path):
    common.std_replay(ctx, path, run)
