"""NetDrive — shared plumbing of the multi-node agreement harness (C01; reused by C02 / C05).

 * hooked_overlay(ctx): build/overlay-netdrive.json = the shared overlay + a copy of the CURRENT agreement/service.go in
   which Service.mainLoop calls the two hook variables of harness/agreement/zz_verif_netdrive_hook.go.  The copy is
   regenerated from the tree on every run; a missing anchor is a tie failure (reported, never skipped).
 * run_harness(ctx, env): runs TestVerifNetDrive and returns the paths of its four output files.
 * parse_trace / parse_log: readers for the abstract trace (c01abs grammar) and the concrete log.

Stand-alone:  python3 checks/netdrive.py   prints the path of the hooked overlay (for manual `go test -overlay …` runs).
"""
import json, os, re, sys

sys.path.insert(0, os.path.join(os.path.dirname(os.path.abspath(__file__)), "..", "lib"))
import overlay as _ov

ANCHOR_HANDLE = "status, a = router.submitTop(s.tracer, status, e)"
HOOK_HANDLE = ANCHOR_HANDLE + "\n\t\tif verifNDAfterHandle != nil {\n\t\t\tverifNDAfterHandle(s, &router, &status, e, a)\n\t\t}"
ANCHOR_START = "\tfor {\n\t\toutput <- a\n"
HOOK_START = "\tif verifNDAtStart != nil {\n\t\tverifNDAtStart(s, &router, &status, a, clock)\n\t}\n" + ANCHOR_START


def patch_service(txt):
    """returns (patched text | None, list of problems)"""
    m = re.search(r"func \(s \*Service\) mainLoop\(.*?\n}\n", txt, re.S)
    if not m:
        return None, ["func (s *Service) mainLoop not found in agreement/service.go"]
    body = m.group(0)
    probs = []
    for name, anchor in (("submitTop", ANCHOR_HANDLE), ("loop head", ANCHOR_START)):
        if body.count(anchor) != 1:
            probs.append("hook anchor %s (`%s`) found %d times in Service.mainLoop" % (name, anchor.strip().replace("\n", "\\n"), body.count(anchor)))
    for v in ("clock", "router", "status"):
        if not re.search(r"\bvar %s\b" % v, body):
            probs.append("mainLoop no longer declares `var %s`" % v)
    if probs:
        return None, probs
    body = body.replace(ANCHOR_START, HOOK_START).replace(ANCHOR_HANDLE, HOOK_HANDLE)
    return txt[:m.start()] + body + txt[m.end():], []


def hooked_overlay(ctx=None, base_path=None):
    """Returns (overlay path, problems).  With a ctx: sets ctx.ovl and appends problems to ctx.tie_failures."""
    repo, build = _ov.REPO, _ov.BUILD
    base_path = base_path or (ctx.ovl if ctx is not None and getattr(ctx, "ovl", None) else _ov.build_overlay())
    base = json.load(open(base_path))["Replace"]
    src = os.path.join(repo, "agreement", "service.go")
    patched, probs = patch_service(open(src).read())
    if patched is not None:
        dst = os.path.join(build, "ovl-netdrive", "agreement", "service.go")
        _ov.write_if_changed(dst, patched)
        base[src] = dst
    path = os.path.join(build, "overlay-netdrive.json")
    _ov.write_if_changed(path, json.dumps({"Replace": base}, indent=1, sort_keys=True))
    if ctx is not None:
        ctx.ovl = path
        for p in probs:
            ctx.tie_failures.append("NetDrive hook: " + p + " — the action stream of the real Service cannot be observed")
    return path, probs


FILES = ("netdrive.trace", "netdrive.log", "netdrive.sched", "netdrive.summary")


def run_harness(ctx, env=None, timeout=3000, test="TestVerifNetDrive"):
    """Runs the harness; returns (rc, out, {name: path})."""
    for f in FILES:
        try:
            os.remove(os.path.join(ctx.work, f))
        except FileNotFoundError:
            pass
    rc, out = ctx.go_test("./agreement", test, env=env or {}, timeout=timeout)
    return rc, out, {f: os.path.join(ctx.work, f) for f in FILES}


def read_lines(path):
    if not os.path.exists(path):
        return []
    with open(path, "r", errors="replace") as f:
        return f.read().splitlines()


def split_schedules(lines, marker):
    """{schedule id: [lines]} for files in which a schedule starts at a line `<marker> <id> …`."""
    res, cur = {}, None
    for l in lines:
        if l.startswith(marker + " "):
            cur = l.split()[1] if marker != "#" else (l.split()[2] if len(l.split()) > 2 and l.split()[1] == "schedule" else cur)
            res.setdefault(cur, [])
        if cur is not None:
            res[cur].append(l)
    return res


if __name__ == "__main__":
    p, probs = hooked_overlay(None)
    for x in probs:
        print("PROBLEM:", x, file=sys.stderr)
    print(p)
