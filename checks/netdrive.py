"""NetDrive — shared plumbing of the multi-node agreement harness (C01; reused by C02 / C05).

 * hooked_overlay(ctx): build/overlay-netdrive.json = the shared overlay + a copy of the CURRENT agreement/service.go in
   which Service.mainLoop calls the two hook variables of harness/agreement/zz_verif_netdrive_hook.go.  The copy is
   regenerated from the tree on every run; a missing anchor is a tie failure (reported, never skipped).
 * build_test_binary(ctx) → path of the compiled agreement test binary (go test -c with the hooked overlay);
   run_shard(ctx, exe, name, env, timeout, test=…) → {"name","dir","rc","out"}: one harness process, outputs in ctx.work/<name>/;
   run_range(ctx, exe, name, lo, hi, env, timeout): schedules lo..hi-1, resumed after a schedule that killed the process.
 * accept(ctx, shard) → [(schedule id, round, [(trace line, c01abs verdict)])];  schedules_of(shard) → {id: [header, decisions…]};
   logs_of(shard) → {id: [concrete log lines without the S<id> prefix]};  kv(line) → dict of the k=v fields of a log line.

Stand-alone:  python3 checks/netdrive.py   prints the path of the hooked overlay (for manual `go test -overlay …` runs).
"""
import json, os, re, shutil, sys

sys.path.insert(0, os.path.join(os.path.dirname(os.path.abspath(__file__)), "..", "lib"))
import overlay as _ov

ANCHOR_HANDLE = "status, a = router.submitTop(s.tracer, status, e)"
HOOK_HANDLE = ANCHOR_HANDLE + "\n\t\tif verifNDAfterHandle != nil {\n\t\t\tverifNDAfterHandle(s, &router, &status, e, a)\n\t\t}"
ANCHOR_START = "\tfor {\n\t\toutput <- a\n"
HOOK_START = "\tif verifNDAtStart != nil {\n\t\tverifNDAtStart(s, &router, &status, a, clock)\n\t}\n" + ANCHOR_START


def patch_service(txt):
    """returns (patched text | None, list of problems)"""
    m = re.search(r"func \(s \*Service\) mainLoop\(.*?\n}\n", txt, re.S)
    if not m:
        return None, ["func (s *Service) mainLoop not found in agreement/service.go"]
    body = m.group(0)
    probs = []
    for name, anchor in (("submitTop", ANCHOR_HANDLE), ("loop head", ANCHOR_START)):
        if body.count(anchor) != 1:
            probs.append("hook anchor %s (`%s`) found %d times in Service.mainLoop" % (name, anchor.strip().replace("\n", "\\n"), body.count(anchor)))
    for v in ("clock", "router", "status"):
        if not re.search(r"\bvar %s\b" % v, body):
            probs.append("mainLoop no longer declares `var %s`" % v)
    if probs:
        return None, probs
    body = body.replace(ANCHOR_START, HOOK_START).replace(ANCHOR_HANDLE, HOOK_HANDLE)
    return txt[:m.start()] + body + txt[m.end():], []


def hooked_overlay(ctx=None, base_path=None):
    """Returns (overlay path, problems).  With a ctx: sets ctx.ovl and appends problems to ctx.tie_failures."""
    repo, build = _ov.REPO, _ov.BUILD
    base_path = base_path or (ctx.ovl if ctx is not None and getattr(ctx, "ovl", None) else _ov.build_overlay())
    base = json.load(open(base_path))["Replace"]
    src = os.path.join(repo, "agreement", "service.go")
    patched, probs = patch_service(open(src).read())
    if patched is not None:
        dst = os.path.join(build, "ovl-netdrive", "agreement", "service.go")
        _ov.write_if_changed(dst, patched)
        base[src] = dst
    path = os.path.join(build, "overlay-netdrive.json")
    _ov.write_if_changed(path, json.dumps({"Replace": base}, indent=1, sort_keys=True))
    if ctx is not None:
        ctx.ovl = path
        for p in probs:
            ctx.tie_failures.append("NetDrive hook: " + p + " — the action stream of the real Service cannot be observed")
    return path, probs


FILES = ("netdrive.trace", "netdrive.log", "netdrive.sched", "netdrive.summary")


def read_lines(path):
    if not os.path.exists(path):
        return []
    with open(path, "r", errors="replace") as f:
        return f.read().splitlines()


# ----------------------------------------------------------------------------- running
def build_test_binary(ctx):
    exe = os.path.join(ctx.work, "agreement.test")
    rc, out = ctx.sh(["go", "test", "-c", "-overlay", ctx.ovl, "-tags", "verif", "-vet=off", "-o", exe, "./agreement"],
                     cwd=_ov.REPO, timeout=2400)
    if rc != 0 or not os.path.exists(exe):
        ctx.tie_failures.append("NetDrive harness does not build against the current tree: " + out[-800:])
        return None
    return exe


def run_shard(ctx, exe, name, env, timeout, test="TestVerifNetDrive"):
    """one harness process; its four output files land in <ctx.work>/<name>/.  env: VERIF_REPLAY=<sched file> | VERIF_ND_FROM /
    VERIF_ND_SCHEDULES (id range) | VERIF_ND_PROFILE, VERIF_ND_NODES, VERIF_ND_BYZ, VERIF_ND_STEPS, VERIF_ND_ROUNDS, VERIF_ND_NODOUBLE"""
    out_dir = os.path.join(ctx.work, name)
    shutil.rmtree(out_dir, ignore_errors=True)
    os.makedirs(out_dir)
    e = {"VERIF_OUT": out_dir, "VERIF_SEED": str(ctx.seed), "VERIF_TIER": ctx.tier}
    e.update(env)
    rc, out = ctx.sh([exe, "-test.run", "^%s$" % test, "-test.count=1", "-test.timeout", "%ds" % timeout],
                     cwd=os.path.join(_ov.REPO, "agreement"), env=e, timeout=timeout + 60)
    return {"name": name, "dir": out_dir, "rc": rc, "out": out}


def run_range(ctx, exe, name, lo, hi, env, timeout):
    """schedules lo..hi-1; a harness process that dies (panic inside a Service goroutine) is resumed after the schedule it died in"""
    shards, k = [], 0
    while lo < hi and k < 8:
        e = dict(env)
        e.update({"VERIF_ND_FROM": str(lo), "VERIF_ND_SCHEDULES": str(hi)})
        sh = run_shard(ctx, exe, "%s-%d" % (name, k) if k else name, e, timeout)
        shards.append(sh)
        if sh["rc"] == 0:
            break
        done = schedules_of(sh)
        lo = (max(done) + 1) if done else hi
        k += 1
    return shards


def accept(ctx, shard):
    """runs c01abs on the shard's trace; returns [(schedule id, round, [(line, verdict)])]"""
    tr = os.path.join(shard["dir"], "netdrive.trace")
    if not os.path.exists(tr):
        return []
    outp = os.path.join(shard["dir"], "trace.out")
    rc = ctx.driver("c01abs", [], tr, outp, timeout=3000)
    lines, verdicts = ctx.read_lines(tr), ctx.read_lines(outp)
    if rc != 0 or len(lines) != len(verdicts):
        ctx.tie_failures.append("acceptor c01abs failed on %s (rc=%d, %d lines, %d answers)" % (tr, rc, len(lines), len(verdicts)))
        return []
    hist, cur = [], None
    for l, v in zip(lines, verdicts):
        m = re.match(r"# schedule (\d+) round (\d+)", l)
        if m:
            cur = (int(m.group(1)), int(m.group(2)), [])
            hist.append(cur)
        elif cur is not None:
            cur[2].append((l, v))
    return hist


def schedules_of(shard):
    """{id: [header + decision lines]}"""
    res, cur = {}, None
    for l in read_lines(os.path.join(shard["dir"], "netdrive.sched")):
        if l.startswith("schedule "):
            cur = int(l.split()[1])
            res[cur] = []
        if cur is not None:
            res[cur].append(l)
    return res


def logs_of(shard):
    res = {}
    for l in read_lines(os.path.join(shard["dir"], "netdrive.log")):
        m = re.match(r"S(\d+) (.*)", l)
        if m:
            res.setdefault(int(m.group(1)), []).append(m.group(2))
    return res


def kv(line):
    return dict(x.split("=", 1) for x in line.split() if "=" in x)



if __name__ == "__main__":
    p, probs = hooked_overlay(None)
    for x in probs:
        print("PROBLEM:", x, file=sys.stderr)
    print(p)
