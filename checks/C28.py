"""C28 — only the current authorizer can authorize a transaction.

Tie C, two layers, one Lean model (Model.Authz, driver exe c28):
 * verify layer: the real verify.TxnGroup (package data/transactions/verify) on random signed groups with real Ed25519 /
   Falcon keys, real multisig addresses and TEAL programs.  The op line carries a SYMBOLIC description of every key,
   address, program, transaction and signature (ground truth recorded when the harness signed) plus the raw wire bytes;
   the executor uses only the bytes, the model only the symbols.
 * evaluator layer: the real BlockEvaluator.TransactionGroup with AuthAddr fields and RekeyTo (package ledger/eval).
Monitors (implementation alone): an ACCEPTED transaction has exactly one kind of authorization and it was really made
by its authorizer's key(s) over this very transaction / program; an accepted group's members were authorized by the
sender's current spending key and RekeyTo took effect as written; a group accepted through the verified-transaction
cache verifies from scratch.  Tie F: tools/c28facts regenerates the list of SignedTxn fields the cache lookup compares
(Gen/AuthzCacheKey.lean); Props/C28.cache_compares_all_fields is proved about it."""
import os, re
import common, vf

# ----------------------------------------------------------------------------- parsing the symbolic part of an op line

def parse_group(op):
    parts = op.split(" | ")
    hdr = dict(t.split("=", 1) for t in parts[0].split()[1:] if "=" in t)
    txs = []
    for p in parts[1:-1]:
        d = dict(t.split("=", 1) for t in p.split() if "=" in t)
        txs.append(d)
    return hdr, txs


def parse_msig(t):
    """'-' -> None ; 'v:thr:N' -> (v,thr,None) ; 'v:thr:[k/s;...]' -> (v,thr,[(k,s)])"""
    if t == "-":
        return None
    v, thr, body = t.split(":", 2)
    if body == "N":
        return int(v), int(thr), None
    inner = body[1:-1]
    subs = [tuple(x.split("/", 1)) for x in inner.split(";")] if inner else []
    return int(v), int(thr), subs


def parse_lsig(t):
    if t == "-":
        return None
    return dict(x.split("=", 1) for x in t.split(","))


def msig_problem(ms, msg, auth, what):
    """None if the multisig `ms` is a genuine >= threshold authorization of `auth` over `msg` (ground truth), else text."""
    v, thr, subs = ms
    if not subs:
        return "%s without subsigs accepted" % what
    genuine = 0
    for k, s in subs:
        if s == "-":
            continue
        if s != "s(%s~%s)" % (k, msg):
            return "%s accepted although the signature in the entry of key %s was not made by that key over %s (it is %s)" % (what, k, msg, s)
        genuine += 1
    if thr < 1 or genuine < thr:
        return "%s accepted with %d genuine signatures, threshold %d" % (what, genuine, thr)
    want = "M%d.%d.%s" % (v, thr, "+".join(k for k, _ in subs))
    if auth != want:
        return "%s accepted for authorizer %s, but version/threshold/keys hash to %s" % (what, auth, want)
    if v != 1:
        return "%s of version %d accepted" % (what, v)
    return None


def pq_problem(t, msg, auth, what):
    sc, salt, pk, sg = t.split(":", 3)
    if sg != "s(%s~%s)" % (pk, msg):
        return "%s accepted although its signature was not made by the key it carries over %s (it is %s)" % (what, msg, sg)
    if auth != "Q%s.%s.%s" % (sc, salt, pk):
        return "%s accepted for authorizer %s, but scheme/salt/key hash to Q%s.%s.%s" % (what, auth, sc, salt, pk)
    return None


def monitor(op, res):
    if not op.startswith("g "):
        return None
    if res.startswith("PANIC") or res.startswith("DIVERGE") or res.startswith("other"):
        return "verify.TxnGroup: " + res[:200]
    if res != "ok":
        return None
    try:
        hdr, txs = parse_group(op)
    except ValueError:
        return None
    if not txs:
        return "an empty group was accepted"
    for i, d in enumerate(txs):
        auth = d["snd"] if d["auth"] == "0" else d["auth"]
        T = "T" + d["t"]
        ls = parse_lsig(d["lsig"])
        kinds = []
        if d["sig"] != "-": kinds.append("sig")
        if d["msig"] != "-": kinds.append("msig")
        if ls is not None and ls["p"] != "-": kinds.append("lsig")
        if d["pq"] != "-": kinds.append("pq")
        pre = "txn %d accepted " % i
        if not kinds:
            if d["snd"] == "SP" and d["ty"] == "stpf":
                continue
            return pre + "without any authorization"
        if len(kinds) > 1:
            return pre + "with %s together" % "+".join(kinds)
        k = kinds[0]
        if k == "sig":
            if d["sig"] != "s(%s~%s)" % (auth, T):
                return pre + "with a signature that authorizer %s did not make over it (it is %s)" % (auth, d["sig"])
        elif k == "msig":
            p = msig_problem(parse_msig(d["msig"]), T, auth, "multisig")
            if p: return pre + ": " + p
        elif k == "pq":
            p = pq_problem(d["pq"], T, auth, "post-quantum proof")
            if p: return pre + ": " + p
        else:
            if ls["ev"] != "p":
                return pre + "although its program does not approve (%s)" % ls["ev"]
            if ls["tpl"] in ("reject", "err", "badver"):
                return pre + "although its program is the %s template" % ls["tpl"]
            prog = ls["p"]
            dk = [x for x in ("sig", "msig", "lmsig", "pq") if ls[x] != "-"]
            if not dk:
                if auth != "P" + prog:
                    return pre + "with an undelegated program that does not hash to the authorizer %s" % auth
            elif len(dk) > 1:
                return pre + "with delegations %s together" % "+".join(dk)
            elif dk[0] == "sig":
                if ls["sig"] != "s(%s~G%s)" % (auth, prog):
                    return pre + "with a delegation the authorizer %s did not sign over this program (it is %s)" % (auth, ls["sig"])
            elif dk[0] == "msig":
                p = msig_problem(parse_msig(ls["msig"]), "G" + prog, auth, "delegating multisig")
                if p: return pre + ": " + p
            elif dk[0] == "lmsig":
                p = msig_problem(parse_msig(ls["lmsig"]), "MP(%s~%s)" % (auth, prog), auth, "delegating multisig (LMsig)")
                if p: return pre + ": " + p
            else:
                p = pq_problem(ls["pq"], "QP(%s~%s)" % (auth, prog), auth, "delegating post-quantum proof")
                if p: return pre + ": " + p
    return None


def kind_of(op):
    if not op.startswith("g "):
        return op.split(" ", 1)[0]
    try:
        hdr, txs = parse_group(op)
    except ValueError:
        return "g:unparsed"
    if len(txs) != 1:
        return "g:group-of-%s" % ("0" if not txs else "2-4" if len(txs) <= 4 else "5+")
    d = txs[0]
    ls = parse_lsig(d["lsig"])
    kinds = [k for k, present in (("sig", d["sig"] != "-"), ("msig", d["msig"] != "-"), ("lsig", ls is not None and ls["p"] != "-"), ("pq", d["pq"] != "-")) if present]
    return "g:1:" + ("+".join(kinds) or "none") + (":rekeyed" if d["auth"] != "0" else "")


def trivial(op):
    return op.startswith("g ") and " n=0 " in op


# ----------------------------------------------------------------------------- evaluator layer

def case_of(ops, i):
    j = i
    while j > 0 and not ops[j].startswith("reset"):
        j -= 1
    return ops[j:i + 1]


def eval_monitor(ops, impl):
    """(index, message) of the first accepted group that the property forbids, judged from the implementation's outputs alone."""
    auth = {}
    for i, (o, a) in enumerate(zip(ops, impl)):
        f = o.split()
        if f[0] == "reset":
            auth = {}
            continue
        if f[0] != "grp":
            continue
        if a.startswith("PANIC") or a.startswith("rej other"):
            return i, "evaluator: " + a[:200]
        if not a.startswith("ok"):
            continue
        tmp = dict(auth)
        for j, t in enumerate(f[1:]):
            snd, au, rk = t.split(":")
            cur = tmp.get(snd, "0")
            want = snd if cur == "0" else cur
            eff = snd if au == "0" else au
            if eff != want:
                return i, "member %d of an accepted group was authorized by %s while %s's spending key is %s" % (j, eff, snd, want)
            if rk != "0":
                tmp[snd] = "0" if rk == snd else rk
        after = a.split()[1:]
        for j, t in enumerate(f[1:]):
            snd = t.split(":")[0]
            if j < len(after) and after[j] != tmp.get(snd, "0"):
                return i, "after the group %s's AuthAddr is %s, RekeyTo says %s" % (snd, after[j], tmp.get(snd, "0"))
        auth = tmp
    return None


def eval_layer(ctx, env, replay_ops):
    e = dict(env)
    name = "c28eval"
    if replay_ops is not None:
        rp = os.path.join(ctx.work, name + ".replay")
        open(rp, "w").write("\n".join(replay_ops) + "\n")
        e["VERIF_REPLAY"] = rp
    rc, out = ctx.go_test("./ledger/eval", "TestVerifC28Eval", env=e, timeout=1700)
    opsf, implf = os.path.join(ctx.work, name + ".ops"), os.path.join(ctx.work, name + ".impl")
    if rc != 0 or not os.path.exists(opsf):
        ctx.tie_failures.append("harness ./ledger/eval TestVerifC28Eval failed to run (rc=%d): %s" % (rc, out[-600:]))
        return
    ops, impl = ctx.read_lines(opsf), ctx.read_lines(implf)
    ctx.account(ops, trivial=lambda o: not o.startswith("grp"), kind_of=lambda o: "eval:" + o.split(" ", 1)[0] + (":rekey" if re.search(r":[ax]\d( |$)", o) else ""))
    mf = os.path.join(ctx.work, name + ".model.out")
    if ctx.driver("c28", [], opsf, mf) != 0:
        ctx.tie_failures.append("driver c28 failed on the evaluator ops")
        return
    model = ctx.read_lines(mf)
    hit = eval_monitor(ops, impl)
    if hit:
        i, msg = hit
        ctx.violation("monitor (evaluator): " + msg, {"kind": "monitor", "layer": "eval", "ops": case_of(ops, i), "impl_out": impl[i]}, found_input=True)
    bad = ctx.compare(ops, impl, model, "model")
    for (i, op, a, b) in bad[:3]:
        ctx.violation("evaluator accepts/rejects differently from the proved model (authorizer vs. AuthAddr, rekey)",
                      {"kind": "correspondence", "layer": "eval", "ops": case_of(ops, i), "index": i, "impl_out": a, "model_out": b}, found_input=True)
    d = ctx.cov["distribution"]
    for a in impl:
        k = "eval-result:" + " ".join(a.split()[:2]) if a.startswith("rej") else "eval-result:ok"
        d[k] = d.get(k, 0) + 1


# ----------------------------------------------------------------------------- verified-transaction cache path

def cache_case_of(ops, i):
    j = i
    while j > 0 and ops[j] != "c reset":
        j -= 1
    return ops[j:i + 1]


def cache_monitor(ops, impl):
    """Implementation alone: a group accepted THROUGH the cache (filtered out as already verified, or verified by
    PaysetGroups) verifies from scratch without any cache, and its authorization is genuine (ground truth)."""
    for i, (o, a) in enumerate(zip(ops, impl)):
        if not o.startswith("c via "):
            continue
        if a.startswith("PANIC") or " ; scratch " not in a:
            return i, "cache path: " + a[:200]
        via, scratch = a.split(" ; scratch ", 1)
        accepted = via == "hit" or via == "miss ok"
        if accepted and scratch != "ok":
            return i, "accepted through the verified-transaction cache (%s) but the very same bytes do not verify from scratch: %s" % (via, scratch)
        if accepted:
            hit = monitor("g " + o[len("c via "):], "ok")
            if hit:
                return i, "accepted through the verified-transaction cache (%s): %s" % (via, hit)
    return None


def cache_layer(ctx, env, replay_ops):
    e = dict(env)
    name = "c28cache"
    if replay_ops is not None:
        rp = os.path.join(ctx.work, name + ".replay")
        open(rp, "w").write("\n".join(replay_ops) + "\n")
        e["VERIF_REPLAY"] = rp
    rc, out = ctx.go_test("./data/transactions/verify", "TestVerifC28Cache", env=e, timeout=1700)
    opsf, implf = os.path.join(ctx.work, name + ".ops"), os.path.join(ctx.work, name + ".impl")
    if rc != 0 or not os.path.exists(opsf):
        ctx.tie_failures.append("harness ./data/transactions/verify TestVerifC28Cache failed to run (rc=%d): %s" % (rc, out[-600:]))
        return
    ops, impl = ctx.read_lines(opsf), ctx.read_lines(implf)
    def ck(o):
        f = o.split(" ", 3)
        if len(f) < 3 or f[1] == "reset":
            return "cache:reset"
        m = re.search(r" m=(\S+)", o)
        return "cache:%s:%s" % (f[1], (m.group(1).split(":")[0] if m else "?"))
    ctx.account(ops, trivial=lambda o: o == "c reset", kind_of=ck)
    mf = os.path.join(ctx.work, name + ".model.out")
    # the model compares ALL five fields (what cache_compares_all_fields / cache_hit_sound demand), whatever the source does
    if ctx.driver("c28", ["all-fields"], opsf, mf) != 0:
        ctx.tie_failures.append("driver c28 failed on the cache ops")
        return
    model = ctx.read_lines(mf)
    hit = cache_monitor(ops, impl)
    if hit:
        i, msg = hit
        ctx.violation("monitor (cache): " + msg, {"kind": "monitor", "layer": "cache", "ops": cache_case_of(ops, i), "impl_out": impl[i]}, found_input=True)
    bad = ctx.compare(ops, impl, model, "model")
    for (i, op, a, b) in bad[:3]:
        ctx.violation("the verified-transaction cache path decides differently from the proved model (hit / miss / verdict)",
                      {"kind": "correspondence", "layer": "cache", "ops": cache_case_of(ops, i), "index": i, "impl_out": a, "model_out": b}, found_input=True)
    d = ctx.cov["distribution"]
    for a in impl:
        k = "cache-result:" + (a.split(" ;")[0] if a.startswith(("hit", "miss")) else " ".join(a.split()[:2]))
        k = " ".join(k.split()[:3])
        d[k] = d.get(k, 0) + 1


def cache_facts(ctx):
    """Tie F: regenerate Gen/AuthzCacheKey.lean (fields the cache lookup reads) from the current source with go/ast."""
    out = os.path.join(vf.LEAN, "AlgoVerif", "Gen", "AuthzCacheKey.lean")
    rc, txt = ctx.go_run_tool("c28facts", ["-repo", vf.REPO, "-out", out])
    if rc != 0:
        ctx.tie_failures.append("c28facts could not extract the fields compared by GetUnverifiedTransactionGroups: " + txt.strip()[-300:])
        return
    m = re.search(r"compared=(\S*)", txt)
    ctx.cov["distribution"]["fact:cache-compared-fields=" + (m.group(1) if m else "?")] = 1
    ctx.trusted.append("tools/c28facts (go/ast: SignedTxn fields selected in GetUnverifiedTransactionGroups and the SignedTxn methods it calls)")


# ----------------------------------------------------------------------------- anchors (syntactic facts the model takes from the code)

def anchors(ctx):
    def src(p):
        try:
            return open(os.path.join(vf.REPO, p)).read()
        except OSError as ex:
            ctx.tie_failures.append("anchor %s unreadable: %s" % (p, ex))
            return ""
    st = src("data/transactions/signedtxn.go")
    m = re.search(r"func \(s SignedTxn\) Authorizer\(\) basics\.Address \{(.*?)\n\}", st, re.S)
    body = re.sub(r"\s+", " ", m.group(1)).strip() if m else None
    if body != "if s.AuthAddr.IsZero() { return s.Txn.Sender } return s.AuthAddr":
        ctx.tie_failures.append("SignedTxn.Authorizer no longer has the modelled body (Model.Authz.authorizer): %r" % (body,))
    tx = src("data/transactions/verify/txn.go")
    for needle in ("batch.EnqueueSignature(crypto.SignatureVerifier(s.Authorizer()), s.Txn, s.Sig)",
                   "crypto.MultisigBatchPrep(s.Txn, crypto.Digest(s.Authorizer()), s.Msig, batch)",
                   "s.PQsig.Verify(groupCtx.consensusParams, s.Txn, s.Authorizer())"):
        if needle not in tx:
            ctx.tie_failures.append("verify/txn.go: the call the model transcribes is gone: " + needle)


def run(ctx, replay_ops=None):
    ctx.overlay()
    ctx.assumptions += [
        "cryptography is ideal in the TIE: a signature verifies iff it is byte-for-byte the signature the harness made with that key over those bytes; SHA-512/256 addresses collide only when their preimages are equal (the harness derives addresses itself with Go's crypto/sha512)",
        "the THEOREMS hold for every interpretation of the signature / hash / TEAL parameters; the tamper theorems assume SigBinds, SigUnique, MsigAddrInj, ProgAddrInj as explicit hypotheses",
        "oracle inputs taken from the real code because they are outside this property: Transaction.WellFormed, transactions.CheckTxnGroup, logic.CheckSignature / EvalSignatureFull (program approves), the heartbeat one-time signature, consensus parameters",
        "verified-transaction cache: bucket rotation / eviction and pinning are not modelled (a family never fills a bucket); equal txids mean equal transaction bodies",
        "the batch verifier accepts iff every enqueued signature verifies (both Ed25519 batch implementations are run on every case and must agree)",
    ]
    anchors(ctx)
    cache_facts(ctx)
    proved = ctx.prove(["AlgoVerif.Props.C28"])
    ok, out = ctx.lean_build(["c28"])
    if not ok:
        raise RuntimeError("driver c28 does not build: " + out[-800:])
    env = {}
    for var, f in (("VERIF_C28_CORPUS", "verify.ops"), ("VERIF_C28_EVAL_CORPUS", "eval.ops"), ("VERIF_C28_CACHE_CORPUS", "cache.ops")):
        p = os.path.join(vf.VERIF, "corpus", "C28", f)
        if os.path.exists(p):
            env[var] = p
    if not proved:
        env["VERIF_BUDGET_SCALE"] = "800" if ctx.tier == "quick" else "200"
    ctx.cov["rule"] = ("verify layer: one op = one signed transaction group (size 0-16; 72% singletons) over 8 protocol versions; accounts: plain key, multisig "
                       "(1-5 or 250-255 members, threshold 0..n+1, versions 0-2, duplicate keys, thr-1/thr/thr+1/all/no signers), contract and delegated logic sigs "
                       "(by sig, Msig, LMsig, Falcon; approving / rejecting / erring / argument-dependent / too-new / bad-version / oversized programs), Falcon accounts, the "
                       "state-proof sender, heartbeats; senders plain, rekeyed (AuthAddr right / wrong / = sender); 45% of the groups get 1-2 changes after signing "
                       "(transaction fields, signature bits, subsig edits, program/args, delegation, second kind attached, AuthAddr) and 12% a byte-level change of the wire "
                       "encoding; cache path: families of 2-5 SignedTxn variants with the same transaction bodies (same txids) but another AuthAddr / Sig / subsig set / "
                       "LogicSig args, delegation or program / PQ fields, one verified into a shared VerifiedTransactionCache, the others presented through "
                       "GetUnverifiedTransactionGroups + PaysetGroups; evaluator layer: sequences of payment groups with AuthAddr fields and RekeyTo over 6 accounts, 70% rightly authorized; "
                       "trivial = the empty group / non-group lines; distinct = distinct op lines")
    vops = eops = cops = None
    if replay_ops is not None:
        vops = [o for o in replay_ops if o.startswith("g ")] or None
        cops = [o for o in replay_ops if o.startswith("c ")] or None
        eops = [o for o in replay_ops if not o.startswith(("g ", "c "))] or None
    if replay_ops is None or vops:
        res = common.correspondence(ctx, pkg="./data/transactions/verify", test="TestVerifC28", name="c28", drivers=[("c28", [], "model")],
                                    trivial=trivial, kind_of=kind_of, env=env, timeout=3300 if ctx.tier == "thorough" else 1500,
                                    model_is_spec=True, monitor=monitor,
                                    what="verify.TxnGroup verdict differs from the proved model (Model.Authz)", replay_ops=vops)
        if res:
            ops, impl, _ = res
            d = ctx.cov["distribution"]
            for op, a in zip(ops, impl):
                k = "result:" + (" ".join(a.split()[:2]) + " " + a.split()[3] if a.startswith("rej") and len(a.split()) > 3 else a.split()[0] if a else "")
                d[k] = d.get(k, 0) + 1
                m = re.search(r" m=(\S+)", op)
                if m:
                    for lab in m.group(1).split("+"):
                        d["changed:" + lab] = d.get("changed:" + lab, 0) + 1
                m = re.search(r"^g proto=(\S+)", op)
                if m:
                    d["proto:" + m.group(1)] = d.get("proto:" + m.group(1), 0) + 1
    if replay_ops is None or cops:
        cache_layer(ctx, env, cops)
    if replay_ops is None or eops:
        eval_layer(ctx, env, eops)


def replay(ctx, path):
    common.std_replay(ctx, path, run)
