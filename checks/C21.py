"""C21 — accounts never end a transaction group below minimum balance.
Tie T (Gen.Fees.MinBalance regenerated from data/basics/userBalance.go) + C (shared LedgerCore harness, profile c21) + monitor on
the implementation's outputs alone: after every accepted group every account whose record changed, other than fee sink, rewards
pool and state-proof sender, is all-zero or holds (with pending rewards) at least MinBalance·(1 + the number of assets it holds / counts)."""
import common, lcore


def min_balance(mb, total_assets):
    a = mb * total_assets
    if a >= lcore.M64:
        a = lcore.M64 - 1
    s = mb + a
    return s if s < lcore.M64 else lcore.M64 - 1


def monitor(case):
    for idx, kind, op, out, st in lcore.walk(case):
        if kind == "group" and st["cls"] == "ok":
            prev, cur = st["prev"], st["cur"]
            for a, rec in cur.acct.items():
                if a in (st["sink"], st["pool"], st["sp"]):
                    continue
                if prev.acct.get(a) == rec:
                    continue
                if lcore.acct_zero(rec):
                    continue
                nh = sum(1 for (_, w) in cur.hold if w == a)      # the assets it really holds (= its TotalAssets counter on correct code, C22)
                need = min_balance(st["mb"], max(int(rec[5]), nh))
                have = lcore.bal_wp(rec, st["level"], st["unit"])
                if have < need:
                    return idx, "account %d was modified by an accepted group and holds %d < min balance %d (%s assets counted, %d held)" % (a, have, need, rec[5], nh)
        elif kind == "garbled":
            return idx, "unparseable harness output " + out[:120]
    return None


def run(ctx, replay_ops=None):
    lcore.run(ctx, "C21", "c21", "AlgoVerif.Props.C21", monitor,
              rule=("cases as in C18; profile c21 = payments whose amount sits at balance − fee − minBalance·(1+assets) and ±1, at minBalance and minBalance−1 to empty receivers (incl. the zero address "
                    "and the exempt state-proof sender / fee sink / rewards pool), close-outs, asset creations and opt-ins that raise the requirement of an account sitting exactly at it, "
                    "close-outs that lower it; a directed rewards-band stream (50% of c21 cases, 12% elsewhere): a genesis whose rewards level rises by thousands per round (large non-participating pool, small stake) with a funded NON-PARTICIPATING account (frozen rewards base; sometimes a second one made non-participating by keyreg in the block) that creates 10–13 assets (min balance ≥ 1 reward unit) and then, in every block, spends so that its post-balance is min − k for k ∈ {p+1, p, 1, 0/−1} where p = ⌊balance/RewardUnit⌋·(level − base) is what a status-blind rewards formula would add; the same band for a participating account with a stale base; evaluations = groups tried; distinct = distinct non-empty group op lines"),
              replay_ops=replay_ops,
              extra_assumptions=["application and box counters of accounts are 0 in this model, so MinBalance reduces to MinBalance·(1+TotalAssets) (minbalance_formula); the full eight-term formula is the regenerated Gen.Fees.MinBalance"])


def replay(ctx, path):
    common.std_replay(ctx, path, run)
