"""C18, block level — property monitor on the implementation's outputs alone (harness harness/ledger/zz_verif_c18b_test.go,
TestVerifC18Block, driver `c18b`, theorems Props.C18Block).

`monitor(op, out) -> None | str` is evaluated line by line, in order, on the lines the REAL ledger / evaluator produced:

  block line   the sum over ALL accounts of balance + pending rewards is the same at the previous level before the block and
               at the block's level right after StartEvaluator (the rewards withdrawal); the pool debit equals
               RewardUnits() · (level step); RewardUnits() equals Σ ⌊balance/unit⌋ over the participating accounts of the
               ledger (re-computed here from the account tokens: stale units are seen); the sum equals the one the previous
               block of the history ended with; StartEvaluator did not fail
  group line   the sum at the block's level is unchanged by the group, accepted or not (needs the block line before it)
  gen line     GenerateBlock of a block built from accepted groups did not fail
  end line     Validate + AddValidatedBlock accepted the block; the sum over the ledger at the new round equals the sum before
               the block (special accounts included) and AccountTotals.All(); the fee-sink debit and the proposer credit of
               endOfBlock both equal the header's ProposerPayout (0 when the fee sink proposes); the sums are re-computed
               here from the account tokens

`run_extra(ctx, replay_ops=None)` runs the whole tie (harness, driver, line-by-line correspondence with Model.BlockMoney, this
monitor with case-prefix replays) for a check that wants to call it directly."""
import os, re

M64 = 1 << 64
HZ = {"pkg": "./ledger", "test": "TestVerifC18Block", "name": "c18b"}
_A = re.compile(r"^A(\d+)=(.*)$")

_st = {"level": None, "unit": None, "sum": None, "rnd": None, "sink": "7"}


def _kv(s):
    d = {}
    for tok in s.split():
        k, e, v = tok.partition("=")
        if e and k.isalpha():
            d[k] = v
    return d


def _accts(s):
    r = {}
    for tok in s.split():
        m = _A.match(tok)
        if m:
            r[int(m.group(1))] = m.group(2).split(",")
    return r


def _wp(a, level, unit):
    st, bal, base = int(a[0]), int(a[1]), int(a[2])
    if st == 2:
        return bal
    return bal + (bal // unit) * (level - base)


def _money(accts, level, unit):
    return sum(_wp(a, level, unit) for a in accts.values())


def _units(accts, unit):
    return sum(int(a[1]) // unit for a in accts.values() if int(a[0]) != 2)


def reset():
    _st.update(level=None, unit=None, sum=None, rnd=None)


def monitor(op, out):
    if op.startswith("reset"):
        reset()
        return None
    if out.startswith("PANIC"):
        return "the implementation panicked: " + out[:160]
    if op.startswith("block"):
        reset()
        if not out.startswith("ok "):
            return "StartEvaluator failed on top of a ledger built from accepted blocks: " + out[:200]
        p, r = _kv(op), _kv(out.split(" | ")[0])
        level, plevel, unit = int(p["level"]), int(p["plevel"]), max(1, int(p["unit"]))
        pre_accts = _accts(op)
        cur_accts = _accts(out.split(" | ", 1)[1]) if " | " in out else {}
        pre, post, debit, units, dl = int(r["pre"]), int(r["post"]), int(r["debit"]), int(r["units"]), int(r["dl"])
        mine_pre, mine_post = _money(pre_accts, plevel, unit), _money(cur_accts, level, unit)
        if mine_pre != pre or mine_post != post:
            return "harness arithmetic differs from the account tokens (pre %d vs %d, post %d vs %d)" % (pre, mine_pre, post, mine_post)
        if dl != level - plevel:
            return "level step %d but the header level went from %d to %d" % (dl, plevel, level)
        if post != pre:
            return ("the sum over all accounts of balance + pending rewards changed across StartEvaluator: %d at level %d before, "
                    "%d at level %d after the rewards withdrawal (pool debit %d, units %d, level step %d)" % (pre, plevel, post, level, debit, units, dl))
        if debit != units * dl:
            return "the rewards pool was debited %d but RewardUnits()·Δlevel = %d·%d = %d" % (debit, units, dl, units * dl)
        mu = _units(pre_accts, unit)
        if units != mu:
            return "prevTotals.RewardUnits() = %d but the participating accounts of the ledger hold %d units (stale totals)" % (units, mu)
        tot = [int(x) for x in p.get("tot", "0,0,0,0,0,0").split(",")]
        if tot[0] + tot[2] + tot[4] != pre:
            return "AccountTotals of the previous round sum to %d but the accounts hold %d" % (tot[0] + tot[2] + tot[4], pre)
        if r.get("chain", "-") != "-" and int(r["chain"]) != pre:
            return "the previous block ended with a total of %s, this block starts from %d" % (r["chain"], pre)
        _st.update(level=level, unit=unit, sum=post, rnd=p.get("rnd"), sink=p.get("sink", "7"))
        return None
    if op.startswith("group") or op == "dump":
        if " | " not in out and op != "dump":
            return "unparseable harness output " + out[:120]
        if _st["sum"] is None:
            return None
        dump = out.split(" | ", 1)[1] if " | " in out else out
        if "ERR" in dump:
            return "account lookup failed inside the evaluator: " + dump[:160]
        m = _money(_accts(dump), _st["level"], _st["unit"])
        if m != _st["sum"]:
            return "a transaction group (%s) changed the sum of all balances with pending rewards from %d to %d" % (out.split(" | ")[0], _st["sum"], m)
        return None
    if op.startswith("gen "):
        if not out.startswith("gen "):
            return "GenerateBlock / endOfBlock failed on a block built from accepted groups: " + out[:200]
        return None
    if op.startswith("end "):
        if not out.startswith("end "):
            return "Validate / AddValidatedBlock refused a block the same node generated: " + out[:200]
        p, r = _kv(op), _kv(out.split(" | ")[0])
        accts = _accts(out.split(" | ", 1)[1]) if " | " in out else {}
        pre, post, allm, level, unit = int(r["pre"]), int(r["post"]), int(r["all"]), int(r["level"]), max(1, int(r["unit"]))
        mine = _money(accts, level, unit)
        if mine != post:
            return "harness arithmetic differs from the account tokens (post %d vs %d)" % (post, mine)
        if post != pre:
            return ("the block changed the sum over all accounts of balance + pending rewards: %d before (previous level), %d after "
                    "(level %d); sink debit %s, proposer credit %s, payout %s" % (pre, post, level, r["sinkdebit"], r["prpcredit"], p.get("payout")))
        if allm != post:
            return "AccountTotals.All() = %d after the block but the accounts of the ledger hold %d" % (allm, post)
        payout, prp = int(p.get("payout", "0")), p.get("prp", "0")
        want = 0 if prp == _st.get("sink", "7") else payout      # the fee sink paying itself moves nothing
        if int(r["sinkdebit"]) != want or int(r["prpcredit"]) != want:
            return "header payout %d to proposer %s, but endOfBlock debited the fee sink %s and credited the proposer %s" % (payout, prp, r["sinkdebit"], r["prpcredit"])
        if _st["sum"] is not None and _st["sum"] != pre:
            return "the block started from %d but reports %d as its starting total" % (_st["sum"], pre)
        reset()
        return None
    return None


# ------------------------------------------------------------------------------------------------ whole tie
def run_extra(ctx, replay_ops=None, budget_scale=None):
    """harness + driver `c18b` + correspondence + monitor; violations carry the prefix of the case as replay ops"""
    ok, o = ctx.lean_build(["c18b"])
    if not ok:
        raise RuntimeError("driver c18b does not build: " + o[-800:])
    env = {}
    if budget_scale:
        env["VERIF_BUDGET_SCALE"] = str(budget_scale)
    if replay_ops is not None:
        rp = os.path.join(ctx.work, "c18b.replay")
        open(rp, "w").write("\n".join(replay_ops) + "\n")
        env["VERIF_REPLAY"] = rp
    rc, o = ctx.go_test(HZ["pkg"], HZ["test"], env=env, timeout=5400)
    opsf, implf = os.path.join(ctx.work, "c18b.ops"), os.path.join(ctx.work, "c18b.impl")
    if rc != 0 or not os.path.exists(opsf):
        ctx.tie_failures.append("harness %s %s failed to run (rc=%d): %s" % (HZ["pkg"], HZ["test"], rc, o[-600:]))
        return
    ops, impl = ctx.read_lines(opsf), ctx.read_lines(implf)
    mf = os.path.join(ctx.work, "c18b.model.out")
    drc = ctx.driver("c18b", [], opsf, mf)
    model = ctx.read_lines(mf) if drc == 0 else []
    if drc != 0:
        ctx.tie_failures.append("driver c18b failed rc=%d" % drc)
    dist = ctx.cov["distribution"]
    starts = [i for i, o_ in enumerate(ops) if o_.startswith("reset")] or [0]

    def prefix(i):
        s = max(x for x in starts if x <= i) if any(x <= i for x in starts) else 0
        return ops[s:i + 1]

    blocks = 0
    for o_, a in zip(ops, impl):
        k = "c18b:" + o_.split(" ", 1)[0]
        dist[k] = dist.get(k, 0) + 1
        if o_.startswith("block"):
            blocks += 1
            m = re.search(r" dl=(\d+)", a)
            kk = "c18b:level-moves" if m and m.group(1) != "0" else "c18b:level-still"
            dist[kk] = dist.get(kk, 0) + 1
        elif o_.startswith("end "):
            for key, tag in (("payout=0 ", "c18b:payout=0"), ("exp=- ", "c18b:no-expired"), ("abs=- ", "c18b:no-absent")):
                t = tag if key in o_ + " " else tag.replace("=0", ">0").replace("no-", "some-")
                dist[t] = dist.get(t, 0) + 1
    ctx.cov["evaluations"] += blocks
    ctx.cov["distinct_nontrivial"] += len(set(o_ for o_ in ops if o_.startswith("end ") and ("payout=0 " not in o_ or "exp=- abs=- " not in o_)))
    # monitor first (a hit is a concrete failing history)
    reset()
    hits = 0
    skip_until = -1
    for i, (o_, a) in enumerate(zip(ops, impl)):
        if i <= skip_until:
            continue
        hit = monitor(o_, a)
        if hit:
            hits += 1
            if hits <= 3:
                ctx.violation("monitor (block level): " + hit, {"kind": "monitor", "ops": prefix(i), "impl_out": a[:2000], "harness": HZ, "extra": "c18b"},
                              found_input=True)
            nxt = [x for x in starts if x > i]
            skip_until = (nxt[0] - 1) if nxt else len(ops)
            reset()
    dist["c18b:monitor-hits"] = hits
    # correspondence with Model.BlockMoney
    bad = ctx.compare(ops, impl, model, "model") if model else []
    seen = set()
    for (i, o_, a, b) in bad:
        s = max([x for x in starts if x <= i] or [0])
        if s in seen:
            continue
        seen.add(s)
        if len(seen) > 3:
            break
        crashed = a.startswith("PANIC") or a.startswith("DIVERGED") or "-error" in a.split(" ", 1)[0]
        ctx.violation("real ledger differs from Model.BlockMoney at op %d of the case (%s): impl `%s` vs model `%s`"
                      % (i - s, o_.split(" ", 1)[0], _first_diff(a, b)[0], _first_diff(a, b)[1]),
                      {"kind": "correspondence", "driver": "c18b", "ops": prefix(i), "index": i, "impl_out": a[:2000], "model_out": b[:2000],
                       "harness": HZ, "extra": "c18b"}, found_input=crashed or hits > 0)
    if bad:
        ctx.notes.append("c18b: %d mismatching lines vs Model.BlockMoney" % len(bad))


def _first_diff(a, b):
    ta, tb = a.split(), b.split()
    for x, y in zip(ta, tb):
        if x != y:
            return x[:120], y[:120]
    return a[:120], b[:120]
