"""C46 — wallet keys are deterministic, unique and password-protected (daemon/kmd/wallet/driver/sqlite.go).
Tie C: the real SQLiteWalletDriver / SQLiteWallet on scratch SQLite files (scrypt N=2) against Model.Wallet: every case is
a whole history (create, init, generate / import / delete / export / export-MDK / rename / check-password / fetch with right
and wrong passwords, restore from the exported MDK, regenerate); after EVERY operation the result, the wallet name and the
sorted ListKeys are compared.  Addresses are symbolic (d<k> = derived by the harness itself at index k, x<j> = unrelated).
Monitor (implementation alone): no address listed twice; a wrong password never succeeds and never changes name/ListKeys;
generated indices strictly increase, skip only addresses that were imported and are present; ImportKey never replaces a
listed address; the restored wallet regenerates every address the original generated (skipping only its own imports).
Concurrency (kmd serves its wallets from one process, one sqlite file each, no common lock): `probe` lines call the real
extractKeyWithIndex from 2-8 goroutines at once and compare every result with the harness's own derivation (the model's
derive is a pure function); `conc` lines let K wallets of one driver generate N keys each in parallel, then key #i must be
derive(MDK,i) and the sequentially restored wallet must return the same sequence; a short run of both under `go test -race`."""
import os
import common

PW_OPS = {"init": 1, "del": 2, "exp": 2, "mdk": 1, "ren": 2, "chk": 1, "restore": 1}


def _idx(sym):
    if sym.startswith("d") and sym[1:].isdigit():
        return int(sym[1:])
    return None


def monitor_concurrent(f, res):
    """probe / conc lines: the derivation is a pure function of (MDK, index) and key #i of a wallet without imports is
    derive(MDK, i), whatever other wallets of the same process are doing; the restored wallet returns the same sequence."""
    if res.startswith("bad-op"):
        return None
    if "PANIC" in res:
        return "panic during concurrent wallet use: " + res[:200]
    if f[0] == "probe":
        if res != "pure":
            return ("extractKeyWithIndex is not a pure function of (MDK, index) when called from %s goroutines at once: %s "
                    "(MDK id:index -> what came back)") % (f[1], res[:160])
        return None
    n = f[3]
    for i, tok in enumerate(res.split()):
        g, _, r = tok.partition("/")
        if g != "seq:" + n:
            return ("wallet %d of %s wallets generating concurrently: key sequence is not derive(MDK,1..%s): %s "
                    "(bad@<position>:<address actually stored there>)") % (i + 1, f[2], n, g)
        if r != "same":
            return "wallet %d restored from its exported MDK does not regenerate the same addresses: %s" % (i + 1, r)
    if len(res.split()) != int(f[2]):
        return "malformed harness result for %s" % " ".join(f)
    return None


def monitor(op, res):
    f, r = op.split(), res.split()
    if len(f) >= 4 and f[0] in ("probe", "conc"):
        return monitor_concurrent(f, res)
    if len(f) < 2 or f[0] != "case":
        return None
    toks = f[1:]
    if res.startswith("bad-case"):
        return None
    if len(r) != len(toks):
        return "malformed harness result (%d results for %d operations)" % (len(r), len(toks))
    pw = None            # right password of the current wallet
    prev = None          # previous snapshot "name/keys"
    wallet = 0
    gens, imported = [], set()       # current wallet: generated indices in order, successfully imported addresses
    history = []                     # (gens, imported) of earlier wallets of the same MDK
    for t, rt in zip(toks, r):
        if rt == "-":
            continue
        p = rt.split("/")
        if len(p) != 3:
            return "malformed result token %r" % rt
        out, snap = p[0], p[1] + "/" + p[2]
        if "PANIC" in rt:
            return "panic in the wallet code at %s: %s" % (t, rt[:200])
        keys = [] if p[2] in ("-", "?") else p[2].split(",")
        if len(set(keys)) != len(keys):
            return "after %s ListKeys shows an address twice: %s" % (t, p[2])
        a = t.split(":")
        kind = a[0]
        pkeys = [] if prev is None or prev.split("/")[1] in ("-", "?") else prev.split("/")[1].split(",")
        if kind == "new":
            pw = a[1]
            if out != "ok":
                return None  # could not create the scratch wallet: environment, reported by the correspondence
        elif kind in PW_OPS and a[PW_OPS[kind]] != pw:
            if not out.startswith("E:"):
                return "%s with a wrong password (right one is %s) returned %s instead of an error" % (t, pw, out)
            if prev is not None and snap != prev:
                return "%s with a wrong password changed the wallet: %s -> %s" % (t, prev, snap)
        elif kind == "gen":
            if not out.startswith("E:"):
                k = _idx(out)
                if k is None:
                    return "GenerateKey returned %s, which is not an address derived from the master derivation key" % out
                last = gens[-1] if gens else 0
                if k <= last:
                    return "GenerateKey returned index %d after index %d had been generated (not strictly increasing)" % (k, last)
                if out in pkeys:
                    return "GenerateKey returned %s, which the wallet already held" % out
                for i in range(last + 1, k):
                    s = "d%d" % i
                    if s not in pkeys:
                        return "GenerateKey skipped index %d (returned %d after %d) although %s was not in the wallet" % (i, k, last, s)
                    if s not in imported:
                        return "GenerateKey skipped index %d whose address was never imported into this wallet" % i
                gens.append(k)
        elif kind == "imp":
            if not out.startswith("E:"):
                if out != a[1]:
                    return "ImportKey of %s returned address %s" % (a[1], out)
                if a[1] in pkeys:
                    return "ImportKey of %s succeeded although the wallet already listed that address (an existing key was replaced)" % a[1]
                imported.add(a[1])
        elif kind == "exp":
            if out == "sk-wrong":
                return "%s returned a secret key that is not the key of that address" % t
        elif kind == "mdk":
            if out == "mdk-wrong":
                return "%s returned a master derivation key different from the wallet's" % t
        elif kind == "restore":
            if out == "mdk-wrong":
                return "%s: the exported master derivation key differs from the wallet's" % t
            if out == "ok":
                history.append((gens, imported))
                gens, imported, wallet = [], set(), wallet + 1
                pw = a[2]
        if kind == "del" and len(a) == 3 and a[2] == pw and out == "ok" and a[1] in keys:
            return "%s succeeded but the address is still listed" % t
        prev = snap
    # restored wallet regenerates the same addresses, skipping only what was imported into it
    if history and gens:
        top = gens[-1]
        for og, _ in history:
            for k in og:
                if k <= top and k not in gens and ("d%d" % k) not in imported:
                    return ("the restored wallet generated up to index %d but never regenerated d%d, which the original wallet "
                            "had generated (and which was not imported into the restored wallet)") % (top, k)
    return None


def trivial(op):
    if op.startswith("probe ") or op.startswith("conc "):
        return False
    return " gen" not in op


def kind_of(op):
    f = op.split()
    if f and f[0] in ("probe", "conc"):
        return f[0] + "-" + f[{"probe": 1, "conc": 2}[f[0]]] + "-goroutines"
    n = len(f) - 1
    return ("restore" if " restore:" in op else "single") + "-len-" + ("<10" if n < 10 else "<25" if n < 25 else "<50" if n < 50 else ">=50")


def race_pass(ctx, env):
    """A short concurrent run (derivation probe, 4 wallets generating at once, one sequential history) under the Go race
    detector: unsynchronised sharing between wallets is reported deterministically, without the interleaving having to
    happen.  The race runtime is part of the toolchain in the module cache (works offline); if the instrumented build is
    not possible the pass is recorded as not run (the un-instrumented concurrent phase below still runs)."""
    e = dict(env)
    rc, out = ctx.go_test("./daemon/kmd/wallet/driver", "TestVerifC46Race", env=e, timeout=1700, extra_args=["-race"])
    d = ctx.cov["distribution"]
    if "WARNING: DATA RACE" in out:
        d["race-detector"] = "DATA RACE"
        frames = [l.strip() for l in out.splitlines() if "/daemon/kmd/" in l and "zz_verif" not in l][:6]
        ctx.violation("go test -race: data race between wallets of one process (keys of different wallets / indices are derived through shared memory): "
                      + "; ".join(dict.fromkeys(frames)),
                      {"kind": "race", "ops": ["probe 4 50 1:5 2:17 3:123 4:7 1:42 2:9 3:1000 4:88", "conc 1 4 25"],
                       "report": out[:6000], "harness": {"pkg": "./daemon/kmd/wallet/driver", "test": "TestVerifC46Race", "args": ["-race"]}},
                      found_input=True)
    elif rc == 0:
        d["race-detector"] = "clean"
        ctx.trusted.append("Go race detector (go test -race) on the concurrent wallet run")
    elif any(t in out for t in ("-race requires", "-race is only supported", "race_linux_amd64.syso", "runtime/race: ")):
        d["race-detector"] = "unavailable"
        ctx.notes.append("go test -race not available here: " + out.strip()[-300:])
    else:
        d["race-detector"] = "failed"
        ctx.tie_failures.append("race pass (go test -race TestVerifC46Race) failed to run (rc=%d): %s" % (rc, out[-600:]))


def run(ctx, replay_ops=None):
    ctx.overlay()
    ctx.assumptions += [
        "key derivation is symbolic: derive = (index -> address) through HKDF-Expand(SHA-512/256, MDK, 'AlgorandDeterministicKey-<idx>') and the Ed25519 public key of that seed; "
        "Function.Injective derive is a hypothesis of skip_only_imported / restore_regenerates / generated_never_repeats (the harness re-derives every address itself and would show a collision as a symbol clash)",
        "password encryption is ideal: scrypt+secretbox decryption of the master key succeeds iff the password is the one given to CreateWallet; "
        "fastHashWithSalt (CheckPassword on an unlocked handle) is collision free; a nil master key fails with errDeriveKey",
        "SQLite executes each statement / the GenerateKey transaction atomically, so the observable states (also after a crash) are the states between operations; "
        "the crash itself is not injected, only the handle loss (FetchWallet) is",
        "wallets of one process are independent in the model (no shared state); this is exercised (concurrent derivation probe, concurrent GenerateKey on several wallets, go test -race), not proved; several handles on the SAME wallet file are not modelled (the code relies on _txlock=exclusive)",
        "multisig and signing operations of the wallet are out of the property's scope",
    ]
    proved = ctx.prove(["AlgoVerif.Props.C46"])
    ok, out = ctx.lean_build(["c46"])
    if not ok:
        raise RuntimeError("driver c46 does not build: " + out[-800:])
    env = {}
    if os.path.isdir("/dev/shm") and os.access("/dev/shm", os.W_OK):
        env["VERIF_SCRATCH"] = "/dev/shm"       # scratch SQLite files on tmpfs (3x faster); falls back to the test's temp dir
    if not proved:
        env["VERIF_BUDGET_SCALE"] = "600" if ctx.tier == "quick" else "200"
    ctx.cov["rule"] = ("one case = one wallet history on the REAL SQLite wallet: CreateWallet (password / name / MDK ids; MDK id 0 = blank, drawn by the wallet), "
                       "then 4-40 random operations (generate 30%, import 16% — half of them just ahead of the counter, a fifth at or below it, a fifth unrelated keys —, "
                       "delete 16%, export 10%, export-MDK 5%, rename 6% incl. own and bystander name, check-password, list, fetch/init, mnemonic) with 25-50% wrong passwords, "
                       "then in 85% of the cases restore from the exported MDK into a fresh directory and regenerate (a quarter of those with imports in between); "
                       "7 directed histories first; plus ALL sequences of length <= 2 (quick) / <= 4 (thorough) over a 10-operation alphabet "
                       "(gen, import d1/d2, delete d1/d2 right/wrong password, fetch, init, export wrong password, restore) each followed by gen+list; "
                       "result, wallet name and sorted ListKeys are compared after EVERY operation; trivial = case without GenerateKey; distinct = distinct case lines; "
                       "concurrency: 6 (quick) / 40 (thorough) `probe` lines = 2-8 goroutines x 4000/20000 rounds of extractKeyWithIndex over 2 (MDK,index) pairs each "
                       "(indices of different digit lengths, 10^k boundaries, 2^63-1), 3 / 12 `conc` lines = 2-16 wallets of ONE driver generating 1600 / 4000 keys in total "
                       "in parallel goroutines followed by sequential restore-and-compare, and a short probe+conc run under go test -race")
    race_pass(ctx, env)
    res = common.correspondence(ctx, pkg="./daemon/kmd/wallet/driver", test="TestVerifC46", name="c46", drivers=[("c46", [], "model")],
                                trivial=trivial, kind_of=kind_of, env=env, timeout=3400 if ctx.tier == "thorough" else 1500,
                                model_is_spec=False, monitor=monitor,
                                what="real SQLite wallet result / name / ListKeys differs from Model.Wallet", replay_ops=replay_ops)
    if res:
        ops, impl, _ = res
        d = ctx.cov["distribution"]
        nops = 0
        for op, r in zip(ops, impl):
            if not op.startswith("case "):
                f = op.split()
                if f[0] == "conc":
                    d["concurrent-GenerateKey-calls"] = d.get("concurrent-GenerateKey-calls", 0) + int(f[2]) * int(f[3])
                elif f[0] == "probe":
                    d["concurrent-derivation-calls"] = d.get("concurrent-derivation-calls", 0) + int(f[2]) * (len(f) - 3)
                continue
            toks = op.split()[1:]
            nops += len(toks)
            for t, rt in zip(toks, r.split()):
                k = t.split(":")[0]
                o = rt.split("/")[0]
                o = o if (o.startswith("E:") or o in ("ok", "sk", "mdk-same", "mdk-zero", "-")) else "addr"
                key = "op:%s=>%s" % (k, o)
                d[key] = d.get(key, 0) + 1
        d["wallet-operations-total"] = nops


def replay(ctx, path):
    common.std_replay(ctx, path, run)
