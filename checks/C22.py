"""C22 — asset supply is conserved and holder rules are enforced.
Tie C: shared LedgerCore harness, profile c22 (asset create / reconfigure / destroy, opt-in, transfer, clawback, freeze,
close-out among 6 accounts), vs Model.LedgerCore; monitor on the implementation's outputs alone, after EVERY group:
per existing asset Σ holdings = total and exactly its creator has the params; holdings of a destroyed asset are all 0;
the amount of a holding that stays frozen changes only under a clawback or a close-out to the creator; an accepted non-clawback transfer of a positive amount never leaves or enters a frozen holding (whatever its close-to) and needs both parties opted in; holdings appear only by
opt-in / creation and disappear only by close-out / destroy; the TotalAssets / TotalAssetParams counters equal the number of
holdings / params of the account."""
import common, lcore


def monitor(case):
    for idx, kind, op, out, st in lcore.walk(case):
        if kind == "garbled":
            return idx, "unparseable harness output " + out[:120]
        if kind not in ("group", "block"):
            continue
        d = st["cur"] if kind == "group" else st["start"]
        ids = {a for (a, _) in d.hold} | {a for (a, _) in d.params} | set(d.creator)
        for a in sorted(ids):
            hs = {w: h for (x, w), h in d.hold.items() if x == a}
            ps = {w: p for (x, w), p in d.params.items() if x == a}
            if a in d.creator:
                cr = d.creator[a]
                if list(map(str, ps.keys())) != [cr]:
                    return idx, "asset %d has creator %s but params at %s" % (a, cr, sorted(ps))
                total = int(ps[int(cr)][0])
                s = sum(int(h[0]) for h in hs.values())
                if s != total:
                    return idx, "asset %d: holdings sum to %d but the total supply is %d" % (a, s, total)
            else:
                if ps:
                    return idx, "asset %d has no creator but params at %s" % (a, sorted(ps))
                if any(int(h[0]) != 0 for h in hs.values()):
                    return idx, "destroyed asset %d still has non-zero holdings" % a
        for w, rec in d.acct.items():
            nh = sum(1 for (_, x) in d.hold if x == w)
            np_ = sum(1 for (_, x) in d.params if x == w)
            if int(rec[5]) != nh or int(rec[6]) != np_:
                return idx, "account %d counts %s holdings / %s created assets but has %d / %d" % (w, rec[5], rec[6], nh, np_)
        if kind != "group":
            continue
        prev, cur = st["prev"], st["cur"]
        g = lcore.parse_group(op)
        if st["cls"] != "ok":
            continue
        for key in set(prev.hold) | set(cur.hold):
            a, w = key
            axf = [t for t in g if t[0] == "axfer" and int(t[7]) == a]
            acf = [t for t in g if t[0] == "acfg"]
            frz = [t for t in g if t[0] == "afrz" and int(t[7]) == a]
            hp, hc = prev.hold.get(key), cur.hold.get(key)
            if hp is None and hc is not None:
                optin = any(int(t[1]) == w and int(t[8]) == 0 and int(t[9]) == 0 and int(t[10]) == w for t in axf)
                created = any(int(t[1]) == w and int(t[7]) == 0 for t in acf)
                if not (optin or created):
                    return idx, "account %d got a holding of asset %d without opting in" % (w, a)
            if hp is not None and hc is None:
                closed = any(int(t[1]) == w and int(t[11]) != 0 for t in axf)
                destroyed = any(int(t[7]) == a for t in acf)
                if not (closed or destroyed):
                    return idx, "holding of asset %d in account %d vanished without close-out or destroy" % (a, w)
                # exactly one asset transaction of this account on this asset in the group: the amount it closed is what it held
                mine = [t for t in axf if int(t[1]) == w or int(t[9]) == w or int(t[10]) == w or int(t[11]) == w]
                if hp[1] == "1" and int(hp[0]) > 0 and not frz and not destroyed and len(mine) == 1 and int(mine[0][1]) == w and int(mine[0][8]) == 0:
                    cr = prev.creator.get(a)
                    if mine[0][11] != cr:
                        return idx, "the frozen holding (%s units) of asset %d in account %d was closed out to %s, which is not the creator %s" % (hp[0], a, w, mine[0][11], cr)
            if hp is not None and hc is not None and hp[1] == "1" and hc[1] == "1" and hp[0] != hc[0] and not frz:
                cr = prev.creator.get(a)
                clawback = any(int(t[9]) != 0 for t in axf)
                close_cr = any(int(t[11]) != 0 and cr is not None and t[11] == cr and (int(t[1]) == w or str(w) == cr) for t in axf)
                if not (clawback or close_cr):
                    return idx, "the frozen holding of asset %d in account %d changed from %s to %s without clawback or close-out to the creator" % (a, w, hp[0], hc[0])
        # the holder rule per transaction: a non-clawback transfer of a positive amount never leaves or enters a frozen holding,
        # whatever its close-to; decided when no other member of the group touches the asset (then the dump before the group is
        # the state the transaction saw)
        for ti, t in enumerate(g):
            if t[0] != "axfer" or int(t[8]) == 0 or int(t[9]) != 0:
                continue
            a = int(t[7])
            if any(j != ti and u[0] in ("axfer", "afrz", "acfg") and (int(u[7]) == a or (u[0] == "acfg" and int(u[7]) == 0)) for j, u in enumerate(g)):
                continue
            hs, hr = prev.hold.get((a, int(t[1]))), prev.hold.get((a, int(t[10])))
            if hs is not None and hs[1] == "1":
                return idx, "an accepted non-clawback transfer moved %s units of asset %d out of the frozen holding of account %s (receiver %s, close-to %s)" % (t[8], a, t[1], t[10], t[11])
            if hr is not None and hr[1] == "1":
                return idx, "an accepted non-clawback transfer moved %s units of asset %d into the frozen holding of account %s (sender %s, close-to %s)" % (t[8], a, t[10], t[1], t[11])
            if hs is None or hr is None:
                return idx, "an accepted transfer of %s units of asset %d between accounts %s and %s of which one had not opted in" % (t[8], a, t[1], t[10])
        for a in set(prev.creator) - set(cur.creator):
            if not any(t[0] == "acfg" and int(t[7]) == a for t in g):
                return idx, "asset %d disappeared without a destroy transaction" % a
    return None


def run(ctx, replay_ops=None):
    lcore.run(ctx, "C22", "c22", "AlgoVerif.Props.C22", monitor,
              rule=("cases as in C18 (all assets are created by transactions; default-frozen assets, totals 0 .. 2^64−1); profile c22 = 50% asset transfers (opt-in, transfers of 0 / 1 / whole / "
                    "whole+1 / 2^64−1 between holders and to non-holders, clawback by the clawback address or by others, close-out to creator / other holder / self / non-holder), 22% asset config "
                    "(create with random manager/reserve/freeze/clawback incl. zero, reconfigure, destroy by manager or not, with holdings outstanding or not), 14% freeze; unknown and destroyed asset ids; a directed 'frozen + close-to' stream of single-transaction groups (16% of c22 groups, 3% elsewhere, plus a step of the asset life-cycle script): for a frozen holder H a transfer H→R of {0, 1, part, all, all+1} with close-to ∈ {creator, other holder, H, none}, sent by H or by the clawback address, to a frozen / unfrozen / not-opted-in receiver, the creator or H — legitimate (zero amount + close to creator, clawback) and forbidden shapes; a directed 'written earlier in this block, then written again by a group that FAILS' stream (18% of groups + forced after an asset created in the block): random orders of {asset reconfigure by the manager, transfer / freeze / clawback rewriting the creator's holding, payments and keyregs of accounts touched earlier} x {overspending or dead member at any position, wrong group hash, fee shortfall, none} x {asset created earlier in this block, holding touched earlier in this block, untouched} — parent/child record aliasing shows only there; "
                    "evaluations = groups tried; distinct = distinct non-empty group op lines"),
              replay_ops=replay_ops,
              extra_assumptions=["asset names, unit names, URLs and metadata hashes are always empty; MaxAssetsPerAccount = 0 (no limit) in the protocols exercised, the limit branch is modelled but only reached by the model",
                                 "exceptions of the code stated in the theorems: zero-amount transfers need no opt-in and ignore freeze; a close-out whose destination is the creator bypasses freeze on both sides; clawback ignores freeze"])


def replay(ctx, path):
    common.std_replay(ctx, path, run)
