"""C12 — reported account totals equal the sum over accounts.

Ties: T  go2lean regenerates Gen/Basics (overflow tracker), Gen/Rewards (WithUpdatedRewards) and Gen/Totals (AccountTotals.All /
         Participating / RewardUnits, AlgoCount.applyRewards) from the current tree; the theorems of Props/C12 are about those.
      C  harness/ledger/zz_verif_c12_test.go: real ledgers, real BlockEvaluator / CalculateTotals, synchronous tracker commits and
         reloads, vs driver `c12` (Model.Totals: calculateTotals replayed from the observed deltas, roundTotals plumbing, Sum).
Monitor (implementation alone): for every served round, Ledger.Totals(rnd) per status bucket (money, reward units) and its rewards
level equal (S) the sums over LookupAccount of the whole universe at that round and (S2) the sums recomputed from the raw balances /
rewards bases and the block header's rewards level; All() is the same in every served round; unserved rounds answer an error."""
import os, random
import common

PKG, TEST, NAME = "./ledger", "TestVerifC12", "c12"
HZ = {"pkg": PKG, "test": TEST, "name": NAME}


def parse_q(out):
    """-> (latest_round, latest_T, [(round, T|None, S, S2)]) or None when unparseable"""
    toks = out.split()
    if not toks or not toks[0].startswith("latest="):
        return None
    head = toks[0][len("latest="):]
    if ":" not in head:
        return None
    lr, lt = head.split(":", 1)
    rows = []
    for t in toks[1:]:
        r, _, v = t.partition("=")
        if not r.isdigit():
            return None
        if v == "err":
            rows.append((int(r), None, None, None))
            continue
        p = v.split("/")
        if len(p) != 3:
            return None
        rows.append((int(r), p[0], p[1], p[2]))
    return int(lr), lt, rows


def all_of(T):
    f = [int(x) for x in T.split(",")]
    return f[0] + f[2] + f[4]


def monitor_line(op, out):
    """property predicate on one implementation output line -> None | message"""
    k = op.split(" ", 1)[0]
    if out.startswith("PANIC"):
        return "the ledger panicked: " + out[:200]
    if k == "begin" and not out.startswith("r="):
        return "the evaluator of the next round could not be started: " + out[:200]
    if k == "end":
        if out.startswith("DIVERGED") or out.startswith("T="):
            return None
        return "a block built from accepted groups was rejected: " + out[:200]
    if k != "q":
        return None
    q = parse_q(out)
    if q is None:
        return "unparseable totals line " + out[:160]
    lr, lt, rows = q
    served = [(r, T, S, S2) for (r, T, S, S2) in rows if T is not None]
    if not served:
        return "no round is served"
    rs = [r for r, *_ in served]
    if rs != list(range(rs[0], rs[-1] + 1)):
        return "served rounds are not contiguous: %s" % rs
    for (r, T, S, S2) in rows:
        if T is None and rs[0] <= r <= rs[-1]:
            return "round %d inside the served range answers an error" % r
    names = ["online money", "online units", "offline money", "offline units", "non-participating money", "non-participating units", "rewards level"]
    for (r, T, S, S2) in served:
        for label, X in (("sum over LookupAccount", S), ("sum recomputed from raw balances and the header level", S2)):
            if X.startswith("bad") or X == "nohdr":
                return "round %d: %s could not be computed (%s)" % (r, label, X)
            if T != X:
                tf, xf = T.split(","), X.split(",")
                d = [i for i in range(7) if tf[i] != xf[i]]
                return "round %d: reported %s = %s but the %s gives %s" % (r, names[d[0]], tf[d[0]], label, xf[d[0]])
    alls = {all_of(T) for (_, T, _, _) in served}
    if len(alls) != 1:
        return "All() differs between served rounds: %s" % sorted(alls)
    if lr != rs[-1] or lt != served[-1][1]:
        return "LatestTotals (%d: %s) is not the newest served round (%d: %s)" % (lr, lt, rs[-1], served[-1][1])
    return None


def split_cases(ops):
    """-> list of (start, end) index ranges, one per `reset`"""
    starts = [i for i, o in enumerate(ops) if o.startswith("reset")]
    if not starts or starts[0] != 0:
        starts = [0] + starts
    return [(s, e) for s, e in zip(starts, starts[1:] + [len(ops)])]


def run(ctx, replay_ops=None):
    ctx.overlay()
    ctx.assumptions += [
        "theorem hypotheses: every account of the finite universe has a known status (0/1/2), no participating account has a rewards base above the level (true of every reachable state: the base is set to the current level whenever a participating account is written), the rewards level does not decrease and is < 2^64, the delta set names every address once (ledgercore.AccountDeltas), and NoOverflow: the total money of every intermediate map of the CalculateTotals loop is < 2^64 (the supply is 10^16 µAlgos)",
        "the account deltas fed to the model's calculateTotals are the ones OBSERVED in the real StateDelta of each block (the transaction semantics producing them are C18–C22's subject); the model checks them against its own account map of the previous round",
        "the universe of the tie is closed: every address a generated transaction can touch (ids 0..9 incl. fee sink, rewards pool, zero address) is summed; application accounts / inner transactions are not generated",
        "one consensus version per case (no protocol upgrade inside a history): RewardUnit is constant and consecutiveVersion never shortens a commit",
        "roundTotals plumbing (RT: newBlock / commit / reload / Totals / LatestTotals) is hand-modelled from acctupdates.go and tied by correspondence only; the catchpoint tracker and the online-accounts tracker never shorten the committed range in the generated schedules",
    ]
    ok_gen, _ = ctx.go2lean(["Rewards", "Totals"])
    proved = ok_gen and ctx.prove(["AlgoVerif.Props.C12"])
    okb, out = ctx.lean_build(["c12"])
    if not okb:
        ctx.tie_failures.append("driver c12 (Model.Totals) does not build: " + out[-400:])
    env = {}
    if not proved or not okb:
        env["VERIF_BUDGET_SCALE"] = "400" if ctx.tier == "quick" else "150"   # proof / tie broke → search harder for a failing history
    if replay_ops is not None:
        rp = os.path.join(ctx.work, NAME + ".replay")
        open(rp, "w").write("\n".join(replay_ops) + "\n")
        env["VERIF_REPLAY"] = rp
    ctx.cov["rule"] = ("a case = a fresh real ledger (future or current consensus) from a generated genesis: 6 accounts (balances 0 / min balance / one reward unit ± / large / one of 2^62), "
                       "40% online with short or long key validity, 15% non-participating, fee sink, rewards pool funded with 10^9 … 3·10^15 µAlgos (participating in 12% of the cases) so that the rewards level "
                       "moves every block; 5–16 blocks of 0–8 groups (48% payments incl. closes and boundary amounts, 40% keyreg online / offline / non-participating, 12% asset traffic), empty blocks; after every "
                       "block a totals query, then with probability 35% (repeated) a synchronous tracker commit with lookback in {0,1,2,3,4,8} or a ledger reload, each followed by a query; "
                       "evaluations = (query, served round) pairs compared; distinct = distinct (case, round, totals) triples; trivial = the genesis round of a case")
    rc, out = ctx.go_test(PKG, TEST, env=env, timeout=5400)
    opsf, implf = os.path.join(ctx.work, NAME + ".ops"), os.path.join(ctx.work, NAME + ".impl")
    if rc != 0 or not os.path.exists(opsf):
        ctx.tie_failures.append("harness %s %s failed to run (rc=%d): %s" % (PKG, TEST, rc, out[-600:]))
        return
    ops, impl = ctx.read_lines(opsf), ctx.read_lines(implf)
    model = []
    if okb:
        mf = os.path.join(ctx.work, NAME + ".model.out")
        drc = ctx.driver("c12", [], opsf, mf)
        if drc != 0:
            ctx.tie_failures.append("driver c12 failed rc=%d" % drc)
        else:
            model = ctx.read_lines(mf)

    cases = split_cases(ops)
    case_of = {}
    for ci, (s, e) in enumerate(cases):
        for i in range(s, e):
            case_of[i] = ci

    # ---- coverage accounting
    dist = ctx.cov["distribution"]
    def bump(k, n=1):
        dist[k] = dist.get(k, 0) + n
    distinct = set()
    evals = 0
    for i, (o, a) in enumerate(zip(ops, impl)):
        k = o.split(" ", 1)[0]
        bump(k)
        if k == "group":
            bump("group:" + a.split("@")[0].split(" ")[0])
        elif k == "end":
            toks = o.split()
            for t in toks[1:]:
                if t.startswith("D") and ">" in t:
                    ov, nv = t.split("=", 1)[1].split(">")
                    so, sn = ov.split(",")[0], nv.split(",")[0]
                    if so != sn:
                        bump("status:%s>%s" % (so, sn))
                    if nv.split(",")[1] == "0" and ov.split(",")[1] != "0":
                        bump("account-emptied")
        elif k == "begin":
            if "level=" in a:
                bump("block:level" + ("=0" if a.endswith("level=0") else ">0"))
        elif k == "q":
            q = parse_q(a)
            if q:
                served = [r for r in q[2] if r[1] is not None]
                bump("served-rounds-per-query:%s" % (len(served) if len(served) < 4 else "4-8" if len(served) <= 8 else ">8"))
                for (r, T, S, S2) in served:
                    evals += 1
                    if r != 0:
                        distinct.add((case_of[i], r, T))
    ctx.cov["evaluations"] += evals
    ctx.cov["distinct_nontrivial"] += len(distinct)
    rnd = random.Random(ctx.seed)
    ends = [o for o in ops if o.startswith("end ")]
    for o in rnd.sample(ends, min(6, len(ends))):
        ctx.cov["samples"].append(o[:400])

    def prefix(i):
        s, _ = cases[case_of[i]]
        return ops[s:i + 1]

    # ---- 1. the property monitor on the implementation's outputs alone
    hits = 0
    seen_cases = set()
    for i, (o, a) in enumerate(zip(ops, impl)):
        msg = monitor_line(o, a)
        if msg and case_of[i] not in seen_cases:
            seen_cases.add(case_of[i])
            hits += 1
            if hits <= 3:
                ctx.violation("monitor: " + msg, {"kind": "monitor", "ops": prefix(i), "index": i, "impl_out": a[:3000], "harness": HZ}, found_input=True)
    if hits > 3:
        ctx.notes.append("%d further cases with a monitor hit suppressed" % (hits - 3))

    # ---- 2. correspondence with the model (Model.Totals): `end` = calculateTotals on the observed deltas, `q` = roundTotals + Sum.
    #         The theorems pin `end` (totals_step) and `q` (served_refines ∘ totals_history) uniquely; `commit` / `reload` lines
    #         (the DB round) are plumbing only: a divergence there without a monitor hit in the case is a broken tie, not a failing input.
    if model:
        bad = [t for t in ctx.compare(ops, impl, model, "model") if t[3] != common.SKIP]
        rep = 0
        seen = set()
        for (i, op, a, b) in bad:
            ci = case_of.get(i)
            if ci is None or ci in seen:
                continue
            seen.add(ci)
            rep += 1
            if rep > 3:
                continue
            k = op.split(" ", 1)[0]
            pinned = k in ("end", "q", "reset")
            ctx.violation("real ledger differs from Model.Totals at `%s` (op %d of the case)" % (k, i - cases[ci][0]),
                          {"kind": "correspondence", "driver": "model", "ops": prefix(i), "index": i, "impl_out": a[:3000], "model_out": b[:3000], "harness": HZ},
                          found_input=pinned or ci in seen_cases)
        if rep > 3:
            ctx.notes.append("%d further diverging cases suppressed" % (rep - 3))
    dist["monitor-hits"] = hits


def replay(ctx, path):
    common.std_replay(ctx, path, run)
