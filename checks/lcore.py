"""Shared machinery of the LedgerCore checks (C18, C19, C21, C22): one Go harness (harness/ledger/zz_verif_lcore_test.go,
TestVerifLcore, generator profile chosen by VERIF_LCORE_PROFILE), one Lean driver (`lcore`, Model.LedgerCore), line-by-line
correspondence, and per-property monitors evaluated on the implementation's outputs alone."""
import os, random, re
import common

M64 = 1 << 64
UNIV = list(range(10))
PKG, TEST, NAME = "./ledger", "TestVerifLcore", "lcore"
HZ = {"pkg": PKG, "test": TEST, "name": NAME}

SCOPE_ASSUMPTIONS = [
    "only payment, keyreg, asset config / transfer / freeze transactions are modelled and generated; application calls, inner transactions, boxes, state proofs, heartbeats, rekeying, leases, logic/multi/PQ signatures and their fee surcharges are OUT of scope of Model.LedgerCore (another model extends it)",
    "the rewards level is constant inside a block (it is: the block header's RewardsLevel); StartEvaluator (rewards withdrawal) and endOfBlock (payouts, expired/absent accounts, CalculateTotals) are not modelled — the model is re-seeded from the state observed on the real evaluator at every block start, and the python monitors watch the block boundaries",
    "duplicates of transactions of EARLIER blocks (txtail), the block size limit and ApplyData are not modelled; generated transactions carry fresh nonces",
    "the cacheOnly lookups of putAssetHolding/putAssetParams never miss on the modelled paths (every path reads the pair before writing it)",
]


# ----------------------------------------------------------------------------- parsing
class Dump:
    __slots__ = ("payset", "fees", "ctr", "acct", "creator", "params", "hold", "raw")

    def __init__(self, text):
        self.raw = text
        self.acct, self.creator, self.params, self.hold = {}, {}, {}, {}
        self.payset = self.fees = self.ctr = None
        for tok in text.split():
            k, _, v = tok.partition("=")
            if k == "payset":
                self.payset = int(v)
            elif k == "fees":
                self.fees = int(v)
            elif k == "ctr":
                self.ctr = int(v)
            elif k[0] == "A" and k[1:].isdigit():
                self.acct[int(k[1:])] = v.split(",")
            elif k[0] == "C" and k[1:].isdigit():
                self.creator[int(k[1:])] = v
            elif k[0] == "P" and "@" in k:
                a, w = k[1:].split("@")
                self.params[(int(a), int(w))] = v.split(",")
            elif k[0] == "H" and "@" in k:
                a, w = k[1:].split("@")
                self.hold[(int(a), int(w))] = v.split(",")


def kv(line):
    d = {}
    for tok in line.split():
        k, s, v = tok.partition("=")
        if s and k.isalpha():
            d[k] = v
    return d


def bal_wp(a, level, unit):
    """balance with pending rewards of an A token"""
    st, bal, base = int(a[0]), int(a[1]), int(a[2])
    if st == 2:
        return bal
    return bal + (bal // unit) * (level - base)


def money(d, level, unit):
    return sum(bal_wp(a, level, unit) for a in d.acct.values())


def acct_zero(a):
    return all(x == "0" for x in a)


def parse_group(op):
    i = op.find(" #sz=")          # encoded sizes of the evaluated members (an input of the model's space accounting)
    if i >= 0:
        op = op[:i]
    rest = op[5:].strip()
    if not rest:
        return []
    return [t.split(",") for t in rest.split(";")]


class Case:
    """ops[i], impl[i] for i in [start, end)"""
    def __init__(self, start):
        self.start, self.lines = start, []


def split_cases(ops, impl):
    cases, cur = [], None
    for i, (o, a) in enumerate(zip(ops, impl)):
        if o.startswith("reset") or cur is None:
            cur = Case(i)
            cases.append(cur)
        cur.lines.append((o, a))
    return cases


def walk(case):
    """yield (idx_in_case, kind, op, impl, ctx) with ctx = dict(level, unit, mb, sink, pool, sp, prev: Dump before the op,
    cur: Dump after the op (groups), start: Dump at block start, block_money)"""
    st = {"level": 0, "unit": 1000000, "mb": 100000, "sink": 7, "pool": 8, "sp": 9, "prev": None, "start": None, "last_all": None}
    for idx, (op, out) in enumerate(case.lines):
        if op.startswith("block "):
            p = kv(op)
            st["level"], st["unit"] = int(p.get("level", 0)), max(1, int(p.get("unit", 1000000)))
            st["mb"] = int(p.get("reqs", "100000").split(",")[0])
            st["sink"], st["pool"], st["sp"] = int(p.get("sink", 7)), int(p.get("pool", 8)), int(p.get("sp", 9))
            st["minfee"] = int(p.get("minfee", 1000))
            i0 = op.find("payset=")
            d = Dump(op[i0:] if i0 >= 0 else "")
            st["prev"] = st["start"] = d
            yield idx, "block", op, out, st
        elif op.startswith("group"):
            if " | " not in out:
                yield idx, "garbled", op, out, st
                continue
            cls, _, dump = out.partition(" | ")
            st["cls"], st["cur"] = cls, Dump(dump)
            yield idx, "group", op, out, st
            st["prev"] = st["cur"]
        elif op == "endblock":
            yield idx, "endblock", op, out, st
            m = re.match(r"end payset=(\d+) ctr=(\d+) all=(\d+)(?: load=\d+)?$", out)
            st["last_all"] = int(m.group(3)) if m else None
        elif op == "dump":
            yield idx, "dump", op, out, st
        else:
            yield idx, "other", op, out, st


# ----------------------------------------------------------------------------- the shared run
def out_class(a):
    c = a.split(" | ", 1)[0] if " | " in a else a.split(" ", 1)[0]
    return c.split("@")[0]


def run(ctx, prop, profile, props_module, monitor, rule, replay_ops=None, extra_assumptions=()):
    """monitor(case) -> None | (idx_in_case, message): the property predicate on the implementation's outputs alone."""
    ctx.overlay()
    ctx.assumptions += SCOPE_ASSUMPTIONS + list(extra_assumptions)
    ok_gen, _ = ctx.go2lean(["Fees"])      # Gen.Fees.MinBalance / CheckGroupFees / Gen.Basics.AddSaturate are regenerated from the tree
    proved = ok_gen and ctx.prove([props_module])
    ok, out = ctx.lean_build(["lcore"])
    if not ok:
        raise RuntimeError("driver lcore does not build: " + out[-800:])
    env = {"VERIF_LCORE_PROFILE": profile}
    if not proved:
        env["VERIF_BUDGET_SCALE"] = "400" if ctx.tier == "quick" else "200"
    if replay_ops is not None:
        rp = os.path.join(ctx.work, NAME + ".replay")
        open(rp, "w").write("\n".join(replay_ops) + "\n")
        env["VERIF_REPLAY"] = rp
    ctx.cov["rule"] = rule
    rc, out = ctx.go_test(PKG, TEST, env=env, timeout=5400)
    opsf, implf = os.path.join(ctx.work, NAME + ".ops"), os.path.join(ctx.work, NAME + ".impl")
    if rc != 0 or not os.path.exists(opsf):
        ctx.tie_failures.append("harness %s %s failed to run (rc=%d): %s" % (PKG, TEST, rc, out[-600:]))
        return
    ops, impl = ctx.read_lines(opsf), ctx.read_lines(implf)
    mf = os.path.join(ctx.work, NAME + ".model.out")
    drc = ctx.driver("lcore", [], opsf, mf)
    model = ctx.read_lines(mf) if drc == 0 else []
    if drc != 0:
        ctx.tie_failures.append("driver lcore failed rc=%d" % drc)

    # coverage accounting
    dist = ctx.cov["distribution"]
    groups = set()
    for o, a in zip(ops, impl):
        k = o.split(" ", 1)[0]
        dist[k] = dist.get(k, 0) + 1
        if k == "group":
            c = "out:" + out_class(a)
            dist[c] = dist.get(c, 0) + 1
            g = parse_group(o)
            dist["groupsize:%s" % (len(g) if len(g) < 3 else "3-16" if len(g) <= 16 else ">16")] = dist.get("groupsize:%s" % (len(g) if len(g) < 3 else "3-16" if len(g) <= 16 else ">16"), 0) + 1
            for t in g:
                dist["txn:" + t[0]] = dist.get("txn:" + t[0], 0) + 1
            if g:
                groups.add(o.split(" #sz=")[0])
        elif k == "block":
            lv = kv(o).get("level", "0")
            dist["block:level" + ("=0" if lv == "0" else ">0")] = dist.get("block:level" + ("=0" if lv == "0" else ">0"), 0) + 1
    ctx.cov["evaluations"] += sum(1 for o in ops if o.startswith("group"))
    ctx.cov["distinct_nontrivial"] += len(groups)
    cases = split_cases(ops, impl)
    rnd = random.Random(ctx.seed)
    gl = sorted(groups)
    for o in rnd.sample(gl, min(8, len(gl))):
        ctx.cov["samples"].append(o[:400])

    def prefix(case, idx):
        return [o for o, _ in case.lines[:idx + 1]]

    # 1. correspondence with the model.  The model mirrors the code line by line; the theorems are about the model.  A
    #    divergence is a failing input for THIS property only when the property monitor fires on the case (or the
    #    implementation crashed); otherwise it is reported as a broken tie without a failing input.
    bad = ctx.compare(ops, impl, model, "model") if model else []
    seen = set()
    case_of = {}
    for c in cases:
        for j in range(len(c.lines)):
            case_of[c.start + j] = c
    for (i, op, a, b) in bad:
        c = case_of.get(i)
        if c is None or c.start in seen:
            continue
        seen.add(c.start)
        if len(seen) > 4:
            break
        hit = monitor(c)
        crashed = a.startswith("PANIC") or a.startswith("DIVERGED") or "ERR" in a or "UNMODELLED" in a or a.startswith("end-error") or a.startswith("corrupted")
        ctx.violation("real evaluator differs from Model.LedgerCore at op %d of the case: impl `%s` vs model `%s`%s"
                      % (i - c.start, first_diff(a, b)[0], first_diff(a, b)[1], (" — monitor: " + hit[1]) if hit else ""),
                      {"kind": "correspondence", "driver": "model", "ops": prefix(c, i - c.start), "index": i, "impl_out": a[:2000], "model_out": b[:2000],
                       "harness": HZ, "profile": profile}, found_input=bool(hit) or crashed)
    if len(bad) > 0:
        ctx.notes.append("%d mismatching lines vs model in total" % len(bad))

    # 2. the property monitor on the implementation's outputs alone
    hits = 0
    for c in cases:
        hit = monitor(c)
        if hit:
            hits += 1
            if hits <= 4:
                idx, msg = hit
                ctx.violation("monitor: " + msg, {"kind": "monitor", "ops": prefix(c, idx), "impl_out": c.lines[idx][1][:2000], "harness": HZ, "profile": profile},
                              found_input=True)
    dist["monitor:cases_checked"] = len(cases)
    dist["monitor:hits"] = hits


def first_diff(a, b):
    """the first differing token of two result lines (for a readable message)"""
    ta, tb = a.split(), b.split()
    for x, y in zip(ta, tb):
        if x != y:
            return x[:120], y[:120]
    if len(ta) != len(tb):
        return (" ".join(ta[len(tb):])[:120] or "<end>"), (" ".join(tb[len(ta):])[:120] or "<end>")
    return a[:120], b[:120]
