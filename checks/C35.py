"""C35 — app programs can touch only resources made available to them.

Tie C (stateful line protocol): TestVerifC35 evaluates random transaction groups (1-4 transactions, mixed program
versions 2..14, foreign arrays and tx.Access, assets / apps created earlier in the group, ledger boxes, optional
unnamed-resource policy) the way the block evaluator does — one EvalParams per group, RecordAD for created assets, one
real EvalContract run per access with a tiny program that touches ONE resource through one opcode family — against
Model.Resources (the Lean replay of resources.go fill*/allows*, the eval.go resolvers, box.go availableAppBox and the
EvalContract prologue), comparing the verdict class and the (unnamedAccess, dirtyBytes, ioBudget) state after every access.

Monitor on the implementation alone (independent python, declarative): an access the real code let through must name
a resource that the transaction's own references declare, or — from the version that enables it — that another
transaction of the group declares (holdings / locals only as a PAIR declared by one transaction), or that was created
earlier in the group, or the called app / its account, or (simulation only) the unnamed-resource policy grants.
"""
import json, os, re
import common
import vf

PKG, TEST, NAME = "./data/transactions/logic", "TestVerifC35", "c35"
DENY = {"noacct", "noasset", "noapp", "nohold", "nolocal", "badacct", "nomut", "badslot", "low", "nobox", "boxauth",
        "wbudget", "rbudget", "clearbox", "preaccess", "inner-nohold", "inner-nolocal"}


# ------------------------------------------------------------------------------------------------ parsing
def lst(s):
    return [] if s in ("-", "", None) else s.split(",")


def kvs(fields):
    d = {}
    for f in fields:
        if "=" in f:
            k, v = f.split("=", 1)
            d[k] = v
    return d


def parse_elem(e):
    r = {"address": "z", "asset": 0, "app": 0, "holding": None, "locals": None, "box": None, "empty": False}
    c, b = e[0], e[1:]
    if c == "A":
        r["address"] = b
    elif c == "S":
        r["asset"] = int(b)
    elif c == "P":
        r["app"] = int(b)
    elif c == "H":
        a, s = b.split(".", 1)
        r["holding"] = (int(a), int(s))
    elif c == "L":
        a, s = b.split(".", 1)
        r["locals"] = (int(a), int(s))
    elif c == "B":
        i, n = (b.split(".", 1) + [""])[:2]
        r["box"] = (int(i), n)
    elif c == "M":
        a, s, p = b.split(".")
        r["address"], r["asset"], r["app"] = a, int(s), int(p)
    else:
        r["empty"] = True
    return r


def parse_tx(desc):
    f = desc.split()
    t = {"type": f[0]}
    d = kvs(f[1:])
    t["snd"] = d.get("snd", "z")
    if f[0] == "appl":
        t["id"], t["cid"], t["oc"] = int(d["id"]), int(d["cid"]), int(d["oc"])
        t["aid"] = t["id"] or t["cid"]
        t["acc"] = lst(d.get("acc"))
        t["fa"] = [int(x) for x in lst(d.get("fa"))]
        t["fp"] = [int(x) for x in lst(d.get("fp"))]
        t["bx"] = []
        for b in lst(d.get("bx")):
            i, n = b.split(":", 1)
            t["bx"].append((int(i), n))
        al = d.get("al", "-")
        t["al"] = None if al in ("-", "") else [parse_elem(e) for e in al.split(",")]
    else:
        for k in ("rcv", "close", "asnd", "aclose", "acct"):
            t[k] = d.get(k, "z")
        t["asa"] = int(d.get("asa", "0"))
    return t


class Case:
    """the declarative availability of one group (what the property text calls 'made available')"""

    def __init__(self, line):
        parts = line.split("|")
        h = kvs(parts[0].split())
        self.low = h.get("low") == "1"
        self.apps = {}
        for a in lst(h.get("apps")):
            i, cr, fbr, fba, ver = a.split(":")
            self.apps[int(i)] = {"creator": cr, "fbr": fbr == "1", "fba": fba == "1", "ver": int(ver)}
        self.pol = None
        if h.get("pol", "-") != "-":
            p = (h["pol"].split(";") + [""] * 6)[:6]
            pair = lambda t: (t.split(":", 1)[0], t.split(":", 1)[1])
            self.pol = {"accts": set(lst(p[0])), "assets": {int(x) for x in lst(p[1])}, "apps": {int(x) for x in lst(p[2])},
                        "holdings": {(pair(t)[0], int(pair(t)[1])) for t in lst(p[3])},
                        "locals": {(pair(t)[0], int(pair(t)[1])) for t in lst(p[4])},
                        "boxes": {(int(pair(t)[0]), pair(t)[1]) for t in lst(p[5])}}
        self.txs = [parse_tx(d) for d in parts[1:]]
        self.created_asas = set()
        self.g_acct, self.g_asset, self.g_app, self.g_hold, self.g_local, self.g_box = set(), set(), set(), set(), set(), set()
        self.slots = 0
        for t in self.txs:
            self.declare(t)

    # what ONE transaction declares
    def declare(self, t):
        ty = t["type"]
        self.g_acct.add(t["snd"])
        if ty == "pay":
            self.g_acct.add(t["rcv"])
            if t["close"] != "z":
                self.g_acct.add(t["close"])
        elif ty == "acfg":
            if t["asa"]:
                self.g_asset.add(t["asa"])
        elif ty == "axfer":
            who = [t["snd"], t["rcv"]] + [x for x in (t["asnd"], t["aclose"]) if x != "z"]
            self.g_asset.add(t["asa"])
            for a in who:
                self.g_acct.add(a)
                if t["asa"]:
                    self.g_hold.add((a, t["asa"]))
        elif ty == "afrz":
            self.g_acct.add(t["acct"])
            self.g_asset.add(t["asa"])
            if t["asa"]:
                self.g_hold.add((t["acct"], t["asa"]))
        elif ty == "appl":
            if t["al"] is None:
                accts = [t["snd"]] + t["acc"] + (["p%d" % t["id"]] if t["id"] else []) + ["p%d" % x for x in t["fp"]]
                apps = ([t["id"]] if t["id"] else []) + t["fp"]
                self.g_acct.update(accts)
                self.g_asset.update(t["fa"])
                self.g_app.update(apps)
                for a in accts:
                    for s in t["fa"]:
                        self.g_hold.add((a, s))
                    for p in apps:
                        self.g_local.add((a, p))
                for i, n in t["bx"]:
                    if i == 0 and n == "":
                        self.slots += 1
                    app = None
                    if i == 0:
                        app = t["aid"]
                    elif i <= len(t["fp"]):
                        app = t["fp"][i - 1] or t["aid"]
                    if app:
                        self.g_box.add((app, n))
            else:
                al = t["al"]
                if t["id"]:
                    self.g_app.add(t["id"])
                    self.g_local.add((t["snd"], t["id"]))

                def addr_at(i):
                    if i == 0:
                        return t["snd"]
                    if 1 <= i <= len(al) and al[i - 1]["address"] != "z":
                        return al[i - 1]["address"]
                    return None
                for e in al:
                    if e["address"] != "z":
                        self.g_acct.add(e["address"])
                    elif e["asset"]:
                        self.g_asset.add(e["asset"])
                    elif e["app"]:
                        self.g_app.add(e["app"])
                    elif e["holding"]:
                        a = addr_at(e["holding"][0])
                        si = e["holding"][1]
                        s = al[si - 1]["asset"] if 1 <= si <= len(al) else 0
                        if a is not None and s:
                            self.g_hold.add((a, s))
                        else:                # ill-formed (never WellFormed): Resolve's error is ignored, the zero pair is shared
                            self.g_hold.add(("z", 0))
                    elif e["locals"]:
                        a = addr_at(e["locals"][0])
                        pi = e["locals"][1]
                        p = t["id"] if pi == 0 else (al[pi - 1]["app"] if 1 <= pi <= len(al) else 0)
                        if a is not None and (p or pi == 0):
                            self.g_local.add((a, p))
                        else:                # ill-formed: as above
                            self.g_local.add(("z", 0))
                    elif e["box"]:
                        i, n = e["box"]
                        if i == 0:
                            self.g_box.add((t["aid"], n))
                        elif 1 <= i <= len(al) and al[i - 1]["app"]:
                            self.g_box.add((al[i - 1]["app"], n))
                    else:
                        self.slots += 1

    # ---- availability for transaction gi running a version-v program
    def created_apps(self, gi):
        return {t["cid"] for t in self.txs[:gi + 1] if t["type"] == "appl" and t["id"] == 0}

    def ok_account(self, gi, v, a):
        t = self.txs[gi]
        if a == t["snd"] or a in t["acc"] or a == "p%d" % t["aid"]:
            return True
        if t["al"] is not None and any(e["address"] == a for e in t["al"]):
            return True      # IndexByAddress compares the Address FIELD: the zero address matches any non-address element
        if v >= 7 and a in {"p%d" % x for x in t["fp"]}:
            return True
        if v >= 6 and a in {"p%d" % c for c in self.created_apps(gi)}:
            return True
        if v >= 9 and a in self.g_acct:
            return True
        return bool(self.pol) and a in self.pol["accts"]

    def ok_asset(self, gi, v, x):
        t = self.txs[gi]
        if x in t["fa"] or (t["al"] is not None and any(e["asset"] == x for e in t["al"])):
            return True
        if v >= 6 and x in self.created_asas:
            return True
        if v >= 9 and x in self.g_asset:
            return True
        return bool(self.pol) and x > 255 and x in self.pol["assets"]

    def ok_app(self, gi, v, x):
        t = self.txs[gi]
        if x == t["aid"] or x in t["fp"] or (t["al"] is not None and any(e["app"] == x for e in t["al"])):
            return True
        if v >= 6 and x in self.created_apps(gi):
            return True
        if v >= 9 and x in self.g_app:
            return True
        return bool(self.pol) and x > 255 and x in self.pol["apps"]

    def ok_holding(self, gi, v, a, x):
        if v < 9:
            return self.ok_account(gi, v, a) and self.ok_asset(gi, v, x)
        if (a, x) in self.g_hold:
            return True
        if x in self.created_asas and self.ok_account(gi, v, a):
            return True
        if a in {"p%d" % c for c in self.created_apps(gi)} and self.ok_asset(gi, v, x):
            return True
        return bool(self.pol) and (a, x) in self.pol["holdings"] and self.ok_account(gi, v, a) and self.ok_asset(gi, v, x)

    def ok_locals(self, gi, v, a, p):
        if v < 9:
            return self.ok_account(gi, v, a) and self.ok_app(gi, v, p)
        if (a, p) in self.g_local:
            return True
        if p in self.created_apps(gi) and self.ok_account(gi, v, a):
            return True
        if a in {"p%d" % c for c in self.created_apps(gi)} and self.ok_app(gi, v, p):
            return True
        return bool(self.pol) and (a, p) in self.pol["locals"] and self.ok_account(gi, v, a) and self.ok_app(gi, v, p)

    def ok_box(self, gi, key):
        if key in self.g_box:
            return True
        if key[0] in self.created_apps(gi) and self.slots > 0:
            return True
        return bool(self.pol) and key in self.pol["boxes"]

    # ---- operand resolution (what the access NAMES)
    def acct_operand(self, gi, tok):
        """(address, named-by-own-index?) or None when the index names nothing"""
        t = self.txs[gi]
        if not tok.startswith("i"):
            return tok, False
        n = int(tok[1:])
        if n == 0:
            return t["snd"], True
        if t["al"] is not None:
            if 1 <= n <= len(t["al"]) and t["al"][n - 1]["address"] != "z":
                return t["al"][n - 1]["address"], True
            return None
        if 1 <= n <= len(t["acc"]):
            return t["acc"][n - 1], True
        return None

    def asset_operand(self, gi, v, x, foreign):
        """the asset id the reference may stand for, or None"""
        t = self.txs[gi]
        if v < 4:
            if not foreign:
                return ("direct", x)
            return ("slot", t["fa"][x]) if x < len(t["fa"]) else None
        if self.ok_asset(gi, v, x):
            return ("id", x)
        if x < len(t["fa"]):
            return ("slot", t["fa"][x])
        if t["al"] is not None and 1 <= x <= len(t["al"]) and t["al"][x - 1]["asset"]:
            return ("slot", t["al"][x - 1]["asset"])
        return None

    def app_operand(self, gi, v, x, foreign):
        t = self.txs[gi]
        if x == 0:
            return ("self", t["aid"])
        if v < 4:
            if not foreign:
                return ("direct", x)
            return ("slot", t["fp"][x - 1]) if x <= len(t["fp"]) else None
        if x == t["aid"]:
            return ("self", x)
        if self.ok_app(gi, v, x):
            return ("id", x)
        if x <= len(t["fp"]):
            return ("slot", t["fp"][x - 1])
        if t["al"] is not None and 1 <= x <= len(t["al"]) and t["al"][x - 1]["app"]:
            return ("slot", t["al"][x - 1]["app"])
        return None


def monitor(case, f, detail):
    """None, or why an access that WENT THROUGH names a resource the group did not make available"""
    gi, v, fam, a = int(f[1]), int(f[2]), f[3], f[4:]
    t = case.txs[gi]

    def need_account(tok):
        r = case.acct_operand(gi, tok)
        if r is None:
            return None, "account index %s names nothing in the transaction's own references" % tok
        addr, by_index = r
        if not by_index and not case.ok_account(gi, v, addr):
            return None, "account %s is not available to transaction %d at version %d" % (addr, gi, v)
        return addr, None

    if fam in ("balance", "minbal", "acctp"):
        return need_account(a[0])[1]
    if fam == "hold":
        r = case.acct_operand(gi, a[0])
        if r is None:
            return "account index %s names nothing" % a[0]
        addr = r[0]
        s = case.asset_operand(gi, v, int(a[1]), False)
        if s is None:
            return "asset reference %s names nothing available" % a[1]
        if v < 9:
            if not r[1] and not case.ok_account(gi, v, addr):
                return "account %s is not available (version %d)" % (addr, v)
            return None
        if not case.ok_holding(gi, v, addr, s[1]):
            return "holding (%s, asset %d) is not available as a pair: no single transaction declares both, neither was created in the group" % (addr, s[1])
        return None
    if fam == "asap":
        return None if case.asset_operand(gi, v, int(a[0]), True) is not None else "asset reference %s names nothing available" % a[0]
    if fam in ("appp", "gex"):
        return None if case.app_operand(gi, v, int(a[0]), True) is not None else "app reference %s names nothing available" % a[0]
    if fam in ("opted", "lget", "lgetx"):
        r = case.acct_operand(gi, a[0])
        if r is None:
            return "account index %s names nothing" % a[0]
        addr = r[0]
        p = case.app_operand(gi, v, int(a[1]) if fam != "lget" else 0, False)
        if p is None:
            return "app reference %s names nothing available" % a[1]
        if v < 9:
            if not r[1] and not case.ok_account(gi, v, addr):
                return "account %s is not available (version %d)" % (addr, v)
            return None
        if not case.ok_locals(gi, v, addr, p[1]):
            return "local state (%s, app %d) is not available as a pair" % (addr, p[1])
        return None
    if fam in ("lput", "ldel"):
        r = case.acct_operand(gi, a[0])
        if r is None:
            return "account index %s names nothing" % a[0]
        addr = r[0]
        if v < 9:
            own = addr == t["snd"] or addr in t["acc"] or (t["al"] is not None and any(e["address"] == addr for e in t["al"]))
            return None if own else "local state of %s mutated by a version %d program although the account is not in the transaction's own references" % (addr, v)
        if not case.ok_locals(gi, v, addr, t["aid"]):
            return "local state (%s, app %d) is not available as a pair" % (addr, t["aid"])
        return None
    if fam in ("bcreate", "bput", "bdel", "bget", "blen", "xbcreate", "xbput", "xbdel", "xbget", "xblen"):
        if fam.startswith("x"):
            app, name, rest = int(a[0]), a[1], a[2:]
        else:
            app, name, rest = t["aid"], a[0], a[1:]
        if name == "_" or (rest and int(rest[0]) > 1000):
            return None      # rejected by lengthChecks before any box is looked at
        if t["oc"] == 3:
            return "a ClearState program reached a box"
        if not case.ok_box(gi, (app, name)):
            return "box (%d, %s) is named by no box reference of the group (index 0 = the app the referencing transaction calls), belongs to no app created in the group with a spare reference" % (app, name)
        if app != t["aid"] and detail == "":
            o, me = case.apps.get(app), case.apps.get(t["aid"])
            if o is not None:
                fam_ok = o["fba"] and me is not None and me["creator"] == o["creator"]
                read = fam in ("xbget", "xblen")
                if not ((read and o["fbr"]) or fam_ok):
                    return "app %d touched a box of app %d without ForeignBoxReads / FamilyBoxAccess permission" % (t["aid"], app)
        return None
    if fam == "ifa":
        return None if case.ok_account(gi, v, a[1]) else "inner field %s set to unavailable account %s" % (a[0], a[1])
    if fam == "ifs":
        return None if case.ok_asset(gi, v, int(a[1])) else "inner field %s set to unavailable asset %s" % (a[0], a[1])
    if fam == "ifp":
        return None if case.ok_app(gi, v, int(a[1])) else "inner field %s set to unavailable app %s" % (a[0], a[1])
    if fam == "isub":
        st = lambda x: x not in ("z", "-", "", "0")
        reached = detail == "" or detail.startswith("inner tx")
        selfaddr = "p%d" % t["aid"]
        if a[0] == "axfer":
            x, rcv, asnd, aclose, snd = a[1:6]
            for tok in (snd, rcv, asnd, aclose):
                if st(tok) and not case.ok_account(gi, v, tok):
                    return "inner axfer names unavailable account %s" % tok
            if st(x) and not case.ok_asset(gi, v, int(x)):
                return "inner axfer names unavailable asset %s" % x
            if reached and v >= 9 and st(x):
                who = [rcv, asnd, aclose] + ([snd if st(snd) else selfaddr] if not st(asnd) else [])
                for tok in who:
                    if st(tok) and not case.ok_holding(gi, v, tok, int(x)):
                        return "inner axfer ran although the caller has no access to holding (%s, %s)" % (tok, x)
        elif a[0] == "afrz":
            x, acct = a[1:3]
            if st(x) and not case.ok_asset(gi, v, int(x)):
                return "inner afrz names unavailable asset %s" % x
            if st(acct) and not case.ok_account(gi, v, acct):
                return "inner afrz names unavailable account %s" % acct
            if reached and v >= 9 and st(x) and st(acct) and not case.ok_holding(gi, v, acct, int(x)):
                return "inner afrz ran although the caller has no access to holding (%s, %s)" % (acct, x)
        elif a[0] == "appl":
            p, accts, assets, apps = a[1], lst(a[2]), lst(a[3]), lst(a[4])
            if st(p) and not case.ok_app(gi, v, int(p)):
                return "inner appl names unavailable app %s" % p
            for tok in accts:
                if st(tok) and not case.ok_account(gi, v, tok):
                    return "inner appl names unavailable account %s" % tok
            for tok in assets:
                if st(tok) and not case.ok_asset(gi, v, int(tok)):
                    return "inner appl names unavailable asset %s" % tok
            for tok in apps:
                if st(tok) and not case.ok_app(gi, v, int(tok)):
                    return "inner appl names unavailable app %s" % tok
            callee = case.apps.get(int(p)) if st(p) else None
            if reached and v >= 9 and callee is not None and 4 <= callee["ver"] < 9 and int(p) != t["aid"]:
                who = [selfaddr] + [x for x in accts if st(x)] + ["p" + p] + ["p" + x for x in apps if st(x)]
                for w in who:
                    for s in assets:
                        if st(s) and w != "z" and not case.ok_holding(gi, v, w, int(s)):
                            return "inner call of a pre-sharing app would hand it holding (%s, %s) which the caller cannot touch" % (w, s)
                    for q in [p] + [x for x in apps if st(x)]:
                        if not case.ok_locals(gi, v, w, int(q)):
                            return "inner call of a pre-sharing app would hand it local state (%s, %s) which the caller cannot touch" % (w, q)
        return None
    return None


# ------------------------------------------------------------------------------------------------ the check
def corpus_dir():
    return os.path.join(vf.VERIF, "corpus", "C35")


def one_run(ctx, env, replay_ops):
    e = dict(env)
    if replay_ops is not None:
        rp = os.path.join(ctx.work, NAME + ".replay")
        open(rp, "w").write("\n".join(replay_ops) + "\n")
        e["VERIF_REPLAY"] = rp
    elif os.path.isdir(corpus_dir()):
        e["VERIF_CORPUS"] = corpus_dir()
    rc, out = ctx.go_test(PKG, TEST, env=e, timeout=3000)
    opsf, implf, monf = (os.path.join(ctx.work, NAME + x) for x in (".ops", ".impl", ".mon"))
    if rc != 0 or not os.path.exists(opsf):
        ctx.tie_failures.append("harness %s %s failed to run (rc=%d): %s" % (PKG, TEST, rc, out[-600:]))
        return
    mf = os.path.join(ctx.work, NAME + ".model.out")
    drc = ctx.driver("c35", [], opsf, mf, timeout=3000)
    if drc != 0:
        ctx.tie_failures.append("driver c35 failed rc=%d" % drc)
        return
    ops, impl, model = ctx.read_lines(opsf), ctx.read_lines(implf), ctx.read_lines(mf)
    mon = ctx.read_lines(monf) if os.path.exists(monf) else []
    if len(impl) != len(ops) or len(model) != len(ops):
        ctx.tie_failures.append("line counts differ: ops=%d impl=%d model=%d" % (len(ops), len(impl), len(model)))
        return
    mon += [""] * (len(ops) - len(mon))
    harness = {"pkg": PKG, "test": TEST, "name": NAME}
    dist = ctx.cov["distribution"]
    case, case_ops, case_id, case_bad = None, [], 0, False
    seen = set()
    nontrivial = 0
    reported = {"corr": 0, "mon": 0, "panic": 0}
    suppressed = 0
    for i, (op, a, b, d) in enumerate(zip(ops, impl, model, mon)):
        f = op.split()
        if not f:
            continue
        if f[0] == "reset":
            try:
                case = Case(op)
            except Exception as ex:          # a malformed replay line must not crash the check
                case = None
                ctx.notes.append("unparsable reset line: %r" % (ex,))
            case_ops, case_bad = [op], False
            case_id += 1
            dist["cases"] = dist.get("cases", 0) + 1
            if a != b and reported["corr"] < 5:
                ctx.violation("reset answered differently", {"kind": "correspondence", "ops": case_ops[:], "impl_out": a, "model_out": b, "harness": harness}, found_input=False)
                reported["corr"] += 1
            continue
        case_ops.append(op)
        cls = a.split()[0] if a else "?"
        if f[0] == "asa":
            if case is not None and len(f) >= 3:
                case.created_asas.add(int(f[2]))
            dist["asa"] = dist.get("asa", 0) + 1
        elif f[0] == "acc" and len(f) >= 4:
            k = "%s/%s" % (f[3], cls)
            dist[k] = dist.get(k, 0) + 1
            if cls not in ("preaccess", "rbudget", "asmfail", "bad-op"):
                key = (case_ops[0], op)
                if key not in seen:
                    seen.add(key)
                    nontrivial += 1
        if cls == "PANIC":
            if reported["panic"] < 3:
                ctx.violation("the evaluator panicked: " + d[:120], {"kind": "monitor", "ops": case_ops[:], "impl_out": a, "detail": d, "harness": harness}, found_input=True)
            reported["panic"] += 1
            continue
        hit = None
        if f[0] == "acc" and cls == "ok" and case is not None:
            try:
                hit = monitor(case, f, d)
            except (ValueError, IndexError, KeyError) as ex:
                hit = None
                ctx.notes.append("monitor could not parse %r: %r" % (op, ex))
        if hit:
            if reported["mon"] < 5:
                ctx.violation("monitor: an access went through although " + hit,
                              {"kind": "monitor", "ops": case_ops[:], "index": i, "impl_out": a, "model_out": b, "detail": d, "harness": harness},
                              found_input=True)
            else:
                suppressed += 1
            reported["mon"] += 1
        if a != b and not case_bad:
            case_bad = True          # later lines of the case may differ only because the states diverged
            if reported["corr"] < 5 and not hit:
                ma = a.split()[0] if a else ""
                mb = b.split()[0] if b else ""
                # the model refuses, the real code lets through: by access_only_if_available the resource is outside Avail
                wide = ma == "ok" and mb in DENY
                ctx.violation("real verdict differs from Model.Resources" + (" — the real code lets through an access the proved model refuses" if wide else ""),
                              {"kind": "correspondence", "ops": case_ops[:], "index": i, "impl_out": a, "model_out": b, "detail": d, "harness": harness},
                              found_input=wide)
                reported["corr"] += 1
            elif not hit:
                suppressed += 1
    ctx.cov["evaluations"] += len(ops)
    ctx.cov["distinct_nontrivial"] += nontrivial
    if ops and len(ctx.cov["samples"]) < 12:
        import random
        rnd = random.Random(ctx.seed)
        accs = [o for o in ops if o.startswith("acc ")]
        for o in rnd.sample(accs, min(6, len(accs))):
            ctx.cov["samples"].append(o[:300])
        resets = [o for o in ops if o.startswith("reset ")]
        for o in rnd.sample(resets, min(2, len(resets))):
            ctx.cov["samples"].append(o[:400])
    if suppressed:
        ctx.notes.append("%d further mismatches / monitor hits suppressed" % suppressed)


def run(ctx, replay_ops=None):
    ctx.overlay()
    ctx.assumptions += [
        "application addresses (hash of the app id) are pairwise distinct, distinct from every other address in play and non-zero (constructor injectivity of Model.Resources.Addr)",
        "top-level transactions are the ones the transaction pool admits (WellFormed): tx.Access xor foreign arrays; ill-formed index references inside tx.Access are modelled as the zero values the Go code is left with after ignoring Resolve's error, and are exercised by a small ill-formed stream",
        "a nil and an empty box name are not distinguished (msgpack decoding never yields a non-nil empty name)",
        "box authorisation is modelled for top-level frames (no caller): the family re-entrancy walk of checkFamilyReentrancy is empty; inner callees that touch boxes are not generated",
        "program sizes are below the large-program threshold, so considerBudgetProgramWrites and the shared-app read surcharge contribute 0 bytes; saturation of the I/O budget arithmetic is not reached",
        "verdict classes are recognised from the error text of the real evaluator; an error raised AFTER the availability gate (ledger: no account / not opted in / asset frozen ..., WellFormed of an inner transaction, self-call, callee too old) counts as 'ok' = the gate let the access through",
        "IndexByAddress / availableAsset / availableApp compare struct FIELDS of tx.Access elements, so with a tx.Access list present the zero address (asset 0, app 0) counts as named by any element that is not an address (asset, app); modelled as coded and accepted by the monitor",
    ]
    proved = ctx.prove(["AlgoVerif.Props.C35"])
    okb, out = ctx.lean_build(["c35"])
    if not okb:
        raise RuntimeError("driver c35 does not build: " + out[-800:])
    env = {}
    if not proved:
        env["VERIF_BUDGET_SCALE"] = "600" if ctx.tier == "quick" else "200"
    ctx.cov["rule"] = ("a case = `reset` (protocol flag AppForbidLowResources, optional unnamed-resource policy, ledger apps with creator / ForeignBoxReads / "
                       "FamilyBoxAccess / program version, ledger boxes) + a group of 1-4 transactions (62% app calls incl. creations, ClearState / delete / update "
                       "completions; pay, keyreg, acfg incl. creation, axfer, afrz) with random reference lists (Accounts, ForeignAssets, ForeignApps, Boxes — or a tx.Access "
                       "list with address / asset / app / holding / locals / box / empty elements, 4% ill-formed) over a universe of 6 users, 7 assets (ids 1-3 collide with "
                       "slot numbers), 7 apps (one absent from the ledger) and their app accounts; then, transaction by transaction, `asa` for a created asset and 2-6 accesses "
                       "per app call by a program of the transaction's version (2..14): operands are 72% drawn from what the group mentions (another transaction's, created, "
                       "own) and 28% from the universe; accounts by index or address, assets / apps by id or slot. Directed corpus cases (corpus/C35) run first. "
                       "An access is non-trivial unless it stops at preaccess / rbudget / asmfail; distinct = distinct (group, access) pairs")
    one_run(ctx, env, replay_ops)


def replay(ctx, path):
    common.std_replay(ctx, path, run)
