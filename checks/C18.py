"""C18 — blocks neither create nor destroy Algos.
Tie C: real ledger + real BlockEvaluator.TransactionGroup vs Model.LedgerCore (shared harness, profile c18: payments, closes,
fees, keyregs, some asset traffic), plus a monitor on the implementation's outputs alone: the sum over ALL accounts of the
balance with pending rewards at the block's level is the same after every group (successful or failed), equals the totals the
real endOfBlock/CalculateTotals reports, and equals the sum at the start of the next block (after the rewards withdrawal)."""
import re
import common, lcore


def monitor(case):
    last_all = None
    for idx, kind, op, out, st in lcore.walk(case):
        if kind == "block":
            m0 = lcore.money(st["start"], st["level"], st["unit"])
            st["block_money"] = m0
            if last_all is not None and m0 != last_all:
                return idx, "money at the start of the block (%d, pending rewards at the new level) differs from the totals of the previous block (%d)" % (m0, last_all)
        elif kind == "group":
            m = lcore.money(st["cur"], st["level"], st["unit"])
            if m != st["block_money"]:
                return idx, "sum of all balances with pending rewards changed from %d to %d by a group (%s)" % (st["block_money"], m, st["cls"])
            if st["cls"] == "ok":
                # fees only move: what the sink gained (it is never a modelled fee payer except as sender) is what was collected
                g = lcore.parse_group(op)
                paid = sum(int(t[2]) for t in g if int(t[1]) != st["sink"])
                if (st["cur"].fees - st["prev"].fees) % lcore.M64 != paid % lcore.M64:
                    return idx, "feesCollected grew by %d but the group's members paid %d" % (st["cur"].fees - st["prev"].fees, paid)
        elif kind == "endblock":
            m = re.match(r"end payset=(\d+) ctr=(\d+) all=(\d+)(?: load=\d+)?$", out)
            if not m:
                return idx, "the real endOfBlock / validation failed on a block built from accepted groups: " + out[:200]
            last_all = int(m.group(3))
            if last_all != st["block_money"]:
                return idx, "AccountTotals.All() = %d after the block but the accounts summed to %d during it" % (last_all, st["block_money"])
        elif kind == "garbled":
            return idx, "unparseable harness output " + out[:120]
    return None


def run(ctx, replay_ops=None):
    lcore.run(ctx, "C18", "c18", "AlgoVerif.Props.C18", monitor,
              rule=("a case = a fresh real ledger from a generated genesis (6 accounts with boundary balances 0 / min balance / just above / below one reward unit / large, "
                    "online / offline / non-participating, fee sink, rewards pool sized so that the rewards level really moves between blocks, optional genesis assets) followed by 1–3 blocks of 6–23 "
                    "transaction groups; profile c18 = 70% payments (amounts at the available-balance boundary ±1, whole balance, zero, huge; close-to 18–30% incl. to self/receiver/specials), keyreg, "
                    "asset traffic, fees {min, 0, min−1, 2·min, balance, balance+1, 2 Algos}, fee pooling, dead/early/malformed windows, duplicates; evaluations = groups tried; "
                    "distinct = distinct non-empty group op lines"),
              replay_ops=replay_ops,
              extra_assumptions=["money = Σ over accounts of balance + ⌊balance/RewardUnit⌋·(level − RewardsBase) (non-participating: balance), the quantity AccountTotals.All() tracks",
                                 "block_conserves_partial covers the transaction groups of a block only: rewards withdrawal, proposer payout and the other endOfBlock steps are excluded from the theorem and watched by the monitor (Totals.All() at block end, sum at next block start)"])


def replay(ctx, path):
    common.std_replay(ctx, path, run)
