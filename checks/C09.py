"""C09 — the ledger recovers to a consistent prefix after a crash.

Ties:
 C  crash images of REAL on-disk SQLite ledgers.  harness/ledger/zz_verif_c09_test.go drives a real Ledger (OpenLedger with a
    file-backed prefix under t.TempDir()) through a generated history of real blocks (payments, closes, keyreg, assets, an
    app with boxes / global / local state) under a generated, fully serialised schedule of the two background goroutines:
      * blockQueue.syncer is stopped at hooks before its Wdb.Atomic, after the last BlockPut INSIDE the transaction (an
        injected error forces a rollback), after the Atomic returned, and after the BlockForgetBefore transaction.  These
        hooks live in an overlay COPY of ledger/blockqueue.go that is regenerated from the CURRENT source on every run
        by textual anchors (tie failure if an anchor is gone; /repo is never written);
      * every write transaction of the tracker DB is stopped before it starts, inside it right before
        AccountsWriter.UpdateAccountsRound (an injected error forces a rollback), and after it returned - by wrapping
        the trackerdb.Store / TransactionScope / AccountsWriterExt INTERFACES (no source change at all), so every tracker
        transaction of every tracker is seen, not only the one of trackerRegistry.commitRound.
    At every stop the database files of that store (with -wal / -shm) are copied = crash images, including images taken in
    the middle of an open transaction.  Afterwards every real-time-consistent pair (block image, tracker image) (and a few
    pairs with an OLDER tracker image) is reopened with OpenLedger; the harness prints the raw durable rounds (B, T), the
    recovered latest round, the block hashes, a digest of a full dump (accounts with all resources, creators, boxes,
    online data for every round, tx tail, totals) at the recovered latest, and continues the recovered ledger by one block.
 M  monitors on the implementation alone: latest = B; blocks 1..B are the added ones and B+1 is absent; every round the ledger
    ACKNOWLEDGED as durable before the crash instant (WaitForCommit returned, the channel of Ledger.Wait(r) closed - polled after
    every step, LatestCommitted's first component) is <= B with the same block (theorem ack_durable); the dump equals the dump of a FRESH ledger that simply replays
    blocks 1..B (implementation-vs-implementation oracle); the recovered ledger accepts block B+1 and then equals oracle[B+1].
 A  the proved acceptor (exe c09 = Model.Durable): every observed event must be an enabled step of the model, and the model's
    prediction of (B, T, confirmed, pair kind) for every crash image pair must equal what the harness measured.
"""
import json, os, re
import common, vf
import overlay as _ov

# (anchor text, replacement) - each anchor must occur exactly once inside `func (bq *blockQueue) syncer()`
ANCHORS = [
    ("err := bq.l.blockDBs.Wdb.Atomic(func(ctx context.Context, tx *sql.Tx) error {\n\t\t\tfor _, e := range workQ {",
     "verifC09BQ(bq, \"pre\", workQ, nil)\n\t\terr := bq.l.blockDBs.Wdb.Atomic(func(ctx context.Context, tx *sql.Tx) error {\n\t\t\tfor _, e := range workQ {"),
    ("err0 := blockdb.BlockPut(tx, e.block, e.cert)",
     "err0 := verifC09BlockPut(bq, tx, workQ, e.block, e.cert)"),
    ("ledgerSyncBlockputMicros.AddMicrosecondsSince(start, nil)",
     "ledgerSyncBlockputMicros.AddMicrosecondsSince(start, nil)\n\t\tverifC09BQ(bq, \"post\", workQ, err)"),
    ("minToSave := bq.l.notifyCommit(committed)",
     "verifC09Notify(bq, committed)\n\t\t\tminToSave := bq.l.notifyCommit(committed)"),
    ("ledgerSyncBlockforgetMicros.AddMicrosecondsSince(bfstart, nil)",
     "ledgerSyncBlockforgetMicros.AddMicrosecondsSince(bfstart, nil)\n\t\t\tverifC09BQ(bq, \"fpost\", nil, err)"),
]


def hooked_overlay(ctx):
    """overlay-c09.json = the shared overlay + a copy of the CURRENT ledger/blockqueue.go with the syncer hooks"""
    base = json.load(open(ctx.ovl))["Replace"]
    src = os.path.join(vf.REPO, "ledger", "blockqueue.go")
    txt = open(src).read()
    m = re.search(r"func \(bq \*blockQueue\) syncer\(\) \{.*?\n}\n", txt, re.S)
    hooked = False
    if not m:
        ctx.tie_failures.append("blockQueue.syncer not found in ledger/blockqueue.go: the block DB transaction boundaries cannot be observed")
    else:
        body = m.group(0)
        missing = [a for a, _ in ANCHORS if body.count(a) != 1]
        if missing:
            ctx.tie_failures.append("hook anchor(s) not found exactly once in blockQueue.syncer: %s" % " | ".join(a.splitlines()[0] for a in missing))
        else:
            for a, b in ANCHORS:
                body = body.replace(a, b)
            dst = os.path.join(vf.BUILD, "ovl-c09", "ledger", "blockqueue.go")
            _ov.write_if_changed(dst, txt[:m.start()] + body + txt[m.end():])
            base[src] = dst
            hooked = True
    path = os.path.join(vf.BUILD, "overlay-c09.json")
    _ov.write_if_changed(path, json.dumps({"Replace": base}, indent=1, sort_keys=True))
    ctx.ovl = path
    return hooked



# acceptor rules whose violation contradicts the property text itself (the others mean model / environment drift)
SAFETY = {"commit-past-lastCommitted", "confirmed-beyond-lastCommitted", "acknowledged-beyond-lastCommitted", "put-round", "flush-not-at-lastCommitted",
          "flush-beyond-queue", "notify-not-lastCommitted", "round-twice", "round-outside-txn", "post-dbRound-mismatch",
          "dbRound-changed-without-commit", "reload-rounds"}
EVENT_OPS = ("hist", "blk", "bq", "tr", "reload")


def events_of(op, res):
    """the observed events carried by the result line of a scheduling op"""
    k = op.split(" ", 1)[0]
    if k not in EVENT_OPS:
        return []
    evs = []
    for e in res.split(" ; "):
        e = e.strip()
        if k == "hist" and e.startswith("ok "):
            e = e[3:]
        if not e or e in ("-", "ok") or e.startswith(("ntx=", "RELOADERR", "LIVEERR", "SKIP")):
            continue
        evs.append(e)
    return evs


def fields(res):
    return dict(t.split("=", 1) for t in res.split() if "=" in t)


def monitor_open(f, res):
    """the property evaluated on what the reopened ledger shows; -> None | message"""
    if "PANIC" in res:
        return "OpenLedger / the recovered ledger panicked: " + res[:300]
    if "OPENERR" in res:
        return "OpenLedger failed on the crash image: " + res[:300]
    if res.startswith("RAWERR") or res == "NOIMAGE" or "latest" not in f:
        return "harness: " + res[:200]
    B, T, latest = int(f["B"]), int(f["T"]), int(f["latest"])
    if T > B:
        return "tracker DB round %d is ahead of the durable block round %d" % (T, B)
    if int(f.get("confirmed", 0)) > B:
        return ("round %s had been acknowledged as durable before the crash instant (WaitForCommit returned / the Ledger.Wait channel was closed / "
                "LatestCommitted), but the crash image holds only %d blocks" % (f["confirmed"], B))
    if latest != B:
        return "reopened ledger is at round %d, the block DB of the image holds %d" % (latest, B)
    if f["hashes"] != "ok":
        return "block %s of the reopened ledger is not the block that was added" % f["hashes"]
    if f["next"] != "absent":
        return "the reopened ledger has a block beyond its latest round"
    if f["dump"] != f["want"]:
        return "state of the reopened ledger at round %d differs from a fresh ledger replaying blocks 1..%d: %s" % (latest, latest, res.split("diff=", 1)[-1][:300])
    if "cpmark" in f and f["cpmark"] != "0/ok":
        return "after OpenLedger the catchpoint 'writing first stage info' marker is still set (recoverFromCrash did not finish the first stage): cpmark=%s" % f["cpmark"]
    if "cpfs" in f and f["cpfs"] == "false/true/ok":
        return "the tracker DB round %d is a catchpoint first-stage round but its first stage info is missing after recoverFromCrash" % T
    if f["cont"] not in ("ok", "end"):
        return "the reopened ledger does not continue correctly with block %d: %s" % (latest + 1, res.split("cont=", 1)[-1][:300])
    return None


def run(ctx, replay_ops=None):
    ctx.overlay()
    hooked = hooked_overlay(ctx)
    ctx.assumptions += [
        "SQLite's journalling is trusted: a transaction is applied entirely or not at all; a crash in the middle of a transaction is represented in the MODEL by the pre-image (the harness additionally copies the files while a transaction is open and reopens those copies, which exercises WAL recovery for a process crash, not for power loss / torn pages)",
        "a crash keeps each store at its state at the crash instant (transactions committed before the instant are durable: synchronous=FULL is trusted); additionally proved: the tracker store may be at any EARLIER boundary; a block store at an earlier boundary than the tracker store is not recoverable (block_lag_unsafe) and not claimed",
        "state is abstract: a tracker is (σ, apply : σ → block → σ); that the real trackers' commitRound writes exactly the deltas of rounds a+1..b is established by the replay-oracle comparison of full dumps, not by proof",
        "BlockForgetBefore (deletion of old blocks) is not modelled; the harness histories never reach it (fend 0 is checked)",
        "goroutine interleavings are serialised at transaction boundaries by the harness; every real-time-consistent pair of store states of such a schedule is reopened (sampled per version pair in the quick tier)",
    ]
    hz = {"pkg": "./ledger", "test": "TestVerifC09", "name": "c09"}
    proved = ctx.prove(["AlgoVerif.Props.C09"])
    ok, out = ctx.lean_build(["c09"])
    if not ok:
        raise RuntimeError("driver c09 does not build: " + out[-800:])
    ctx.cov["rule"] = ("a case = one crash image pair (block DB image, tracker DB image) of a generated history: 10-21 real blocks (quick) of 0-4 "
                       "transactions (pay / close / keyreg / asset create, opt-in, transfer, close, destroy / app create, fund, opt-in, close-out, delete, "
                       "box put+delete, global+local put, global delete; leases), MaxAcctLookback in {1,2,3,4,8}, under a generated serial schedule of "
                       "AddValidatedBlock bursts, syncer steps (pre / mid-transaction / post / after-forget), tracker committer steps (before the "
                       "transaction / before UpdateAccountsRound / after), injected failures inside both transactions, scheduleCommit time condition "
                       "on/off, optional reloadLedger.  evaluations = pairs reopened + events judged by the acceptor; a pair is non-trivial when B > 0; "
                       "distinct = distinct (history, B, T, image kinds)")
    if not hooked:
        return
    env = {"VERIF_C09_HOOKED": "1"}
    shm = "/dev/shm"
    if os.path.isdir(shm) and os.access(shm, os.W_OK):
        tmp = os.path.join(shm, "verif-c09-%d" % os.getpid())
        os.makedirs(tmp, exist_ok=True)
        env["TMPDIR"] = tmp          # t.TempDir() of the harness: SQLite files on tmpfs (the machine's disk is shared)
        env["GOTMPDIR"] = ctx.work
    if replay_ops is not None:
        rp = os.path.join(ctx.work, "c09.replay")
        open(rp, "w").write("\n".join(replay_ops) + "\n")
        env["VERIF_REPLAY"] = rp
    elif not (proved and not ctx.tie_failures):
        env["VERIF_BUDGET_SCALE"] = "300"
    try:
        rc, out = ctx.go_test(hz["pkg"], hz["test"], env=env, timeout=3000)
    finally:
        if "TMPDIR" in env:
            import shutil
            shutil.rmtree(env["TMPDIR"], ignore_errors=True)
    opsf, implf = os.path.join(ctx.work, "c09.ops"), os.path.join(ctx.work, "c09.impl")
    if rc != 0 or not os.path.exists(opsf):
        ctx.tie_failures.append("harness %s %s failed to run (rc=%d): %s" % (hz["pkg"], hz["test"], rc, out[-800:]))
        if not os.path.exists(opsf):
            return
    ops, impl = ctx.read_lines(opsf), ctx.read_lines(implf)
    if ops and ops[0] == "nohooks":
        ctx.tie_failures.append("the harness ran without the syncer hooks")
        return

    # --- split into histories, build the acceptor trace
    hists = []          # dict(ops=[(op,res)], opens=[(op,res)])
    for op, res in zip(ops, impl):
        if op.startswith("hist "):
            hists.append({"ops": [], "opens": []})
        if not hists:
            continue
        if op.startswith("open "):
            hists[-1]["opens"].append((op, res))
        else:
            hists[-1]["ops"].append((op, res))
    tf, of = os.path.join(ctx.work, "c09.trace"), os.path.join(ctx.work, "c09.model.out")
    index = []          # per trace line: (history index, kind, payload)
    with open(tf, "w") as f:
        for hi, h in enumerate(hists):
            f.write("reset\n"); index.append((hi, "reset", None))
            for oi, (op, res) in enumerate(h["ops"]):
                if "HANG" in res or res.startswith("PANIC"):
                    ctx.tie_failures.append("harness: %s -> %s" % (op[:100], res[:200]))
                if "RELOADERR" in res:
                    h["reloaderr"] = True
                    ctx.violation("monitor: reloadLedger of a quiescent ledger (a clean restart: nothing in flight, nothing lost) failed: " + res.split("RELOADERR", 1)[1][:300],
                                  {"kind": "monitor", "ops": [o for o, _ in h["ops"][:oi + 1]] + ["end"], "impl_out": res, "harness": hz}, found_input=True)
                if res.startswith("LIVEERR") and not h.get("reloaderr"):
                    ctx.tie_failures.append("harness: the live ledger refused a generated block: " + res[:300])
                for e in events_of(op, res):
                    f.write(e + "\n"); index.append((hi, "ev", (oi, e)))
            for pi, (op, res) in enumerate(h["opens"]):
                f.write(op + "\n"); index.append((hi, "open", pi))
    verdicts = []
    if ctx.driver("c09", [], tf, of) != 0:
        ctx.tie_failures.append("driver c09 failed")
    else:
        verdicts = ctx.read_lines(of)
        if len(verdicts) != len(index):
            ctx.tie_failures.append("driver c09 answered %d lines for %d" % (len(verdicts), len(index)))
            verdicts = []

    dist = ctx.cov["distribution"]
    def bump(k, n=1):
        dist[k] = dist.get(k, 0) + n
    distinct = set()
    reported = 0

    def replay_of(h, upto_op=None, open_op=None):
        ro = [op for op, _ in h["ops"]]
        if open_op:
            ro.append(open_op)
        return ro

    # --- acceptor verdicts on events
    rejected = {}
    for (hi, kind, pay), v in zip(index, verdicts):
        if kind != "ev":
            continue
        ctx.cov["evaluations"] += 1
        bump("ev:" + pay[1].split()[0] + (":" + pay[1].split()[1] if pay[1].split()[0] in ("bend", "tend") else ""))
        if v != "ok" and hi not in rejected:
            rejected[hi] = (pay, v)
    # --- pairs
    mon_hits, mismatches = [], []
    vi = {}
    for li, (hi, kind, pay) in enumerate(index):
        if kind == "open" and verdicts:
            vi[(hi, pay)] = verdicts[li]
    for hi, h in enumerate(hists):
        for pi, (op, res) in enumerate(h["opens"]):
            ctx.cov["evaluations"] += 1
            f = fields(res)
            want_kind = fields(op).get("kind", "?")
            bump("pairs:" + want_kind)
            if f.get("bmid") == "true":
                bump("pairs_with_block_image_inside_open_txn")
            if f.get("tmid") == "true":
                bump("pairs_with_tracker_image_inside_open_txn")
            hit = monitor_open(f, res)
            mv = vi.get((hi, pi))
            mf = fields(mv) if mv and not mv.startswith("reject") else None
            if mf is not None and hit is None and "B" in f:
                if int(mf["conf"]) > int(f["B"]):
                    hit = "WaitForCommit(%s) had returned before the crash instant, but the crash image holds only %s blocks" % (mf["conf"], f["B"])
            if hit:
                mon_hits.append((hi, op, res, hit))
            if "B" in f and int(f["B"]) > 0:
                distinct.add((hi, f.get("B"), f.get("T"), f.get("bmid"), f.get("tmid")))
            if mv is None:
                continue
            if mf is None:
                ctx.tie_failures.append("the model does not know the image pair of `%s`: %s" % (op, mv))
                continue
            if mf["kind"] != want_kind:
                ctx.tie_failures.append("pair `%s`: the harness calls it %s, the model %s" % (op, want_kind, mf["kind"]))
            if "B" in f and (mf["B"], mf["T"]) != (f["B"], f["T"]):
                mismatches.append((hi, op, res, mv, bool(hit)))
            elif "B" in f and mf["state"] != mf["B"]:
                ctx.tie_failures.append("model: openLedger applied %s blocks for B=%s" % (mf["state"], mf["B"]))
    for hi, op, res, hit in mon_hits[:4]:
        ctx.violation("monitor: " + hit, {"kind": "monitor", "ops": replay_of(hists[hi], open_op=op), "pair": op, "impl_out": res, "harness": hz},
                      found_input=not hit.startswith("harness:"))
    if len(mon_hits) > 4:
        ctx.notes.append("%d further monitor hits suppressed" % (len(mon_hits) - 4))
    for hi, op, res, mv, hit in sorted(mismatches, key=lambda m: not m[4])[:3]:
        ctx.violation("the durable rounds of the crash image differ from the model's prediction: impl %s, model %s" % (res[:40], mv),
                      {"kind": "correspondence", "ops": replay_of(hists[hi], open_op=op), "pair": op, "impl_out": res, "model_out": mv, "harness": hz},
                      found_input=hit)
    for hi, (pay, v) in sorted(rejected.items())[:3]:
        rule = v.split(" ", 1)[1] if " " in v else v
        bump("reject:" + rule)
        oi, e = pay
        h = hists[hi]
        has_hit = any(m[0] == hi for m in mon_hits)
        ctx.violation("the proved acceptor rejects the implementation's event `%s` (op %d `%s`): rule %s" % (e, oi, h["ops"][oi][0][:80], rule),
                      {"kind": "acceptor", "rule": rule, "ops": replay_of(h), "event": e, "harness": hz},
                      found_input=(rule in SAFETY) or has_hit)
    ctx.cov["distinct_nontrivial"] += len(distinct)
    bump("histories", len(hists))
    bump("blocks", sum(1 for h in hists for op, _ in h["ops"] if op.startswith("blk")))
    bump("txns_applied", sum(int(fields(res).get("ntx", 0)) for h in hists for op, res in h["ops"] if op.startswith("blk")))
    bump("injected_failures", sum(1 for h in hists for op, _ in h["ops"] if op in ("failput", "failround")))
    bump("reloads", sum(1 for h in hists for op, _ in h["ops"] if op == "reload"))
    bump("acceptor_rejections", len(rejected))
    bump("monitor_hits", len(mon_hits))
    dist["syncer_hooks_installed"] = hooked
    import random
    rnd = random.Random(ctx.seed)
    allopen = [(op, res) for h in hists for op, res in h["opens"]]
    for op, res in rnd.sample(allopen, min(5, len(allopen))):
        ctx.cov["samples"].append((op + " => " + res)[:400])
    if hists and not any(k.startswith("ev:tend") for k in dist):
        ctx.tie_failures.append("no tracker DB transaction was observed: the trackerdb.Store wrapper is not in the path")
    if hists and not dist.get("ev:bmid"):
        ctx.tie_failures.append("the syncer hooks never fired")


def replay(ctx, path):
    r = json.load(open(path))
    run(ctx, replay_ops=r.get("ops"))


if __name__ == "__main__":
    class _C:
        tie_failures = []
        ovl = _ov.build_overlay()
    c = _C()
    print(hooked_overlay(c), c.ovl, c.tie_failures)
