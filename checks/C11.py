"""C11 — a committed transaction cannot be committed again while valid; an active lease excludes other transactions;
both across ledger restarts.

Tie C (stateful line protocol): REAL in-memory ledgers on consensus versions with a small MaxTxnLife, real signed payment
transactions with overlapping validity windows and leases, blocks built by the real BlockEvaluator and added through
Validate / AddValidatedBlock, real Ledger.CheckDup / TestTransactionGroup / TransactionGroup queries, synchronous tracker
flushes and reloadLedger at arbitrary rounds — against the proved model (Model.TxTail: txTail.newBlock / committedUpTo /
loadFromDisk / checkDup, the cow layers' checkDup / addTx / commitToParent, the persisted tail) over the same op lines.

Monitor on the implementation alone (independent python bookkeeping of the block history, no tail, no pruning): a
well-formed, alive transaction is rejected (TransactionInLedgerError or LeaseInLedgerError) by the evaluator and by
Ledger.CheckDup(current = latest+1) iff it is already in the block being built / in an earlier block, or another
transaction holds its (sender, lease) in the block being built or in an earlier block with lastValid >= current
(FixTransactionLeases versions) — before and after every reload; blocks contain exactly the accepted transactions and
no block is lost by a reload.
"""
import os
import common

NAME, PKG, TEST = "c11", "./ledger", "TestVerifC11"
FIXED_KEY = {"kind": "reload-drops-tail-at-dbround-1"}


def kv(fields):
    d = {}
    for t in fields:
        if "=" in t:
            k, v = t.split("=", 1)
            try:
                d[k] = int(v)
            except ValueError:
                d[k] = v
    return d


class Tx:
    __slots__ = ("ident", "id", "snd", "fv", "lv", "lease")

    def __init__(self, tok, comp):
        p = [int(x) for x in tok.split("/")]
        self.id, self.snd, self.fv, self.lv, self.lease = p
        # identity of the signed transaction: in a group the txid also covers the group id (= hash of the composition)
        self.ident = tok if len(comp) == 1 else tok + "|" + " ".join(comp)


def cat(res):
    """implementation answer -> category"""
    if res == "ok":
        return "ok"
    if res.startswith("txdup:") or res.startswith("lease:"):
        return "dup"
    if res.startswith("dead:"):
        return "dead"
    if res == "malformed":
        return "malformed"
    return "bad"


class Monitor:
    """the property evaluated on the implementation's answers alone; one instance per case"""

    def __init__(self, f):
        p = kv(f)
        self.life, self.fix, self.sup = p.get("life", 0), p.get("fix", 1), p.get("sup", 1)
        self.latest = 0
        self.committed = {}        # ident -> (round, Tx)
        self.leases = []           # (key, lv, ident) of every committed transaction with a lease
        self.ev = None             # round of the running evaluator
        self.pending = []          # Tx accepted by the running evaluator
        self.counts = {"inwindow_q": 0, "dup_expected": 0, "lease_expected": 0, "ok_expected": 0, "dead_or_malformed": 0, "unpinned": 0}

    def wellformed(self, t):
        return t.lv >= t.fv and t.lv - t.fv <= self.life and (self.sup or t.lease == 0)

    def expect_one(self, t, cur, block):
        """expected category of checking transaction t for round cur against the history plus the transactions `block`
        already in the block being built; None = the property does not pin it (pre-FixTransactionLeases lease scan)"""
        if cur < t.fv or cur > t.lv:
            return "dead", ""
        if any(b.ident == t.ident for b in block):
            return "dup", "it is already in the block being built"
        if t.ident in self.committed:
            return "dup", "it was committed in round %d and is valid until %d" % (self.committed[t.ident][0], t.lv)
        if self.sup and t.lease != 0:
            key = (t.snd, t.lease)
            if any((b.snd, b.lease) == key for b in block):
                return "dup", "its lease is taken by a transaction of the block being built"
            holders = [(lv, i) for (k, lv, i) in self.leases if k == key and lv >= cur]
            if holders:
                if not self.fix:
                    return None, ""
                return "dup", "its lease (sender %d, lease %d) is held until round %d" % (t.snd, t.lease, max(holders)[0])
        return "ok", ""

    def judge(self, what, exp, why, res):
        got = cat(res)
        if got == "bad":
            return "%s: unexpected answer %s" % (what, res[:100])
        if exp is None:
            self.counts["unpinned"] += 1
            return None
        if exp == "dup" and got == "ok":
            return "%s was ACCEPTED although %s" % (what, why)
        if exp == "ok" and got == "dup":
            return "%s was rejected (%s) although it is not in the ledger and no other transaction holds its lease" % (what, res)
        if exp != got:
            return "%s: answered %s, the block history says %s" % (what, res, exp)
        return None

    def step(self, op, res):
        f = op.split()
        k = f[0]
        if res.startswith("skipped"):
            return None
        if res.startswith("PANIC") or res.startswith("bad-op") or res.startswith("other"):
            return "hard failure: %s -> %s" % (op[:80], res[:160])
        if k == "begin":
            self.ev, self.pending = self.latest + 1, []
            if res != "r=%d" % self.ev:
                return "evaluator started for %s, expected round %d" % (res, self.ev)
        elif k == "abort":
            self.ev, self.pending = None, []
        elif k in ("add", "test"):
            comp = f[1:]
            txs = [Tx(tok, comp) for tok in comp]
            if not all(self.wellformed(t) for t in txs):
                self.counts["dead_or_malformed"] += 1
                return self.judge(op, "malformed", "", res)
            exp, why, block = "ok", "", list(self.pending)
            for t in txs:
                e, w = self.expect_one(t, self.ev, block)
                if e != "ok":
                    exp, why = e, w
                    break
                if k == "add":          # TestTransactionGroup checks every member against eval.state only
                    block.append(t)
            self.counts[{"dup": "dup_expected", "ok": "ok_expected", "dead": "dead_or_malformed"}.get(exp, "unpinned")] += 1
            if exp is None:
                self.counts["unpinned"] -= 1      # judge() counts it
            hit = self.judge("transaction group `%s` in round %d" % (" ".join(comp), self.ev), exp, why, res)
            if k == "add" and res == "ok":
                self.pending += txs     # what the implementation accepted goes into the block
            return hit
        elif k == "end":
            r = kv(res.split())
            if r.get("r") != self.ev or r.get("n") != len(self.pending):
                return "block %s: expected round %s with %d transactions" % (res, self.ev, len(self.pending))
            for t in self.pending:
                # the property itself, on what was really committed
                if t.ident in self.committed and self.ev <= t.lv:
                    return "transaction %s committed in round %d AND in round %d (lastValid %d)" % (t.ident, self.committed[t.ident][0], self.ev, t.lv)
                self.committed[t.ident] = (self.ev, t)
                if t.lease != 0:
                    self.leases.append(((t.snd, t.lease), t.lv, t.ident))
            self.latest, self.ev, self.pending = self.ev, None, []
        elif k == "q":
            p = kv(f[1:3])
            comp = f[3:]
            t = Tx(comp[p["i"]], comp)
            cur = p["cur"]
            if cur == self.latest + 1 and self.wellformed(t) and t.fv <= cur <= t.lv:
                self.counts["inwindow_q"] += 1
                exp, why = self.expect_one(t, cur, [])
                if exp == "dup" and "lease" in why:
                    self.counts["lease_expected"] += 1
                return self.judge("Ledger.CheckDup(current=%d) of %s" % (cur, t.ident), exp, why, res)
            if res not in ("ok", "txdup:tail", "lease:tail", "missing"):
                return "Ledger.CheckDup answered %s" % res[:100]
        elif k == "reload":
            r = kv(res.split())
            self.ev, self.pending = None, []
            if r.get("latest") != self.latest:
                return "after the reload the ledger is at round %s, %d blocks were added" % (r.get("latest"), self.latest)
        elif k == "commit":
            if not res.startswith("db="):
                return "tracker flush failed: " + res[:100]
        return None


def pinned(op, mon):
    """is the implementation's answer to this op pinned by the theorems (a function of the block history)?"""
    f = op.split()
    if f[0] in ("add", "test", "begin"):
        return True
    if f[0] == "q":
        p = kv(f[1:3])
        comp = f[3:]
        if p.get("cur") != mon.latest + 1 or not (0 <= p.get("i", -1) < len(comp)):
            return False
        t = Tx(comp[p["i"]], comp)
        return mon.wellformed(t) and t.fv <= p["cur"] <= t.lv      # checkDup_history: well formed and alive in the next round
    return False


def one_run(ctx, env, ops_in, label):
    e = dict(env)
    if ops_in is not None:
        rp = os.path.join(ctx.work, "%s.%s.replay" % (NAME, label))
        open(rp, "w").write("\n".join(ops_in) + "\n")
        e["VERIF_REPLAY"] = rp
    rc, out = ctx.go_test(PKG, TEST, env=e, timeout=3000)
    opsf, implf = os.path.join(ctx.work, NAME + ".ops"), os.path.join(ctx.work, NAME + ".impl")
    if rc != 0 or not os.path.exists(opsf):
        ctx.tie_failures.append("harness %s %s failed to run (rc=%d): %s" % (PKG, TEST, rc, out[-600:]))
        return
    ops, impl = ctx.read_lines(opsf), ctx.read_lines(implf)
    mf = os.path.join(ctx.work, "%s.%s.model.out" % (NAME, label))
    if ctx.driver("c11", [], opsf, mf) != 0:
        ctx.tie_failures.append("driver c11 failed")
        return
    model = ctx.read_lines(mf)
    if not (len(ops) == len(impl) == len(model)):
        ctx.tie_failures.append("line counts differ: ops %d impl %d model %d" % (len(ops), len(impl), len(model)))
        return
    harness = {"pkg": PKG, "test": TEST, "name": NAME}
    dist = ctx.cov["distribution"]
    ctx.cov["evaluations"] += len(ops)
    mon, start, diverged, hitcase = None, 0, False, False
    reload_at_single_row = False
    case_info = None
    ncases = nontrivial = 0
    reported = 0
    seen_cases = ctx.cov.setdefault("_seen", set())

    def close_case(end):
        nonlocal nontrivial
        if mon is None:
            return
        for key, v in mon.counts.items():
            dist["monitor:" + key] = dist.get("monitor:" + key, 0) + v
        text = "\n".join(ops[start:end])
        h = hash(text)
        if h in seen_cases:
            return
        seen_cases.add(h)
        c = case_info
        # non-trivial: some transaction was committed, a duplicate or a lease conflict was in play, and the ledger was
        # flushed or restarted while something was still in its window
        if c["committed"] and (c["dups"] or c["leases"]) and (c["reloads"] or c["commits"]):
            nontrivial += 1
            if len(ctx.cov["samples"]) < 6 and (nontrivial % 17 == 1):
                ctx.cov["samples"].append(" ; ".join(ops[start:end])[:600])

    for i, (op, a, b) in enumerate(zip(ops, impl, model)):
        f = op.split()
        if not f:
            continue
        k = f[0]
        dist[k] = dist.get(k, 0) + 1
        if k == "facts":
            for part in a.split(";"):
                w = part.split()
                p = kv(w[1:]) if w else {}
                dist["facts:" + part.strip()] = 1
                if w and w[0].startswith("lvcap="):
                    continue      # growth constant of loadFromDisk's lists: sizes the generator's fat-LastValid stream
                if not w or p.get("fix") != 1 or p.get("sup") != 1 or p.get("life", 0) < 1:
                    ctx.tie_failures.append("consensus version `%s` no longer has SupportTransactionLeases and FixTransactionLeases (hypotheses of lease_exclusive): %s" % (w[0] if w else "?", part.strip()))
            continue
        if k == "reset":
            close_case(i)
            ncases += 1
            mon, start, diverged, hitcase, reload_at_single_row = Monitor(f[1:]), i, False, False, False
            case_info = {"committed": 0, "dups": 0, "leases": 0, "reloads": 0, "commits": 0}
            p = kv(f[1:])
            for key in ("life", "fix", "sup", "dh", "lb"):
                dk = "%s=%s" % (key, p.get(key))
                dist[dk] = dist.get(dk, 0) + 1
            if a != "ok":
                ctx.tie_failures.append("ledger could not be created: %s -> %s" % (op, a[:200]))
            continue
        if mon is None:
            continue
        dk = None
        if k in ("add", "test", "q"):
            dk = k + ":" + a.split()[0]
            dist[dk] = dist.get(dk, 0) + 1
            if a.startswith("txdup"):
                case_info["dups"] += 1
            if a.startswith("lease"):
                case_info["leases"] += 1
        if k == "end" and " n=0" not in a:
            case_info["committed"] += 1
        if k == "reload":
            case_info["reloads"] += 1
            r = kv(a.split())
            if r.get("db") == r.get("lo") and r.get("db", 0) > 0:
                reload_at_single_row = True
                dist["reload:single-row"] = dist.get("reload:single-row", 0) + 1
        if k == "commit":
            case_info["commits"] += 1
        pin = pinned(op, mon)
        hit = mon.step(op, a)
        mk = FIXED_KEY if reload_at_single_row else None
        if hit and not hitcase:
            hitcase = True
            if reported < 4:
                reported += 1
                ctx.violation("monitor: " + hit, {"kind": "monitor", "ops": ops[start:i + 1], "index": i - start, "impl_out": a,
                                                  "model_out": b, "harness": harness}, found_input=True, match_key=mk)
        if a != b and not diverged:
            diverged = True
            if not hit and reported < 4:
                reported += 1
                ctx.violation("real ledger and Model.TxTail disagree on `%s`: implementation %s, model %s%s" %
                              (op[:120], a[:80], b[:80], "" if pin else " (answer depends on the tail's pruning state only; not pinned by the property)"),
                              {"kind": "correspondence", "ops": ops[start:i + 1], "index": i - start, "impl_out": a, "model_out": b,
                               "harness": harness}, found_input=pin, match_key=mk)
    close_case(len(ops))
    ctx.cov["distinct_nontrivial"] += nontrivial
    dist["cases"] = dist.get("cases", 0) + ncases


def corpus_ops():
    cdir = os.path.join(os.path.dirname(os.path.dirname(os.path.abspath(__file__))), "corpus", "C11")
    out = []
    if os.path.isdir(cdir):
        for fn in sorted(os.listdir(cdir)):
            if fn.endswith(".ops"):
                out += [l for l in open(os.path.join(cdir, fn)).read().splitlines() if l.strip()]
    return out


def run(ctx, replay_ops=None):
    ctx.overlay()
    ctx.assumptions += [
        "txid is modelled as an abstract identifier: equal transactions have equal txids by construction; distinct transactions have distinct txids (collision resistance of SHA-512/256) — the `_txid` variants of the theorems take `txid determines lastValid` as an explicit hypothesis",
        "validity windows are at most MaxTxnLife and a block only contains transactions alive in its round (WellFormed / Alive, modelled; established for every block accepted by the model evaluator)",
        "one consensus version per history (no protocol upgrade changing MaxTxnLife / lease rules inside a window)",
        "a restart happens after the block queue has written the latest block (the harness waits for it); blocks still queued at a crash are lost as a whole and leave an earlier state of the same history",
        "lease_exclusive assumes SupportTransactionLeases and FixTransactionLeases (every consensus version since v23); the pre-fix scan [firstValid,lastValid] is modelled and tied but not claimed exclusive",
        "tracker flush = accountUpdates.produceCommittingTask's newBase = committed - MaxAcctLookback followed by txTail.commitRound; catchpoint-driven commit ranges are not modelled",
    ]
    proved = ctx.prove(["AlgoVerif.Props.C11"])
    okb, out = ctx.lean_build(["c11"])
    if not okb:
        raise RuntimeError("driver c11 does not build: " + out[-800:])
    env = {}
    if not proved:
        env["VERIF_BUDGET_SCALE"] = "1000" if ctx.tier == "quick" else "300"
    ctx.cov["rule"] = ("a case = one real ledger (`reset` with MaxTxnLife in 1..8, FixTransactionLeases / SupportTransactionLeases, DeeperBlockHeaderHistory 0..2, "
                       "MaxAcctLookback 1..8) driven for 2*life+4 .. 4*life+12 rounds: per round 0-5 transactions/groups submitted to the real evaluator (fresh ones with boundary-heavy "
                       "windows, re-submissions of committed / pending / rejected ones, competitors for held leases, groups with repeated members or a shared lease, dead and over-long windows), "
                       "after every block and every reload a sweep of Ledger.CheckDup over all committed transactions and leases still in window (and just out of it), tracker flushes and "
                       "reloads at random rounds. Non-trivial = something was committed, at least one duplicate / lease rejection occurred and the ledger was flushed or reloaded; distinct = distinct op sequences. "
                       "The corpus (reload with exactly one persisted tail round, MaxTxnLife 4 and 1000) runs first; then the fat-LastValid stream: k transactions sharing one LastValid "
                       "(a third of them holding a lease each) for k around every growth threshold c-1, c, c+1, 2c-1, 2c, 2c+1, 4c+1 (more in thorough) of loadFromDisk's hand-grown per-LastValid lists "
                       "(c = initialLastValidArrayLen read from the code), in one or three rounds, flushed, restarted twice, with the transactions at the thresholds / both ends / random positions re-submitted to "
                       "Ledger.CheckDup and to the evaluator in every remaining round of their window.")
    if replay_ops is not None:
        one_run(ctx, env, replay_ops, "replay")
    else:
        cops = corpus_ops()
        if cops:
            one_run(ctx, {}, cops, "corpus")
        one_run(ctx, env, None, "random")
    ctx.cov.pop("_seen", None)


def replay(ctx, path):
    common.std_replay(ctx, path, run)
