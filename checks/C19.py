"""C19 — transaction groups apply atomically.
Tie C: shared LedgerCore harness, profile c19 (60% multi-member groups, the failing member and the failure kind vary), vs
Model.LedgerCore; monitor on the implementation's outputs alone: after a failing TransactionGroup the full dump of the
evaluator-visible state (all accounts, asset params/holdings/creators, fees collected, txn counter, block space charged = blockTxBytes) and the payset length equal
those before it; after a successful one the payset and the txn counter grow by exactly the group's size."""
import common, lcore


def monitor(case):
    for idx, kind, op, out, st in lcore.walk(case):
        if kind == "group":
            prev, cur = st["prev"], st["cur"]
            n = len(lcore.parse_group(op))
            if st["cls"] != "ok":
                if cur.raw != prev.raw:
                    a, b = lcore.first_diff(prev.raw, cur.raw)
                    return idx, "a failed group (%s) changed the evaluator state: %s → %s" % (st["cls"], a, b)
            else:
                if cur.payset != prev.payset + n:
                    return idx, "payset grew by %d for an accepted group of %d" % (cur.payset - prev.payset, n)
                if cur.ctr != prev.ctr + n:
                    return idx, "txn counter grew by %d for an accepted group of %d" % (cur.ctr - prev.ctr, n)
                g = lcore.parse_group(op)
                paid = sum(int(t[2]) for t in g if int(t[1]) != st["sink"])
                if (cur.fees - prev.fees) % lcore.M64 != paid % lcore.M64:
                    return idx, "feesCollected grew by %d but the accepted group's members paid %d (leak from an earlier, rejected group?)" % (cur.fees - prev.fees, paid)
                # frame: an accepted group changes only accounts / assets its members name (effects of earlier, rejected groups must not surface)
                named, assets = {st["sink"]}, set()
                for t in g:
                    named.add(int(t[1]))
                    if t[0] == "pay":
                        named |= {int(t[7]), int(t[9])}
                    elif t[0] == "axfer":
                        named |= {int(t[9]), int(t[10]), int(t[11])}
                        assets.add(int(t[7]))
                    elif t[0] == "afrz":
                        named.add(int(t[8])); assets.add(int(t[7]))
                    elif t[0] == "acfg":
                        a = int(t[7])
                        assets.add(a)
                        if a in prev.creator and prev.creator[a].isdigit():
                            named.add(int(prev.creator[a]))
                for a, rec in cur.acct.items():
                    if a not in named and prev.acct.get(a) != rec:
                        return idx, "account %d changed in an accepted group that does not name it" % a
                created = set(range(prev.ctr + 1, cur.ctr + 1))
                for key in set(prev.hold) | set(cur.hold):
                    if key[0] not in assets and key[0] not in created and prev.hold.get(key) != cur.hold.get(key):
                        return idx, "holding of asset %d in account %d changed in an accepted group that does not name the asset" % key
        elif kind == "dump":
            if st["prev"] is not None and out != st["prev"].raw:
                a, b = lcore.first_diff(st["prev"].raw, out)
                return idx, "the state read twice without a group in between differs: %s vs %s" % (a, b)
        elif kind == "endblock":
            if not out.startswith("end "):
                return idx, "a block built only from accepted groups is rejected by the real GenerateBlock / Validate (a rejected group left a trace, e.g. in the header Load): " + out[:160]
        elif kind == "garbled":
            return idx, "unparseable harness output " + out[:120]
    return None


def run(ctx, replay_ops=None):
    lcore.run(ctx, "C19", "c19", "AlgoVerif.Props.C19", monitor,
              rule=("cases as in C18; profile c19 = 60% groups of 2..17 members; in 70% of them one position (uniform) holds a generated, often failing transaction (overspend, below min balance, "
                    "frozen / not opted-in / unknown asset, dead window, malformed, duplicate of a committed or of a sibling transaction) while the other members are valid payments, so partial effects "
                    "exist before the failure; group-id defects (zero id in a multi-member group, inconsistent ids, wrong hash), fee shortfall with pooling, oversized groups; failing and succeeding groups "
                    "alternate on the same evaluator (recycled child cows); a block-space stream (40% of c19 cases, 8% elsewhere): the evaluator is started with MaxTxnBytesPerBlock ∈ {700, 1500, 3000}; blocks fill up and groups are rejected with ErrNoSpace at arbitrary member positions; when < 900 bytes remain, groups of payments sized byte-exactly (note padding) to the remaining space + 1 (ErrNoSpace at the last member / at member k of a longer group), − 1 and exactly (accepted, block full), then one more; the bytes charged (blockTxBytes) are part of every dump and the header Load + Ledger.Validate of the generated block are checked at the end of every block; a directed 'written earlier in this block, then written again by a group that FAILS' stream (18% of groups + forced after an asset created in the block): random orders of {asset reconfigure by the manager, transfer / freeze / clawback rewriting the creator's holding, payments and keyregs of accounts touched earlier} x {overspending or dead member at any position, wrong group hash, fee shortfall, none} x {asset created earlier in this block, holding touched earlier in this block, untouched} — parent/child record aliasing shows only there; evaluations = groups tried; distinct = distinct non-empty group op lines"),
              replay_ops=replay_ops,
              extra_assumptions=["the corruptedState guard (a panic recovered in the middle of commitToParent) is not modelled: commitToParent of the model is total",
                                 "aliasing of Go maps / pooled child cows is visible to the tie and the monitor only"])


def replay(ctx, path):
    common.std_replay(ctx, path, run)
