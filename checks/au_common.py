"""Shared by C08 and C10: runs the `au` harness (harness/ledger/zz_verif_au_test.go) on the real trackers, runs the Lean
driver `au` in both modes (spec = history oracle, model = code-shaped Model.AcctUpdates) and compares line by line.
A replay file carries the whole case (from its `reset` line) up to the offending op."""
import os, re

PKG, TEST, NAME = "./ledger", "TestVerifAu", "au"
HARNESS = {"pkg": PKG, "test": TEST, "name": NAME}
NASSET = 5       # creatable ids 1..5 are assets, 6..8 apps (harness convention)


def kv(line):
    d = {}
    for t in line.split():
        if "=" in t:
            k, v = t.split("=", 1)
            d[k] = v
    return d


def strip_vt(s):
    return re.sub(r" vt(max)?=\d+", "", s)


def case_starts(ops):
    start, cur = [], 0
    for i, op in enumerate(ops):
        if op.startswith("reset"):
            cur = i
        start.append(cur)
    return start


def wrong_type_query(op):
    f = op.split()
    if len(f) >= 6 and f[0] == "q" and f[1] == "res":
        return (int(f[4]) <= NASSET) != (f[5] == "S")
    return False


class Run:
    pass


def _items(s):
    return [] if s in ("-", "") else s.split(",")


def _kv_bytes(items):
    return sum(len(k) // 2 + (0 if v in ("-", "_") else len(v) // 2) for k, v in (x.split("=") for x in items))


def kv_live_check(op, a, s):
    """box pages against the oracle's live list (sorted, after the cursor): every page is a non-empty prefix of what is left, within
    its limit and byte cap (a single item may exceed the cap), moreData iff something is left; an iteration returns the whole list"""
    d = kv(op)
    live = _items(s.split(" ", 2)[2] if len(s.split(" ", 2)) > 2 else "-")
    maxb = int(d["maxb"])
    if not a.startswith("ok"):
        return "box page failed (%s) where the history has an answer" % a[:60]
    if op.startswith("page"):
        f = a.split(" ", 3)
        if f[1] != "r=" + d["r"]:
            return "box page answers for round %s, asked %s" % (f[1], d["r"])
        pages, more, limits = [_items(f[3] if len(f) > 3 else "-")], f[2] == "more=true", [int(d["limit"])]
    else:
        pages, more, limits = [_items(p) for p in a[3:].split("|")], False, [int(x) for x in d["limits"].split(",")]
    pos = 0
    for pi, page in enumerate(pages):
        limit = limits[pi % len(limits)]
        if page != live[pos:pos + len(page)]:
            return "page %d is not the next stretch of the sorted live list (skipped, repeated or wrong element/value)" % pi
        if not page and live[pos:]:
            return "page %d is empty although %d boxes are left" % (pi, len(live) - pos)
        if limit > 0 and len(page) > limit:
            return "page %d holds %d items, limit %d" % (pi, len(page), limit)
        if len(page) > 1 and _kv_bytes(page) > maxb:
            return "page %d holds %d bytes in %d items, cap %d" % (pi, _kv_bytes(page), len(page), maxb)
        pos += len(page)
    if op.startswith("page"):
        if more != (pos < len(live)):
            return "moreData=%s but %d boxes are left after the page" % (more, len(live) - pos)
    elif pos != len(live):
        return "the iteration ended after %d of %d boxes" % (pos, len(live))
    return None


def run_au(ctx, profile, env, replay_ops):
    """returns Run(ops, impl, spec, model, start) or None (tie failure recorded)"""
    e = dict(env)
    e["VERIF_PROFILE"] = profile
    if replay_ops is not None:
        rp = os.path.join(ctx.work, NAME + ".replay")
        open(rp, "w").write("\n".join(replay_ops) + "\n")
        e["VERIF_REPLAY"] = rp
    rc, out = ctx.go_test(PKG, TEST, env=e, timeout=3000)
    opsf, implf = os.path.join(ctx.work, NAME + ".ops"), os.path.join(ctx.work, NAME + ".impl")
    if rc != 0 or not os.path.exists(opsf):
        ctx.tie_failures.append("harness %s %s failed to run (rc=%d): %s" % (PKG, TEST, rc, out[-600:]))
        return None
    r = Run()
    r.ops, r.impl = ctx.read_lines(opsf), ctx.read_lines(implf)
    r.start = case_starts(r.ops)
    outs = {}
    for mode in ("spec", "model"):
        mf = os.path.join(ctx.work, "%s.%s.out" % (NAME, mode))
        drc = ctx.driver("au", [mode], opsf, mf)
        if drc != 0:
            ctx.tie_failures.append("driver au %s failed rc=%d" % (mode, drc))
            return None
        outs[mode] = ctx.read_lines(mf)
        if len(outs[mode]) != len(r.ops):
            ctx.tie_failures.append("driver au %s produced %d lines for %d ops" % (mode, len(outs[mode]), len(r.ops)))
            return None
    r.spec, r.model = outs["spec"], outs["model"]
    return r


def db_rounds(run):
    """tracker DB round of the implementation before each op (from the implementation's own commit / reload outputs)"""
    db, cur = [], 0
    for op, a in zip(run.ops, run.impl):
        if op.startswith("reset"):
            cur = 0
        db.append(cur)
        m = re.match(r"ok db=(\d+)", a)
        if m and (op.startswith("commit") or op.startswith("reload")):
            cur = int(m.group(1))
    return db


def compare(ctx, run, want, what_spec, what_model, max_cases=5):
    """Compare the implementation with both drivers on the ops selected by want(op).
    spec lines: value equality (validThrough must lie in [r, vtmax]); `err before-db` is legitimate exactly below the
    implementation's own DB round. model lines: exact. A wrong-creatable-type resource query may answer `err wrong-type`
    or the empty resource depending on cache / flush state (recorded, not compared)."""
    db = db_rounds(run)
    seen_cases, nbad, nwrong = set(), 0, 0
    for i, (op, a, s, m) in enumerate(zip(run.ops, run.impl, run.spec, run.model)):
        if not want(op):
            continue
        if a.startswith("PANIC") or a.startswith("STUCK") or a.startswith("bad-") or a.startswith("err other") \
                or a.startswith("err commit") or a.startswith("err stale") or a.startswith("err mismatch"):
            bad = ("spec", "the implementation failed: " + a[:120])
        else:
            bad = None
            if wrong_type_query(op) and ("err wrong-type" in (a, m)):
                nwrong += 1
                continue
            if m != "-" and m != a:
                bad = ("model", what_model)
            if s.startswith("live ") and bad is None and a != "err before-db":
                msg = kv_live_check(op, a, s)
                if msg:
                    bad = ("spec", msg)
            elif s != "-" and bad is None:
                if a == "err before-db":
                    r = kv(op).get("r")
                    if r is None or not int(r) < db[i]:
                        bad = ("spec", "round %s reported as before the DB round %d" % (r, db[i]))
                elif strip_vt(s) != strip_vt(a):
                    bad = ("spec", what_spec)
                else:
                    mm, ma = re.search(r"vtmax=(\d+)", s), re.search(r"vt=(\d+)", a)
                    if mm and ma and not (int(kv(op)["r"]) <= int(ma.group(1)) <= int(mm.group(1))):
                        bad = ("spec", "validThrough %s outside [%s, %s]: the value changes before it" % (ma.group(1), kv(op)["r"], mm.group(1)))
        if bad is None:
            continue
        nbad += 1
        st = run.start[i]
        if st in seen_cases:
            continue
        seen_cases.add(st)
        if len(seen_cases) > max_cases:
            continue
        ctx.violation("%s [%s]" % (bad[1], bad[0]),
                      {"kind": "correspondence", "driver": bad[0], "ops": run.ops[st:i + 1], "index": i, "impl_out": a,
                       "spec_out": s, "model_out": m, "harness": HARNESS}, found_input=True)
    if nbad > max_cases:
        ctx.notes.append("%d mismatching lines in total; further cases suppressed" % nbad)
    ctx.cov["distribution"]["wrong-type queries answered err/empty"] = nwrong
    return nbad
