"""C23 — application storage accounting matches stored state.

Tie C: harness/ledger/zz_verif_c23_test.go (real Ledger + real BlockEvaluator + real AVM executing effect scripts compiled to
straight-line TEAL) against the Lean driver `c23` (Model.AppStorage), line by line; plus a MONITOR evaluated on the
implementation's dumps alone: for every application the account's TotalBoxes / TotalBoxBytes are recomputed from the
enumerated boxes, the number of uint / byte-slice keys of every global and local store is compared with the schema and with
the evaluator's usage counters, a failing group must leave the dump unchanged, and the harness-side tracer token `I=` (checked
after every opcode: dirtyBytes = Σ current length of the dirty boxes, dirtyBytes ≤ ioBudget) must be `ok`."""
import os, random, re
import common

PKG, TEST, NAME = "./ledger", "TestVerifC23", "c23"
HZ = {"pkg": PKG, "test": TEST, "name": NAME}

ASSUMPTIONS = [
    "effect scripts only: every application call executes a straight-line TEAL program with one storage opcode per effect (app_global_put/del, app_local_put/del, box_* and app_box_* create/resize/put/replace/splice/del/len, app_params_set); arbitrary TEAL (loops, inner transactions, so the family re-entrancy guard) is reached by the monitor only",
    "balances are always sufficient (the harness funds every account; min-balance is C21), programs are small (no program bytes in dirtyBytes), values fit the AVM limits, every transaction obeys the 8-reference limit",
    "accounts named by app_local_* are the sender or in tx.Accounts of the same transaction (group-shared accounts/locals are not modelled; the generator names another account only in single-call groups)",
    "box_counters needs (history length) * (MaxAppKeyLen + MaxBoxSize) < 2^64 so that AddSaturate never saturates; schema_bound needs schema entries + 1 < 2^64 (consensus limits them to 64 / 16); dirty_bytes_inv needs ioBudget + MaxBoxSize < 2^64 (ioBudget ≤ 16 txns * 8 refs * 2048)",
    "applications are named by creation ordinals in the op language (the real id txn-counter+1 is a renaming done by the harness)",
    "creators never opt in to their own application in generated cases (it triggers an evaluator panic unrelated to C23, see corpus/C23/observations)",
]


# ----------------------------------------------------------------------------- dump parsing + monitor
def rle_len(s):
    if s == "-":
        return 0
    n = 0
    for run in s.split("."):
        n += int(run.split("*")[1])
    return n


class Dump:
    def __init__(self, text):
        self.raw = text
        self.T, self.X, self.G, self.L, self.LK, self.B, self.bad = {}, {}, {}, {}, {}, {}, []
        for tok in text.split():
            k, _, v = tok.partition("=")
            try:
                if "ERR" in tok or "LIMITS-DIFFER" in tok or "?type" in tok:
                    self.bad.append(tok)
                elif k[0] == "T":
                    self.T[int(k[1:])] = tuple(int(x) for x in v.split(","))
                elif k[0] == "X":
                    self.X[int(k[1:])] = v.split(",")
                elif k[0] == "G":
                    a, key = k[1:].split(":")
                    self.G.setdefault(int(a), {})[key] = v
                elif k[0] == "L" and ":" in k:
                    au, key = k[1:].split(":")
                    a, u = au.split("@")
                    self.LK.setdefault((int(a), int(u)), {})[key] = v
                elif k[0] == "L":
                    a, u = k[1:].split("@")
                    self.L[(int(a), int(u))] = v.split(",")
                elif k[0] == "B":
                    a, name = k[1:].split(":")
                    self.B.setdefault(int(a), {})[name] = v
                else:
                    self.bad.append(tok)
            except Exception:
                self.bad.append(tok)


def sch(s):
    a, b = s.split(".")
    return int(a), int(b)


def check_dump(d):
    """the property predicate on one enumerated state; returns None or a message"""
    if d.bad:
        return "unreadable / error tokens in the dump: " + " ".join(d.bad[:4])
    for a in set(d.B) | set(d.T):
        boxes = d.B.get(a, {})
        n = len(boxes)
        nbytes = sum(len(name) // 2 + rle_len(v) for name, v in boxes.items())
        if a not in d.T:
            return "application %d has boxes but no account totals token" % a
        tb, tbb = d.T[a]
        if tb != n:
            return "application %d: TotalBoxes=%d but %d boxes exist" % (a, tb, n)
        if tbb != nbytes:
            return "application %d: TotalBoxBytes=%d but the boxes hold %d bytes (names+values)" % (a, tbb, nbytes)
    def kv_check(what, keys, schema, counts):
        nu = sum(1 for v in keys.values() if v.startswith("u"))
        nb = sum(1 for v in keys.values() if v.startswith("b"))
        mu, mb = sch(schema)
        cu, cb = sch(counts)
        if nu > mu or nb > mb:
            return "%s holds %d uint / %d byte-slice keys, schema allows %d / %d" % (what, nu, nb, mu, mb)
        if (cu, cb) != (nu, nb):
            return "%s: usage counters %d.%d but %d uint / %d byte-slice keys are stored" % (what, cu, cb, nu, nb)
        return None
    for a, x in d.X.items():
        m = kv_check("global state of application %d" % a, d.G.get(a, {}), x[3], x[5])
        if m:
            return m
    for a in d.G:
        if a not in d.X:
            return "global keys of a non-existing application %d" % a
    for (a, u), l in d.L.items():
        m = kv_check("local state of account %d for application %d" % (u, a), d.LK.get((a, u), {}), l[0], l[1])
        if m:
            return m
    for au in d.LK:
        if au not in d.L:
            return "local keys without local state record %s" % (au,)
    return None


CRASH = ("PANIC", "DIVERGED", "prep-failed", "bad-op", "end-error", "block-error", "panic", "other:", "malformed", "minbal", "rejected", "recreate", "wrongsize")


def split_out(out):
    head, _, dump = out.partition(" | ")
    return head, dump


def monitor(case):
    """case.lines = [(op, impl_out)] from `reset`; returns None | (idx, message)"""
    prev = None
    for idx, (op, out) in enumerate(case.lines):
        if op in ("reset", "block"):
            if out != "ok":
                return idx, "harness could not %s: %s" % (op, out[:200])
            if op == "reset":
                prev = ""
            continue
        head, dump = split_out(out)
        cls = head.split(" ", 1)[0]
        if any(cls.startswith(c) for c in CRASH):
            return idx, "the real evaluator answered `%s`" % head[:200]
        if op.startswith("group"):
            m = re.search(r" I=(\S+)", " " + head)
            if not m or m.group(1) != "ok":
                return idx, "dirty-bytes invariant violated inside the real AVM: %s" % (m.group(1) if m else head[:120])
            if cls == "ok":
                m = re.search(r" D=(\d+)/(\d+)", head)
                if not m or int(m.group(1)) > int(m.group(2)):
                    return idx, "dirtyBytes exceeds ioBudget after a successful group: %s" % head[:120]
            elif prev is not None and dump != prev:
                return idx, "a rejected group changed the storage state"
        d = Dump(dump)
        msg = check_dump(d)
        if msg:
            return idx, msg
        prev = dump
    return None


# ----------------------------------------------------------------------------- run
class Case:
    def __init__(self, start):
        self.start, self.lines = start, []


def split_cases(ops, impl):
    cases, cur = [], None
    for i, (o, a) in enumerate(zip(ops, impl)):
        if o == "reset" or cur is None:
            cur = Case(i)
            cases.append(cur)
        cur.lines.append((o, a))
    return cases


def first_diff(a, b):
    ta, tb = a.split(), b.split()
    for x, y in zip(ta, tb):
        if x != y:
            return x[:120], y[:120]
    if len(ta) != len(tb):
        return (" ".join(ta[len(tb):])[:120] or "<end>"), (" ".join(tb[len(ta):])[:120] or "<end>")
    return a[:120], b[:120]


def effects_of(op):
    out = []
    if not op.startswith("group "):
        return out
    for t in op[6:].split(";"):
        f = t.split(",")
        out.append("txn:" + f[0] + (":" + f[3] if f[0] == "call" else ""))
        script = f[8] if f[0] == "create" and len(f) == 9 else f[6] if f[0] == "call" and len(f) == 7 else "-"
        if script != "-":
            for e in script.split("/"):
                ef = e.split(".")
                k = ef[0]
                if k[0] == "b" and len(ef) > 1 and ef[1] != "0":
                    k += ":foreign"
                out.append("eff:" + k)
    return out


def corpus_ops():
    d = os.path.join(os.path.dirname(os.path.dirname(os.path.abspath(__file__))), "corpus", "C23")
    ops = []
    if os.path.isdir(d):
        for f in sorted(os.listdir(d)):
            if f.endswith(".ops"):
                ops += [l for l in open(os.path.join(d, f)).read().splitlines() if l.strip()]
    return ops


def one_pass(ctx, env, label):
    """harness + driver + comparison + monitor on one op stream"""
    rc, out = ctx.go_test(PKG, TEST, env=env, timeout=5400)
    opsf, implf = os.path.join(ctx.work, NAME + ".ops"), os.path.join(ctx.work, NAME + ".impl")
    if rc != 0 or not os.path.exists(opsf):
        ctx.tie_failures.append("harness %s %s failed to run (%s, rc=%d): %s" % (PKG, TEST, label, rc, out[-600:]))
        return
    ops, impl = ctx.read_lines(opsf), ctx.read_lines(implf)
    mf = os.path.join(ctx.work, NAME + ".model.out")
    drc = ctx.driver("c23", [], opsf, mf)
    model = ctx.read_lines(mf) if drc == 0 else []
    if drc != 0:
        ctx.tie_failures.append("driver c23 failed rc=%d (%s)" % (drc, label))

    # coverage
    dist = ctx.cov["distribution"]
    groups = set()
    for o, a in zip(ops, impl):
        k = o.split(" ", 1)[0]
        dist[k] = dist.get(k, 0) + 1
        if k == "group":
            c = "out:" + a.split(" ", 1)[0].split("@")[0]
            dist[c] = dist.get(c, 0) + 1
            effs = effects_of(o)
            for e in effs:
                dist[e] = dist.get(e, 0) + 1
            if any(e.startswith("eff:") for e in effs):
                groups.add(o)
    ctx.cov["evaluations"] += sum(1 for o in ops if o.startswith("group"))
    ctx.cov["distinct_nontrivial"] += len(groups)
    rnd = random.Random(ctx.seed)
    gl = sorted(groups)
    if label != "corpus":
        for o in rnd.sample(gl, min(8, len(gl))):
            ctx.cov["samples"].append(o[:400])

    cases = split_cases(ops, impl)

    def prefix(case, idx):
        return [o for o, _ in case.lines[:idx + 1]]

    # 1. correspondence with the model
    bad = ctx.compare(ops, impl, model, "model") if model else []
    case_of = {}
    for c in cases:
        for j in range(len(c.lines)):
            case_of[c.start + j] = c
    seen = set()
    for (i, op, a, b) in bad:
        c = case_of.get(i)
        if c is None or c.start in seen:
            continue
        seen.add(c.start)
        if len(seen) > 4:
            break
        hit = monitor(c)
        x, y = first_diff(a, b)
        ctx.violation("real evaluator differs from Model.AppStorage at op %d of the case (`%s`): impl `%s` vs model `%s`%s"
                      % (i - c.start, op[:160], x, y, (" — monitor: " + hit[1]) if hit else ""),
                      {"kind": "correspondence", "driver": "model", "ops": prefix(c, i - c.start), "index": i, "impl_out": a[:3000], "model_out": b[:3000],
                       "harness": HZ}, found_input=bool(hit))
    if bad:
        ctx.notes.append("%d mismatching lines vs model in total (%s)" % (len(bad), label))

    # 2. the property monitor on the implementation's outputs alone
    hits = 0
    for c in cases:
        hit = monitor(c)
        if hit:
            hits += 1
            if hits <= 4:
                idx, msg = hit
                ctx.violation("monitor: " + msg, {"kind": "monitor", "ops": prefix(c, idx), "impl_out": c.lines[idx][1][:3000], "harness": HZ}, found_input=True)
    dist["monitor:cases_checked"] = dist.get("monitor:cases_checked", 0) + len(cases)
    dist["monitor:hits"] = dist.get("monitor:hits", 0) + hits


def run(ctx, replay_ops=None):
    ctx.overlay()
    ctx.assumptions += ASSUMPTIONS
    proved = ctx.prove(["AlgoVerif.Props.C23"])
    ok, out = ctx.lean_build(["c23"])
    if not ok:
        raise RuntimeError("driver c23 does not build: " + out[-800:])
    ctx.cov["rule"] = ("a case = fresh applications on a real ledger, 1-3 blocks of 5-15 transaction groups (creations with schemas 0..3, calls with "
                       "NoOp/OptIn/CloseOut/Clear/Delete, schema-changing updates) whose effect scripts (0-7 effects) are drawn towards VALID effects from a "
                       "picture of the case (existing boxes, opted-in accounts, family flags) with boundary sizes around the 2048-byte reference budget and the "
                       "schema limits, plus directed scenarios (fill schema then one more / type change at the limit, box life cycle, shared group budget, "
                       "schema shrink) and the hand-written corpus/C23/*.ops; an evaluation = one group executed by the real evaluator; distinct = distinct "
                       "group lines containing ≥ 1 effect")

    def replay_env(ops):
        rp = os.path.join(ctx.work, NAME + ".replay")
        open(rp, "w").write("\n".join(ops) + "\n")
        return {"VERIF_REPLAY": rp}

    if replay_ops is not None:
        one_pass(ctx, replay_env(replay_ops), "replay")
        return
    cops = corpus_ops()
    if cops:
        one_pass(ctx, replay_env(cops), "corpus")
    env = {}
    if not proved:
        env["VERIF_BUDGET_SCALE"] = "500" if ctx.tier == "quick" else "200"
    one_pass(ctx, env, "generated")


def replay(ctx, path):
    common.std_replay(ctx, path, run)
