"""C27 — suspension and expiry lists are justified.

Ties: T  go2lean → Gen/Fees.lean:isAbsent (closed form proved in Props/C27T.lean, reused by Props/C27.lean);
      C  the REAL evaluator (StartEvaluator / GenerateBlock / Eval on an in-memory ledger holding a random online population,
         candidate lists placed in the block header) vs Model.KnockOffline, plus the challenge arithmetic of ledger/apply/challenge.go
         (bitsMatch, FindChallenge, challenge.Failed) vs the same model, plus the real isAbsent vs Spec.Fees.absent and vs the regenerated definition.
Monitor (implementation alone): whenever the real Eval accepts a block, every listed account satisfies the closed-form justification
computed here, in python, from the population in the op line."""
import os
import common
import vf

M64 = 1 << 64


def _list(s):
    return [] if s == "-" else [int(x) for x in s.split(",")]


def parse_case(op):
    f = op.split()
    kind = f[0]
    i = 1
    validate = True
    if kind == "ev":
        validate = f[1] == "1"
        i = 2
    c = {"kind": kind, "validate": validate, "R": int(f[i]), "me": int(f[i + 1]), "ma": int(f[i + 2]), "ci": int(f[i + 3]),
         "cg": int(f[i + 4]), "cb": int(f[i + 5]), "seed": bytes.fromhex(f[i + 6]), "rules": int(f[i + 7]), "S": int(f[i + 8])}
    n = int(f[i + 9])
    i += 10
    accts = []
    for k in range(n):
        p = f[i + k].split("/")
        accts.append({"p": bytes.fromhex(p[0]), "status": int(p[1]), "bal": int(p[2]), "key": p[3] == "1", "vfirst": int(p[4]),
                      "vlast": int(p[5]), "elig": p[6] == "1", "lp": int(p[7]), "lhb": int(p[8]), "stake": int(p[9])})
    i += n
    c["accts"], c["l1"], c["l2"] = accts, _list(f[i + 1]), _list(f[i + 3])
    return c


def addr(c, i):
    if 0 <= i < len(c["accts"]):
        b = c["accts"][i]["p"] + bytes([(i + 1) % 256, 0xC2, 0x07])
    else:
        b = bytes([0xEE, 0xEE, (i + 1) % 256, 0xC2, 0x99])
    return b + bytes(32 - len(b))


def absent_rule(S, s, ls, r):
    """closed form of the stake-proportional absence rule (theorem isAbsent_spec)"""
    if ls == 0 or s == 0:
        return False
    lag = 20 * S // s
    return lag <= 4294967295 and (ls + lag) % M64 < r


def prefix_match(a, b, n):
    if n < 0 or n > 8 * len(a) or n > 8 * len(b):
        return False
    ia, ib = int.from_bytes(a, "big"), int.from_bytes(b, "big")
    return (ia >> (8 * len(a) - n)) == (ib >> (8 * len(b) - n)) if n else True


def active_challenge(c):
    ci, cg, R = c["ci"], c["cg"], c["R"]
    if ci == 0 or R < ci or c["rules"] != 1:
        return 0
    lc = R - R % ci
    if R <= (lc + cg) % M64 or R > (lc + 2 * cg) % M64:
        return 0
    return lc


def justified_expired(c, i):
    if not (0 <= i < len(c["accts"])):
        return "unknown account"
    a = c["accts"][i]
    if not a["key"]:
        return "no vote key"
    if not a["vlast"] < c["R"]:
        return "VoteLastValid %d not before round %d" % (a["vlast"], c["R"])
    return None


def justified_absent(c, i):
    if not (0 <= i < len(c["accts"])):
        return "unknown account"
    a = c["accts"][i]
    if a["status"] != 1:
        return "not online"
    if a["bal"] == 0:
        return "zero balance"
    if not a["elig"]:
        return "not incentive-eligible"
    ls = max(a["lp"], a["lhb"])
    if absent_rule(c["S"], a["stake"], ls, c["R"]):
        return None
    lc = active_challenge(c)
    seed = c["seed"] + bytes(32 - len(c["seed"]))
    if lc != 0 and prefix_match(seed, addr(c, i), c["cb"]) and ls < lc:
        return None
    return "neither absent by the stake-proportional rule (S=%d stake=%d lastSeen=%d round=%d) nor failing an active challenge" % (
        c["S"], a["stake"], ls, c["R"])


def check_lists(c, E, A):
    if len(E) > c["me"]:
        return "%d expired accounts exceed the maximum %d" % (len(E), c["me"])
    if len(set(E)) != len(E):
        return "duplicate on the expired list"
    for i in E:
        w = justified_expired(c, i)
        if w:
            return "account %d marked expired: %s" % (i, w)
    if len(A) > c["ma"]:
        return "%d absent accounts exceed the maximum %d" % (len(A), c["ma"])
    if len(set(A)) != len(A):
        return "duplicate on the absent list"
    for i in A:
        if i in E:
            return "account %d both expired and absent" % i
        w = justified_absent(c, i)
        if w:
            return "account %d marked absent: %s" % (i, w)
    return None


def check_post(c, E, A, post):
    """only listed accounts are knocked offline, and they are"""
    parts = post.split(",")
    if len(parts) != len(c["accts"]):
        return "post state has %d accounts, population %d" % (len(parts), len(c["accts"]))
    for i, (a, p) in enumerate(zip(c["accts"], parts)):
        flags, vlast = p.split("/")
        st, key, elig = int(flags[0]), flags[1] == "k", flags[2] == "e"
        if i in E:
            want = (0, False, a["elig"] and i not in A, 0)
        elif i in A:
            want = (0, a["key"], False, a["vlast"])
        else:
            want = (a["status"], a["key"], a["elig"], a["vlast"])
        if (st, key, elig, int(vlast)) != want:
            return "account %d ends as %s, expected %s (%s)" % (i, p, want, "listed" if (i in E or i in A) else "not listed: must be untouched")
    return None


def monitor(op, out):
    k = op.split(" ", 1)[0]
    if k == "ev":
        if not out.startswith("ok"):
            return None
        c = parse_case(op)
        if c["validate"]:
            w = check_lists(c, c["l1"], c["l2"])
            if w:
                return "block accepted although " + w
        w = check_post(c, c["l1"], c["l2"], out.split(" ", 1)[1] if " " in out else "")
        return ("block applied but " + w) if w else None
    if k == "gen":
        c = parse_case(op)
        if not out.startswith("E="):
            return "block generation failed: " + out
        f = dict(x.split("=", 1) for x in out.split())
        E, A = _list(f["E"]), _list(f["A"])
        if f["val"] != "ok":
            return "the generator's own lists E=%s A=%s are rejected by validation (%s)" % (f["E"], f["A"], f["val"])
        w = check_lists(c, E, A)
        if w:
            return "generated and accepted although " + w
        for i in E + A:
            if i in c["l1"]:
                return "generator listed its own participating account %d" % i
        w = check_post(c, E, A, f["post"])
        return ("generated block applied but " + w) if w else None
    if k == "absent":
        S, s, ls, r = [int(x) for x in op.split()[1:]]
        if (out == "true") != absent_rule(S, s, ls, r):
            return "isAbsent(%d,%d,%d,%d) = %s differs from the closed-form rule" % (S, s, ls, r, out)
    if k == "bm" and out in ("true", "false"):
        f = op.split()
        a, b = (bytes.fromhex(x) if x != "-" else b"" for x in f[1:3])
        if (out == "true") != prefix_match(a, b, int(f[3])):
            return "bitsMatch disagrees with bit-prefix equality"
    return None


def trivial(op):
    f = op.split()
    if f[0] in ("ev", "gen"):
        return f[-1] == "-" and f[-3] == "-"
    return False


def kind_of(op):
    f = op.split()
    if f[0] == "ev":
        return "ev:" + ("empty" if (f[-1] == "-" and f[-3] == "-") else "lists") + ("" if f[1] == "1" else ":novalidate")
    return f[0]


def run(ctx, replay_ops=None):
    ctx.overlay()
    ctx.assumptions += [
        "ledger lookups made by the validators (eval.state.lookup, lookupAgreement, onlineStake, BlockHdr of the challenge round) succeed or fail as "
        "given; what they return is an input of the model (account state, voting stake at the balance round, total online stake, challenge header)",
        "all round / stake operands < 2^64 (hypotheses of the theorems that mention the regenerated isAbsent)",
        "the model covers the knock-offline step of endOfBlock only (validate expired → reset → validate absent → suspend); transactions of the same "
        "block act on the state before it and are not part of this model",
        "generateKnockOfflineAccountsList is modelled over an arbitrary visiting order of a duplicate-free candidate list whose entries agree with the "
        "end-of-block account state (the ledger's GetKnockOfflineCandidates is trusted to return current data for unmodified accounts)"]
    ok_gen, _ = ctx.go2lean(["Fees"])
    proved = ok_gen and ctx.prove(["AlgoVerif.Props.C27T", "AlgoVerif.Props.C27"])
    okb, out = ctx.lean_build(["c27", "fees"])
    if not okb:
        raise RuntimeError("model driver does not build: " + out[-800:])
    absent_drivers = [("fees", [], "spec")]
    if ok_gen:
        okg, _ = ctx.lean_build(["gen_fees"])
        if okg:
            absent_drivers.append(("gen_fees", [], "gen"))
        else:
            ctx.tie_failures.append("generated definitions (Gen/Fees.lean) do not compile into the gen driver")
    env = {} if proved else {"VERIF_BUDGET_SCALE": "1000" if ctx.tier == "quick" else "300"}
    ctx.cov["rule"] = ("a case = consensus limits × round (aimed at challenge-window edges) × challenge seed/bits × 2–11 accounts drawn from archetypes "
                       "(expired / at the VoteLastValid boundary / suspended with keys / last seen at the stake-proportional lag ±1 / address prefix equal to the "
                       "challenge seed up to the last bit ±1 / ineligible / zero balance / never seen / no stake / no key) × candidate lists (justified, one "
                       "unjustified or unknown member, duplicate, one too many, member on both lists, arbitrary) or a generator request (participating set, "
                       "accounts touched in the block); trivial = both lists empty; distinct = distinct op lines")
    want = lambda ks: replay_ops is None or any(o.split(" ", 1)[0] in ks for o in replay_ops)
    if want(("ev", "gen")):
        e1 = dict(env)
        corpus = os.path.join(vf.VERIF, "corpus", "C27", "seed.ops")
        if os.path.exists(corpus):
            e1["VERIF_C27_CORPUS"] = corpus
        r = common.correspondence(ctx, pkg="./ledger/eval", test="TestVerifC27", name="c27", drivers=[("c27", [], "model")], env=e1,
                                  trivial=trivial, kind_of=kind_of, monitor=monitor, model_is_spec=True,
                                  what="real block evaluation differs from the proved knock-offline model", replay_ops=replay_ops)
        if r:
            ops, impl, _ = r
            d = ctx.cov["distribution"]
            for o, a in zip(ops, impl):
                key = "result:" + (a.split(" ")[0] if not a.startswith("err") else a.replace(" ", ":"))
                if a.startswith("E="):
                    key = "result:gen:" + ("listed" if not a.startswith("E=- A=- ") else "none")
                elif a.startswith("ok"):
                    key = "result:ok:" + ("empty" if trivial(o) else "lists")
                d[key] = d.get(key, 0) + 1
                # why were the listed members of accepted blocks justified?
                if a.startswith("ok") or a.startswith("E="):
                    c = parse_case(o)
                    if a.startswith("ok"):
                        E, A = (c["l1"], c["l2"]) if c["validate"] else ([], [])
                    else:
                        f = dict(x.split("=", 1) for x in a.split())
                        E, A = _list(f["E"]), _list(f["A"])
                    for i in A:
                        if 0 <= i < len(c["accts"]):
                            ac = c["accts"][i]
                            lag = absent_rule(c["S"], ac["stake"], max(ac["lp"], ac["lhb"]), c["R"])
                            k2 = "accepted-member:absent-by-lag" if lag else "accepted-member:absent-by-challenge-only"
                            d[k2] = d.get(k2, 0) + 1
                    if E:
                        d["accepted-member:expired"] = d.get("accepted-member:expired", 0) + len(E)
    if want(("bm", "fch", "failed")):
        common.correspondence(ctx, pkg="./ledger/apply", test="TestVerifC27Challenge", name="c27ch", drivers=[("c27", [], "model")], env=env,
                              monitor=monitor, model_is_spec=True, what="challenge arithmetic differs from the model", replay_ops=replay_ops)
    if want(("absent",)):
        e2 = dict(env)
        e2["VERIF_PROFILE"] = "absent"
        if "VERIF_BUDGET_SCALE" not in e2 and ctx.tier == "thorough":
            e2["VERIF_BUDGET_SCALE"] = "25"
        common.correspondence(ctx, pkg="./ledger/eval", test="TestVerifFees", name="fees", drivers=absent_drivers, env=e2, monitor=monitor,
                              what="isAbsent differs from the closed-form absence rule", replay_ops=replay_ops)


def replay(ctx, path):
    common.std_replay(ctx, path, run)
