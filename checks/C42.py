"""C42 — vote compression (network/vpack) is lossless and stays in sync.
Tie C: the real Stateless/Stateful encoders+decoders vs Model.Vpack (compressed bytes, results, error kinds and
FNV digests of both table states), plus a monitor on the implementation alone."""
import os, json, collections
import common, vf

STATEFUL = ("vote", "mvote", "svote", "enc", "dec")
NONCANON_KEY = {"kind": "noncanonical-key-order"}
NONMINIMAL_KEY = {"kind": "nonminimal-uint-width"}


def trivial(op):
    f = op.split()
    return len(f) < 2 or f[0] == "reset" or f[1] == "-"


def toks(line):
    d = {}
    for t in line.split():
        if "=" in t:
            k, v = t.split("=", 1)
            d[k] = v
    return d


def monitor(op, a, pure):
    """property predicate on the implementation's output alone; pure = only vote/svote ops since the last reset"""
    if a.startswith("PANIC") or " PANIC" in a:
        return "crash (Go panic) instead of an error: " + a[:200]
    f = op.split()
    k = f[0]
    if k in ("slc", "slcm"):
        if a.startswith("ok") and toks(a).get("rt") != "true":
            return "CompressVote returned no error for a vote that DecompressVote does not reproduce byte for byte"
        return None
    if k not in ("vote", "mvote", "svote") or not pure or a in ("nostate", "sl-err"):
        return None
    t = toks(a)
    w = a.split()
    if k in ("vote", "mvote") or (k == "svote" and "c" in f[2:]):
        if "c-err" in w:
            return "StatefulEncoder.Compress failed on a well-formed stateless-compressed vote"
        if "d-err" in w:
            return "StatefulDecoder.Decompress rejected the frame the encoder just produced"
        if t.get("rt") != "true":
            return "Decompress(Compress(v)) != v"
    if k in ("vote", "mvote"):
        if "sd-err" in w or t.get("mp") != "true":
            return "the vote delivered after both decompression layers differs from the vote sent"
    if "rt" in t and t.get("sync") != "true":
        return "decoder table state differs from encoder table state after a successfully transferred vote"
    if "e" in t and "d" in t and "rt" in t and t["e"] != t["d"]:
        return "table state digests differ after a successfully transferred vote"
    return None


def case_ops(ops, i):
    """the op lines needed to reproduce line i: from the last reset for stateful ops"""
    k = ops[i].split()[0] if ops[i].split() else ""
    if k not in STATEFUL:
        return [ops[i]]
    j = i
    while j > 0 and not ops[j].startswith("reset"):
        j -= 1
    return ops[j:i + 1]


def run(ctx, replay_ops=None):
    ctx.overlay()
    ctx.assumptions += [
        "stateful_roundtrip_sync takes well-formed stateless votes (SVote.WF: second header byte 0, round in minimal msgpack width); "
        "vote_compression_lossless_sync_any discharges that from CompressVote's success (stateless_accepts_only_canonical), so the end-to-end theorem has no assumption on the vote bytes",
        "table size accepted by newLRUTable and ≤ 65536 so that reference ids fit uint16 (msgCompressor negotiates ≤ 2048) (hypothesis WF)",
        "session rule of msgCompressor/wsPeer (compress right before the frame is written, decompress every VP frame in arrival order, first error "
        "switches stateful compression off) is modelled by `session`, read from the code, not extracted",
        "that Model.Vpack equals the Go code is established by the tie (sampled), not proved; the canonical msgpack layout is compared with protocol.EncodeMsgp through the tie only",
    ]
    proved = ctx.prove(["AlgoVerif.Props.C42"])
    ok, out = ctx.lean_build(["c42"])
    if not ok:
        raise RuntimeError("c42 driver does not build: " + out[-800:])
    env = {"VERIF_C42_CORPUS": os.path.join(vf.VERIF, "corpus", "C42")}
    if not proved:
        env["VERIF_BUDGET_SCALE"] = "1000" if ctx.tier == "quick" else "300"
    if replay_ops is not None:
        rp = os.path.join(ctx.work, "c42.replay")
        open(rp, "w").write("\n".join(replay_ops) + "\n")
        env["VERIF_REPLAY"] = rp
    ctx.cov["rule"] = ("a case = `reset <tableSize>` followed by votes built with agreement.UnauthenticatedVote + protocol.EncodeMsgp from per-case pools "
                       "(senders / key bundles / proposals reused, some crafted to collide in two LRU buckets, >7 proposals to evict the window; rounds same/+1/-1/jump "
                       "around the msgpack width boundaries) or hand-serialised stateless votes (zero keys, zero-valued present fields, non-canonical widths); "
                       "malformed stream = frames of the real encoder truncated / extended / header bits and reference ids rewritten / bytes flipped, every prefix of one frame; "
                       "stateless stream = valid, truncated, flipped, extended and key-permuted msgpack, mutated stateless bytes. "
                       "trivial = reset or empty input; distinct = distinct op lines")
    harness = {"pkg": "./network/vpack", "test": "TestVerifC42", "name": "c42"}
    rc, out = ctx.go_test(harness["pkg"], harness["test"], env=env, timeout=3000)
    opsf, implf = os.path.join(ctx.work, "c42.ops"), os.path.join(ctx.work, "c42.impl")
    if rc != 0 or not os.path.exists(opsf):
        ctx.tie_failures.append("harness ./network/vpack TestVerifC42 failed to run (rc=%d): %s" % (rc, out[-600:]))
        return
    ops, impl = ctx.read_lines(opsf), ctx.read_lines(implf)
    ctx.account(ops, trivial=trivial)
    # ---- monitor on the implementation alone
    pure, hits, dist = True, 0, collections.Counter()
    for i, (op, a) in enumerate(zip(ops, impl)):
        k = op.split(" ", 1)[0]
        if k == "reset":
            pure = True
        elif k in ("enc", "dec"):
            pure = False
        t = toks(a)
        w = a.split()
        if k in ("vote", "svote") and "vp" in t and len(t["vp"]) >= 4:
            h = int(t["vp"][2:4], 16)
            dist["rnd-code-%d" % (h & 3)] += 1
            dist["prop-ref" if (h >> 2) & 7 else "prop-literal"] += 1
            for nm, b in (("snd", 5), ("pk", 6), ("pk2", 7)):
                dist["%s-%s" % (nm, "ref" if (h >> b) & 1 else "literal")] += 1
        if k in ("dec", "enc"):
            dist["%s-%s" % (k, " ".join(w[:2]) if w and w[0] == "err" else (w[0] if w else ""))] += 1
        if k in ("slc", "slcm", "sld"):
            dist["%s-%s" % (k, w[0] if w else "")] += 1
        if k in ("vote", "mvote"):
            dist["%s-%s" % (k, "sl-err" if a == "sl-err" else "compressed")] += 1
        if pure and k in ("vote", "mvote", "svote"):
            dist["monitored-votes"] += 1
        hit = monitor(op, a, pure)
        if hit and hits < 3:
            hits += 1
            ctx.violation("monitor: " + hit, {"kind": "monitor", "ops": case_ops(ops, i), "index": i, "impl_out": a, "harness": harness},
                          found_input=True, match_key=(NONCANON_KEY if k == "slcm" else NONMINIMAL_KEY if k == "mvote" else None))
    ctx.cov["distribution"].update(dist)
    # ---- correspondence with the proved model
    mf = os.path.join(ctx.work, "c42.model.out")
    drc = ctx.driver("c42", [], opsf, mf)
    if drc != 0:
        ctx.tie_failures.append("driver c42 failed rc=%d" % drc)
        return
    model = ctx.read_lines(mf)
    bad = ctx.compare(ops, impl, model, "model")
    seen_cases = set()
    for (i, op, a, b) in bad:
        co = case_ops(ops, i) if i < len(ops) else [op]
        key = (len(co), co[0])
        if key in seen_cases or len(seen_cases) >= 5:
            continue
        seen_cases.add(key)
        # the theorems pin Compress/Decompress outputs and states uniquely: a mismatch is a violation on that input
        ctx.violation("implementation output differs from the proved vpack model", {
            "kind": "correspondence", "driver": "model", "ops": co, "index": i, "impl_out": a, "model_out": b, "harness": harness}, found_input=True)
    if len(bad) > 5:
        ctx.notes.append("%d mismatching lines in total" % len(bad))


def replay(ctx, path):
    common.std_replay(ctx, path, run)
