"""C05 — consensus makes progress once the network is synchronous.

Proved (Props.C05 over Spec.AgreementSync, an extension of C01's Spec.AgreementAbs by a deterministic synchronous-phase step
function): `sync_period_progress_partial` (one fresh period with an honest leader whose payload is delivered ⇒ every honest node
commits in that period) and `sync_period_advance` (from ANY well-formed history — arbitrary asynchronous prefix — one deadline tick
plus one fast-recovery tick ⇒ all honest nodes have committed, or all are in the next period, nobody has voted there, and their
caches of the concluded period are equal: a common starting value); `sync_fresh_wf` / `sync_advance_wf` (the runs stay well-formed
histories of C01's safety model) and `sync_lockstep_progress` (K = B + 1 periods in the lock-step order when one of B consecutive
periods has a good leader).  The full statement (a bound K for every bounded-delay order, with the probability that a period's
leader is honest) is `sync_progress_Statement`, kept visible and NOT proved.

Tie (sampling, this file): NetDrive — N = 4..7 real agreement.Service instances; an arbitrary asynchronous prefix (drops,
partitions, crashes + restores, a Byzantine minority with real keys), then the decision `sync` (the synchrony point), then a
synchronous phase under one of two schedulers (harness/agreement/zz_verif_c05_test.go: `nd` deliver-everything-then-laggard-timer,
`vt` virtual time with the real player deadlines and a delay bound Δ).  Monitors on the implementation alone:
  * PROGRESS  after the synchrony point every honest node obtains every block up to `target` (the first round no honest ledger
              held at the synchrony point) within the step budget, and the certificate of `target` is of a period ≤ P0 + K(+b),
              P0 = the largest period an honest node was in (in round `target`) at the synchrony point, b = the number of periods
              after P0 in which the Byzantine minority injected a proposal (a Byzantine leader may waste its period);
  * PANIC     no Service goroutine panics (incl. the corpus schedule corpus/C01/stalecert-bundle-panic.sched, the progress defect
              fixed by /repo 8b2abd4067: a stale cert bundle killed the node, again after every restart);
  * DEADLINES within a period the step deadline of a node strictly increases from step to step, and no timer was refused;
  * FRESHEST  after every handle of the real player the freshest threshold event of its round known to its own vote tracker has been
              acted on (period entered / block committed) — also when it was collected before the node entered the round (pipelined
              threshold events, player.enterRound);
  * ACCEPT    the trace acceptor of C01 (c01abs = checkEv of the proved safety model) still accepts every (schedule, round) history
              and all EnsureBlock digests of a round agree.
Second tie (correspondence, exhaustive small universe): TestVerifC05Player runs ONE real player + rootRouter through the timeout
transitions (filter timeout → soft vote, deadline → next vote, fast timeout → late/redo/down, partitioned() → re-broadcast of the
freshest bundle) for every combination of entry cache × leader × staged value × payload, and the Lean driver `c05` answers the same
situations from the reaction functions of Spec.AgreementSync (softValue, nextValue, fastVote, partitioned); a mismatch is a violation.
The same test runs the real bundleFresh on a grid of (period, LastConcluding, step, bundle round/period/step) tuples against the
model's bundleFresh (`bundle_of_concluded_period_accepted`: a bundle of the concluded period is accepted whatever its step).
Directed family (TestVerifC05, ids 9100+): asynchronous prefixes in which one period has a ⊥ next quorum at step sb seen by a
minority A and a value next quorum at step sv ≥ sb+2 seen by another minority C (n = 4..7, sb = 4..7, both schedulers), so that
progress after the synchrony point depends on C accepting the re-broadcast (p, sb, ⊥) bundle.
Replay = the schedule (header + decisions incl. the `sync` line), re-executed by TestVerifC05 (or TestVerifNetDrive for C01's corpus)."""
import concurrent.futures, glob, json, os, re, sys
import vf
import netdrive

# K: see checks/claims/C05.json and Props/C05.lean.  Model: the period in flight at the synchrony point may fail (sync_period_advance:
# it is concluded within one deadline + one fast-recovery tick and hands over a common starting value), the next period commits if
# its leader is honest (sync_period_progress_partial) ⇒ K = 1 with silent Byzantine nodes once all honest nodes are in one period.
# The implementation needs one more period when the honest nodes were spread over several periods/rounds at the synchrony point
# (a node that re-enters through partitionPolicy's re-broadcast bundle may have missed the proposals of the period it lands in) ⇒ 2;
# we monitor K = 3 (the bound named in DESIGN §C05) and report the observed distribution.
K_BOUND = 3
KNOWN_STALECERT = {"kind": "panic-stale-cert-bundle"}


def kvs(line):
    return netdrive.kv(line)


def progress(sched, log):
    """Monitors of one schedule from its decisions and its concrete log.  Returns a dict; `problems` = list of (kind, text)."""
    res = {"synced": False, "problems": [], "k": None, "per_node": {}, "fires": {"t": 0, "f": 0}, "dl_checked": 0}
    for l in log:
        if l.startswith("PIPELINE "):
            g = kvs(l)
            res["problems"].append(("pipeline", "node %s entered round %s and is in period %s step %s, but the freshest threshold of that round known to its own vote tracker "
                                    "(event type %s of period %s, value %s) was not acted on: %s (pipelined threshold event lost?)"
                                    % (g["node"], g["round"], g["period"], g["step"], g["fresh"], g["freshperiod"], g["val"], g["what"])))
            break
    si = next((i for i, l in enumerate(log) if l.startswith("SYNC ")), None)
    if si is None:
        return res
    f = kvs(log[si])
    res.update(synced=True, target=int(f["target"]), mode=f["mode"], delta=int(f["delta"]), byz=f["byz"] == "1", n=int(f["n"]))
    target = res["target"]
    nodes = {}
    for l in log[si + 1:]:
        if not l.startswith("SYNCNODE "):
            break
        g = kvs(l)
        nodes[int(g["node"])] = {"round": int(g["round"]), "period": int(g["period"]), "step": int(g["step"]), "next": int(g["next"])}
    res["nodes"] = nodes
    res["spread_rounds"] = len({v["next"] for v in nodes.values()})
    in_target = [v["period"] for v in nodes.values() if v["round"] == target]
    res["spread_periods"] = (max(in_target) - min(in_target)) if in_target else 0
    p0 = max(in_target) if in_target else 0
    res["P0"] = p0
    res["max_step_at_sync"] = max([v["step"] for v in nodes.values()] or [0])
    # ---- commits after the synchrony point
    got = {}      # (node, round) -> ("ensure", cperiod) | ("catchup", None)
    end = None
    cur = {}      # (node, gen, round, period) -> (step, dl)
    max_period = p0
    for l in log[si + 1:]:
        k = l.split(" ", 1)[0]
        if k == "ENSURE":
            g = kvs(l)
            got.setdefault((int(g["node"]), int(g["round"])), ("ensure", int(g["cperiod"])))
        elif k == "CATCHUP":
            g = kvs(l)
            got.setdefault((int(g["node"]), int(g["round"])), ("catchup", None))
        elif k == "FIRE":
            g = kvs(l)
            res["fires"][g["kind"]] += 1
        elif k == "DL":
            g = kvs(l)
            key = (g["node"], g["gen"], g["round"], g["period"])
            step, dl = int(g["step"]), int(g["dl"])
            if int(g["round"]) == target:
                max_period = max(max_period, int(g["period"]))
            if key in cur:
                ostep, odl = cur[key]
                if (step, dl) != (ostep, odl):
                    res["dl_checked"] += 1
                    if dl < odl or (dl == odl and step != ostep):
                        res["problems"].append(("deadline", "node %s round %s period %s: step %d→%d but the step deadline went %d ns → %d ns (must increase)"
                                                % (g["node"], g["round"], g["period"], ostep, step, odl, dl)))
            cur[key] = (step, dl)
        elif k == "SYNCEND":
            end = kvs(l)
        elif k == "NOTE" and "TIMER-NOT-PENDING" in l:
            res["problems"].append(("deadline", "a timer the scheduler fired was not pending: " + l[:160]))
    res["end"] = end
    res["max_period"] = max_period
    # ---- PROGRESS
    missing = []
    for n, v in sorted(nodes.items()):
        for rnd in range(v["next"], target + 1):
            if (n, rnd) not in got:
                missing.append((n, rnd))
    res["missing"] = missing
    cps = [c for (n, rnd), (how, c) in got.items() if rnd == target and how == "ensure"]
    res["how"] = {"ensure": sum(1 for (n, rnd), (how, c) in got.items() if rnd == target and how == "ensure"),
                  "catchup": sum(1 for (n, rnd), (how, c) in got.items() if rnd == target and how == "catchup")}
    # Byzantine proposals injected after the synchrony point for periods > P0 of the target round
    bp_periods = set()
    seen_sync = False
    for d in sched[1:]:
        w = d.split()
        if w[0] == "sync":
            seen_sync = True
        elif seen_sync and w[0] == "bp" and len(w) >= 4 and int(w[2]) == target and int(w[3]) >= p0:
            bp_periods.add(int(w[3]))
    res["byz_periods"] = len(bp_periods)
    if cps:
        res["k"] = max(0, max(cps) - p0)
    if missing:
        res["problems"].append(("progress", "after the synchrony point (decision %s, %s scheduler, Δ=%d ms, Byzantine %s) honest node(s) %s never obtained block(s) %s "
                                "within the budget of the synchronous phase (%s decisions, %s timer firings of %s allowed = honest nodes × 9 periods × 34 timers per period; largest period reached in round %d: %d, at the synchrony point: %d)"
                                % (f["at"], res["mode"], res["delta"], "active" if res["byz"] else "silent", sorted({m[0] for m in missing}),
                                   sorted({m[1] for m in missing}), (end or {}).get("decisions", "?"), (end or {}).get("timers", "?"), (end or {}).get("timerbudget", "?"), target, max_period, p0)))
    elif res["k"] is not None and res["k"] > K_BOUND + res["byz_periods"] and res["mode"] != "nd":
        res["problems"].append(("progress", "round %d was committed with a certificate of period %d; the honest nodes were in period ≤ %d at the synchrony point: %d periods > K = %d (+%d Byzantine-led)"
                                % (target, max(cps), p0, res["k"], K_BOUND, res["byz_periods"])))
    return res


def panic_of(shard):
    out = shard["out"]
    in_service = ("agreement.(*Service).mainLoop" in out or "agreement.(*Service).demuxLoop" in out) and "panic" in out
    m = re.search(r"^panic: (.*)$", out, re.M)
    msg = m.group(1)[:200] if m else "process exited with rc=%d" % shard["rc"]
    frames = [fr for fr in re.findall(r"agreement\.(\(\*?\w+\)\.\w+|\w+)\(", out) if not fr.startswith("nd") and not fr.startswith("c05") and "logVote" not in fr]
    stale = "(*periodRouter).update" in out and "nil pointer dereference" in out
    return in_service, msg, frames, stale


def analyse(ctx, shard, stats, corpus_name=None, test="TestVerifC05"):
    hists = netdrive.accept(ctx, shard)
    scheds, logs = netdrive.schedules_of(shard), netdrive.logs_of(shard)
    by_sched = {}
    for sid, rnd, evs in hists:
        by_sched.setdefault(sid, []).append((rnd, evs))
    if shard["rc"] != 0:
        last = max(scheds) if scheds else None
        in_service, msg, frames, stale = panic_of(shard)
        stats["panics"] += 1
        if last is not None and in_service:
            after_sync = any(d.startswith("sync") for d in scheds[last][1:])
            respin = "(*coserviceMonitor).dec" in shard["out"] and "(*demux).next" in shard["out"]
            if respin:
                # the package's own test accounting (coserviceMonitor) saw a clock event the harness never fired: the Service was handed a
                # timeout channel that had already fired, i.e. the player re-armed a deadline that was not later than the expired one
                if stats["panics"] <= 2:
                    ctx.violation("deadlines do not increase: a node's step timeout fired again by itself — after handling a timeout the real player asked for a deadline "
                                  "that is not later than the one that had just expired, so the node runs through its steps without waiting (detected by the agreement "
                                  "package's coserviceMonitor inside demux.next)",
                                  {"kind": "netdrive", "test": test, "sched": scheds[last], "corpus": corpus_name, "monitor": "deadline", "panic": shard["out"][-600:]},
                                  found_input=True)
            elif stats["panics"] <= 3:
                ctx.violation(("[a cert bundle of an old period of the current round reached a garbage-collected period router] " if stale else "") +
                              "node panic %s: the real agreement code panicked inside a Service goroutine — the node is dead and cannot commit: %s; top frames: %s"
                              % ("in the synchronous phase" if after_sync else "(no synchrony point needed: the node dies on this input whenever it arrives, also after a restart)",
                                 msg, ", ".join(frames[:4])),
                              {"kind": "netdrive", "test": test, "sched": scheds[last], "corpus": corpus_name, "panic": shard["out"][-600:]},
                              found_input=True, match_key=KNOWN_STALECERT if stale else None)
        else:
            ctx.tie_failures.append("C05 harness process failed (rc=%d) in %s, last schedule %s: %s" % (shard["rc"], shard["name"], last, shard["out"][-600:]))
    for sid in sorted(scheds):
        log = logs.get(sid, [])
        header = scheds[sid][0]
        stats["schedules"] += 1
        hk = netdrive.kv(header)
        prof = hk.get("profile", "?")
        stats["profiles"][prof] = stats["profiles"].get(prof, 0) + 1
        stats["nodes"][hk.get("n", "?")] = stats["nodes"].get(hk.get("n", "?"), 0) + 1
        for d in scheds[sid][1:]:
            k = d.split()[0]
            stats["decisions"][k] = stats["decisions"].get(k, 0) + 1
        replay = {"kind": "netdrive", "test": test, "sched": scheds[sid], "corpus": corpus_name}
        notes = [l for l in log if l.startswith("NOTE ") and any(t in l for t in ("QUIET-TIMEOUT", "HARNESS-PANIC", "SCHEDULE-TIMEOUT", "SHUTDOWN-TIMEOUT"))]
        for nline in notes[:2]:
            ctx.notes.append("schedule %d: %s" % (sid, nline[:200]))
            stats["harness_notes"] += 1
        # ---- ACCEPT: C01's acceptor and digest monitor
        rejects, conflict = [], {}
        for l in log:
            if l.startswith("ENSURE "):
                g = netdrive.kv(l)
                conflict.setdefault(int(g["round"]), set()).add(g["digest"])
                stats["ensure"] += 1
        conflict = {r: sorted(d) for r, d in conflict.items() if len(d) > 1}
        for rnd, evs in by_sched.get(sid, []):
            stats["histories"] += 1
            for l, v in evs:
                k = l.split()[0] if l else ""
                if k in ("vote", "see", "enter", "commit", "crash"):
                    stats["events"] += 1
                if k == "params" and "hq=true" not in v and not corpus_name:
                    ctx.tie_failures.append("schedule %d: parameters do not satisfy HQ (%s)" % (sid, v))
                if v.startswith("reject") or "SAFETY-VIOLATION" in v:
                    rejects.append((rnd, l, v))
        if conflict:
            r0 = sorted(conflict)[0]
            ctx.violation("two different blocks committed for round %s: %s (safety, C01) in a C05 schedule" % (r0, conflict[r0]), dict(replay, digests=conflict), found_input=True)
        elif rejects and not corpus_name:
            stats["rejects"] += len(rejects)
            if stats["rejects"] == len(rejects):
                ctx.violation("the trace acceptor of C01 rejects a run of the real code: round %d `%s` → %s" % rejects[0],
                              dict(replay, rejects=["round %d: `%s` → %s" % r for r in rejects[:8]]), found_input=False)
        # ---- PROGRESS / DEADLINES
        if test != "TestVerifC05":
            continue
        pr = progress(scheds[sid], log)
        if not pr["synced"]:
            stats["unsynced"] += 1
            report(ctx, stats, pr, replay)
            continue
        stats["synced"] += 1
        stats["modes"][pr["mode"]] = stats["modes"].get(pr["mode"], 0) + 1
        stats["byz_active"] += 1 if pr["byz"] else 0
        stats["fires_t"] += pr["fires"]["t"]
        stats["fires_f"] += pr["fires"]["f"]
        stats["dl_checked"] += pr["dl_checked"]
        stats["how"]["ensure"] += pr["how"]["ensure"]
        stats["how"]["catchup"] += pr["how"]["catchup"]
        if pr["k"] is not None:
            key = str(pr["k"])
            stats["k_dist"][key] = stats["k_dist"].get(key, 0) + 1
            if pr["byz_periods"]:
                stats["k_dist_byzled"][key] = stats["k_dist_byzled"].get(key, 0) + 1
        else:
            stats["k_dist"]["catchup-only"] = stats["k_dist"].get("catchup-only", 0) + 1
        stats["p0_dist"][str(pr["P0"])] = stats["p0_dist"].get(str(pr["P0"]), 0) + 1
        if pr["spread_rounds"] > 1 or pr["spread_periods"] > 0 or pr["P0"] > 0 or pr["max_step_at_sync"] > 2:
            stats["nontrivial"] += 1
        stats["spread"]["rounds>1"] += 1 if pr["spread_rounds"] > 1 else 0
        stats["spread"]["periods>0"] += 1 if pr["spread_periods"] > 0 else 0
        stats["spread"]["periods>1"] += 1 if pr["spread_periods"] > 1 else 0
        stats["spread"]["step>cert"] += 1 if pr["max_step_at_sync"] > 2 else 0
        if len(stats["samples"]) < 8:
            stats["samples"].append("S%d n=%s %s prefix=%s mode=%s Δ=%dms byz=%s: at sync %s → target %d committed in period %s (P0=%d, k=%s), %d sync decisions, timers t=%d f=%d"
                                    % (sid, hk.get("n"), prof, kvs(log[[i for i, l in enumerate(log) if l.startswith("SYNC ")][0]])["at"], pr["mode"], pr["delta"], int(pr["byz"]),
                                       ",".join("n%d:r%d/p%d/s%d" % (n, v["round"], v["period"], v["step"]) for n, v in sorted(pr["nodes"].items())),
                                       pr["target"], (pr["k"] + pr["P0"]) if pr["k"] is not None else "-", pr["P0"], pr["k"], int((pr["end"] or {}).get("decisions", 0)),
                                       pr["fires"]["t"], pr["fires"]["f"]))
        report(ctx, stats, pr, replay)


PREFIX = {"progress": "no progress: ", "deadline": "deadlines do not increase: ", "pipeline": "freshest threshold not acted on: "}


def report(ctx, stats, pr, replay):
    seen = set()
    for kind, text in pr["problems"]:
        if kind in seen:
            continue
        seen.add(kind)
        stats["problems"][kind] = stats["problems"].get(kind, 0) + 1
        if stats["problems"][kind] <= 2:
            ctx.violation(PREFIX[kind] + text, dict(replay, monitor=kind), found_input=True)


def new_stats():
    return {"schedules": 0, "synced": 0, "unsynced": 0, "histories": 0, "events": 0, "nontrivial": 0, "rejects": 0, "ensure": 0, "harness_notes": 0, "panics": 0,
            "profiles": {}, "nodes": {}, "decisions": {}, "modes": {}, "byz_active": 0, "fires_t": 0, "fires_f": 0, "dl_checked": 0, "k_dist": {}, "k_dist_byzled": {},
            "p0_dist": {}, "player": {}, "how": {"ensure": 0, "catchup": 0}, "spread": {"rounds>1": 0, "periods>0": 0, "periods>1": 0, "step>cert": 0}, "samples": [], "problems": {}}


ASSUMPTIONS = [
    "Props.C05 hypotheses: HQ (W + F < 2·T), honest weight ≥ T, WF true P h for the asynchronous prefix (the local rules of C01 — any drops, delays, crashes, Byzantine votes), and for sync_period_progress_partial: a leader value (the lowest-credential proposal that reaches every honest node before the filter timeout) whose payload is available to every honest node",
    "abstractions of Spec.AgreementSync (stated in the file): a synchronous tick delivers EVERY vote cast so far to every honest node (direct delivery for votes within one period, partitionPolicy's re-broadcast of the freshest bundle otherwise); payload availability is uniform over honest nodes (re-broadcast of the staged/pinned payload); committees are fixed weights; steps of proposals are not modelled",
    "NOT proved: sync_progress_Statement — a bound K on the number of periods for every bounded-delay order; it needs the probability that a period's lowest credential belongs to an honest node (VRF sortition) and real-time timers; the K monitored on the implementation is sampled, not derived",
    "timers are environment: `vt` uses the real player's Deadline / FastRecoveryDeadline durations on a virtual clock (period start = the decision at which the node entered the period); the dynamic filter timeout needs 40 rounds of history and never engages; real-time clocks are not exhibited",
    "ledger catch-up is environment: a node that is a round behind and has nothing in flight obtains the block from a peer's ledger (the agreement protocol never re-broadcasts an old round's certificate)",
    "the refinement `real player ⊑ WF true` is checked by trace acceptance on the sampled schedules (C01), not proved",
    "goroutine scheduling inside a Service is not controlled: the harness serialises by waiting for quiescence between decisions",
]


def run_corpus(ctx, exe, stats, tmo):
    # C01's stale-cert-bundle schedule: a node panic is a progress defect (the node is dead, and dies again after every restart)
    path = os.path.join(vf.VERIF, "corpus", "C01", "stalecert-bundle-panic.sched")
    if os.path.exists(path):
        sh = netdrive.run_shard(ctx, exe, "corpus-stalecert", {"VERIF_REPLAY": path}, tmo, test="TestVerifNetDrive")
        analyse(ctx, sh, stats, corpus_name=os.path.basename(path), test="TestVerifNetDrive")
    else:
        ctx.tie_failures.append("corpus/C01/stalecert-bundle-panic.sched is missing")
    for path in sorted(glob.glob(os.path.join(vf.VERIF, "corpus", "C05", "*.sched"))):
        sh = netdrive.run_shard(ctx, exe, "corpus-" + os.path.basename(path)[:-6], {"VERIF_REPLAY": path}, tmo, test="TestVerifC05")
        analyse(ctx, sh, stats, corpus_name=os.path.basename(path))


def player_tie(ctx, exe, stats):
    """single-node tie: the reaction functions of Spec.AgreementSync (driver c05) vs one real player + router on an exhaustive small
    universe of timeout situations (TestVerifC05Player); plus the implementation-only monitor `deadline-increase`"""
    ok, out = ctx.lean_build(["c05"])
    if not ok:
        ctx.tie_failures.append("driver c05 does not build: " + out[-400:])
        return
    sh = netdrive.run_shard(ctx, exe, "player", {}, 900, test="TestVerifC05Player")
    opsf, implf, mf = (os.path.join(sh["dir"], n) for n in ("c05p.ops", "c05p.impl", "c05p.model"))
    if sh["rc"] != 0 or not os.path.exists(opsf):
        ctx.tie_failures.append("TestVerifC05Player failed to run (rc=%d): %s" % (sh["rc"], sh["out"][-500:]))
        return
    if ctx.driver("c05", [], opsf, mf) != 0:
        ctx.tie_failures.append("driver c05 failed")
        return
    ops, impl, model = ctx.read_lines(opsf), ctx.read_lines(implf), ctx.read_lines(mf)
    if not (len(ops) == len(impl) == len(model)) or not ops:
        ctx.tie_failures.append("single-node tie: %d ops, %d implementation lines, %d model lines" % (len(ops), len(impl), len(model)))
        return
    kinds = {}
    bad = []
    for i, (o, a, b) in enumerate(zip(ops, impl, model)):
        k = o.split()[0]
        kinds[k] = kinds.get(k, 0) + 1
        if a != b:
            bad.append((i, o, a, b))
    stats["player"] = {"situations": len(ops), "by_kind": kinds, "distinct_outcomes": len(set(impl)), "mismatches": len(bad)}
    for i, o, a, b in bad[:3]:
        if o.startswith("deadline-increase"):
            ctx.violation("deadlines do not increase: one real player, step timeouts only, period %s: %s" % (o.split()[1], a),
                          {"kind": "player", "ops": [o], "impl_out": a, "monitor": "deadline"}, found_input=True)
        elif o.startswith("bfresh"):
            f = o.split()
            ctx.violation("bundleFresh differs from the rule the synchronous phase relies on (Spec.AgreementSync.bundleFresh: a bundle of the node's round is accepted iff it is a cert "
                          "bundle or its period is ≥ the node's period − 1, whatever the steps): node in round %s period %s (left the previous period at step %s, now at step %s), "
                          "bundle of round %s period %s step %s — real code: `%s`, model: `%s`.  A node that entered a period on a late quorum can then never learn of an earlier "
                          "quorum of the concluded period from the re-broadcast bundle (partitionPolicy), and a split period stays split"
                          % (f[1], f[2], f[3], f[4], f[5], f[6], f[7], a, b),
                          {"kind": "player", "ops": [o], "index": i, "impl_out": a, "model_out": b}, found_input=True)
        else:
            ctx.violation("a timeout transition of the real player differs from the synchronous-phase model the lemmas are about (Spec.AgreementSync): situation `%s` "
                          "(grammar: lean/AlgoVerif/Driver/C05.lean) — real player: `%s`, model: `%s`" % (o, a, b),
                          {"kind": "player", "ops": [o], "index": i, "impl_out": a, "model_out": b}, found_input=True)


def run_range(ctx, exe, name, lo, hi, env, timeout):
    """schedules lo..hi-1 of TestVerifC05; resumed after a schedule that killed the process"""
    shards, k = [], 0
    while lo < hi and k < 6:
        e = dict(env)
        e.update({"VERIF_C05_FROM": str(lo), "VERIF_C05_SCHEDULES": str(hi)})
        sh = netdrive.run_shard(ctx, exe, "%s-%d" % (name, k) if k else name, e, timeout, test="TestVerifC05")
        shards.append(sh)
        if sh["rc"] == 0:
            break
        done = netdrive.schedules_of(sh)
        lo = (max(done) + 1) if done else hi
        k += 1
    return shards


def run(ctx, replay=None):
    ctx.overlay()
    netdrive.hooked_overlay(ctx)
    ctx.assumptions += ASSUMPTIONS
    ctx.trusted.append("NetDrive harness (Go) incl. the generated hook copy of agreement/service.go, and the C05 synchronous-phase scheduler on top of it")
    proved = ctx.prove(["AlgoVerif.Props.C05"])
    ok, out = ctx.lean_build(["c01abs"])
    if not ok:
        raise RuntimeError(out[-800:])
    ctx.cov["rule"] = ("a case = one schedule of a real multi-node run: asynchronous prefix, synchrony point, synchronous phase until the target round is committed by "
                       "every honest node; non-trivial = at the synchrony point the honest nodes were in different rounds or periods, or in a period > 0, or past the cert step; "
                       "distinct by construction (schedule seeds; node counts 4–7, prefix profiles, two schedulers, three delay bounds)")
    exe = netdrive.build_test_binary(ctx)
    if exe is None:
        return
    stats = new_stats()
    tmo = 3000
    if replay is not None and replay.get("kind") == "player":
        player_tie(ctx, exe, stats)
        finish_cov(ctx, stats)
        return
    if replay is not None:
        rp = os.path.join(ctx.work, "replay.sched")
        open(rp, "w").write("\n".join(replay["sched"]) + "\n")
        test = replay.get("test", "TestVerifC05")
        for i in range(2):
            sh = netdrive.run_shard(ctx, exe, "replay%d" % i, {"VERIF_REPLAY": rp}, tmo, test=test)
            analyse(ctx, sh, stats, corpus_name=replay.get("corpus"), test=test)
            if ctx.violations:
                break
        finish_cov(ctx, stats)
        return
    run_corpus(ctx, exe, stats, tmo)
    player_tie(ctx, exe, stats)
    total = ctx.budget(20, 1600)
    if not proved:
        total *= 4
    scale = os.environ.get("VERIF_BUDGET_SCALE")
    if scale and scale.isdigit():
        total = max(1, total * int(scale) // 100)
    nsh = ctx.budget(4, 8)
    per = (total + nsh - 1) // nsh
    jobs = [("shard%d" % i, i * per, min(total, (i + 1) * per)) for i in range(nsh) if i * per < total]
    with concurrent.futures.ThreadPoolExecutor(max_workers=len(jobs)) as ex:
        groups = list(ex.map(lambda j: run_range(ctx, exe, j[0], j[1], j[2], {}, tmo), jobs))
    for g in groups:
        for sh in g:
            analyse(ctx, sh, stats)
    finish_cov(ctx, stats)


def finish_cov(ctx, stats):
    ctx.cov["evaluations"] = stats["synced"] + stats["player"].get("situations", 0)
    ctx.cov["distinct_nontrivial"] = stats["nontrivial"]
    ctx.cov["samples"] = stats["samples"]
    ctx.cov["distribution"] = {
        "schedules": stats["schedules"], "with_synchrony_point": stats["synced"], "node_counts": stats["nodes"], "prefix_profiles": stats["profiles"],
        "schedulers": stats["modes"], "byzantine_active_after_sync": stats["byz_active"],
        "periods_to_commit (certificate period of the target round − largest honest period at the synchrony point)": stats["k_dist"],
        "periods_to_commit, schedules with Byzantine proposals after the synchrony point": stats["k_dist_byzled"],
        "K_monitored": K_BOUND, "largest_period_at_sync": stats["p0_dist"], "state_at_sync": stats["spread"],
        "target_block_obtained_by": stats["how"], "step_timers_fired_in_sync_phase": stats["fires_t"], "fast_timers_fired_in_sync_phase": stats["fires_f"],
        "deadline_transitions_checked": stats["dl_checked"], "round_histories_accepted_by_c01abs": stats["histories"], "abstract_events": stats["events"],
        "ensure_block_calls": stats["ensure"], "single_node_tie (real player vs reaction functions of the model)": stats["player"], "decisions": stats["decisions"], "harness_notes": stats["harness_notes"], "monitor_hits": stats["problems"]}
    ctx.say("C05: %d schedules (%d with a synchrony point, %d non-trivial), periods-to-commit %s, %d deadline transitions checked, %d violations"
            % (stats["schedules"], stats["synced"], stats["nontrivial"], json.dumps(stats["k_dist"], sort_keys=True), stats["dl_checked"], len(ctx.violations)))
    if stats["schedules"] and stats["events"] == 0:
        ctx.tie_failures.append("NetDrive produced no abstract events: the hooks saw nothing")
    if stats["schedules"] > 1 and stats["synced"] == 0:
        ctx.tie_failures.append("no schedule reached its synchrony point")


def replay(ctx, path):
    r = json.load(open(path))
    if r.get("kind") == "player" or (r.get("kind") == "netdrive" and r.get("sched")):
        run(ctx, replay=r)
        return
    run(ctx)


if __name__ == "__main__":   # debugging aid: python3 checks/C05.py <output dir of TestVerifC05>
    sh = {"dir": sys.argv[1]}
    scheds, logs = netdrive.schedules_of(sh), netdrive.logs_of(sh)
    for sid in sorted(scheds):
        pr = progress(scheds[sid], logs.get(sid, []))
        if pr["synced"]:
            print(sid, netdrive.kv(scheds[sid][0]).get("profile"), "n=%s" % pr["n"], pr["mode"], "Δ=%d" % pr["delta"], "byz=%d" % pr["byz"], "P0=%d" % pr["P0"], "k=%s" % pr["k"],
                  "maxp=%d" % pr["max_period"], "spreadR=%d spreadP=%d step=%d" % (pr["spread_rounds"], pr["spread_periods"], pr["max_step_at_sync"]),
                  "fires=%s" % pr["fires"], "dec=%s" % (pr["end"] or {}).get("decisions"), "byzp=%d" % pr["byz_periods"], pr["how"], pr["problems"])
        else:
            print(sid, "not synced")
