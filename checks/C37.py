"""C37 — Merkle array proofs are complete and sound.

Ties: F (two source facts observed on the real functions select the model variant the theorems are
about) + C (real Build/Prove/Verify/VerifyVectorCommitment/pair.ToBeHashed vs the Lean model, digests
byte-identical through a Lean SHA-512/256, SHA-256, SHA-512 validated against crypto.HashFactory in the
same run) + property monitor on the implementation's own outputs."""
import os
import common

def _items(s):
    return [] if s == "-" else s.split(",")

def honest_depth(n):
    return 0 if n <= 1 else (n - 1).bit_length()

def monitor(op, out):
    """Property predicate on the implementation output alone. Returns None or (kind, text)."""
    f = op.split()
    if not f:
        return None
    if f[0] == "pv" and len(f) >= 5:
        arr = _items(f[3]); idxs = [int(x) for x in _items(f[4])]
        n = len(arr)
        if not idxs or n == 0 or any(i >= n for i in idxs):
            return None               # Prove's argument errors: pinned by the model only
        if "verify=ok" not in out.split():
            return ("completeness", "honest proof of positions %s of a %d-element %s does not verify: %s"
                    % (idxs, n, "vector commitment" if f[2] == "1" else "array", out))
        return None
    if f[0] != "vf" or len(f) < 9:
        return None
    vc, arr, depth, elems, mut = f[2], _items(f[3]), int(f[5]), _items(f[7]), " ".join(f[8:])
    if mut.startswith("dsep") or not elems:
        return None                   # outside the hypotheses (leaf pre-image with the node prefix) / vacuous
    n = len(arr)
    res = out.split()[0] if out.split() else ""
    honest_root = "honest=1" in out.split()
    pe = []
    for it in elems:
        p, e = it.split(":", 1)
        pe.append((int(p), e))
    member = all(p < n and arr[p] == e for p, e in pe)
    kind = "vector commitment" if vc == "1" else "plain tree"
    palg = f[1].split("/")[-1]
    if res == "ok" and palg.isdigit() and int(palg) >= 4:
        p, e = pe[0]
        return ("invalid-hash-type", "%s of %d elements%s: a proof whose HashFactory has the invalid hash type %s verifies element %s at position %d%s"
                % (kind, n, " (root = empty digest)" if n == 0 and honest_root else "", palg,
                   ("arr[%d]" % arr.index(e)) if e in arr else "that is not in the array", p,
                   "" if honest_root else " against a root that is not the array's"))
    if res == "ok":
        if not honest_root:
            return ("different-root", "%s: a proof verifies against a root that is not the root of the array" % kind)
        if depth != honest_depth(n):
            bad = [(p, e) for p, e in pe if not (p < n and arr[p] == e)]
            extra = ""
            if bad:
                p, e = bad[0]
                src = arr.index(e) if e in arr else None
                extra = "; it proves element %s at position %d, which is %s" % (
                    ("arr[%d]" % src) if src is not None else "a foreign element", p,
                    "out of range" if p >= n else "not that element's position")
            return ("tree-depth", "%s of %d elements (depth %d): a proof whose TreeDepth says %d verifies%s"
                    % (kind, n, honest_depth(n), depth, extra))
        if not member:
            p, e = [(p, e) for p, e in pe if not (p < n and arr[p] == e)][0]
            if p >= n:
                return ("out-of-range-position", "%s of %d elements: the proof verifies element %s at position %d (out of range)"
                        % (kind, n, ("arr[%d]" % arr.index(e)) if e in arr else "foreign", p))
            return ("wrong-element-or-position", "%s of %d elements: the proof verifies %s at position %d"
                    % (kind, n, ("arr[%d]" % arr.index(e)) if e in arr else "a foreign element", p))
        return None
    if mut == "none" and honest_root and member and depth == honest_depth(n):
        return ("completeness", "%s: honest proof rejected with %s" % (kind, res))
    return None

def trivial(op):
    f = op.split()
    if f[0] == "pv":
        return len(_items(f[3])) <= 1 or f[4] == "-"
    if f[0] == "vf":
        return len(_items(f[3])) <= 1
    return f[0] in ("sha", "pair") and len(f[-1]) <= 2

def kind_of(op):
    f = op.split()
    if f[0] == "vf":
        m = f[8] if len(f) > 8 else "?"
        return "vf:%s:%s" % ("vc" if f[2] == "1" else "plain", m.split("[")[0])
    if f[0] == "pv":
        return "pv:%s" % ("vc" if f[2] == "1" else "plain")
    return f[0]

def run(ctx, replay_ops=None):
    ctx.overlay()
    ctx.assumptions += [
        "soundness: every digest of the honest tree has a single pre-image under H (collision-freeness restricted to the honest tree; hypothesis `UniquePre`), H outputs exactly `d` bytes and never the all-zero digest",
        "soundness: leaf pre-images (array elements and presented elements) do not start with the node prefix \"MA\" (hash-id domain separation)",
        "elements are identified with their hash pre-image HashRep(e); Array.Marshal never fails; proof != nil",
        "the hash function is a parameter of every theorem; the Lean SHA-2 used by the driver is validated against crypto.HashFactory on every run, not proved",
        "sumhash (state-proof hash) trees are not in the tie (same generic code path; digest size 64 covered through sha512)",
    ]
    proved = ctx.prove(["AlgoVerif.Props.C37"])
    ok, out = ctx.lean_build(["c37"])
    if not ok:
        raise RuntimeError("driver does not build: " + out[-800:])

    # --- tie F: which pair encoding / depth rule does the CURRENT tree implement?
    rc, out = ctx.go_test("./crypto/merklearray", "TestVerifC37Facts")
    facts_path = os.path.join(ctx.work, "c37.facts")
    if rc != 0 or not os.path.exists(facts_path):
        ctx.tie_failures.append("fact extraction TestVerifC37Facts failed (rc=%d): %s" % (rc, out[-400:]))
        enc, dep, hck = "fixed", "depth", "hashcheck"
    else:
        enc, dep, hck = (open(facts_path).read().split() + ["other"])[:3]
    ctx.cov["distribution"]["fact:encoding=" + enc] = 1
    ctx.cov["distribution"]["fact:depthcheck=" + dep] = 1
    ctx.cov["distribution"]["fact:hashcheck=" + hck] = 1
    ctx.notes.append("source facts observed on the real code: pair encoding=%s, TreeDepth check=%s, HashFactory validity check=%s" % (enc, dep, hck))
    ctx.say("C37 facts: encoding=%s depthcheck=%s hashcheck=%s" % (enc, dep, hck))
    if enc != "fixed":
        ctx.tie_failures.append("pair.ToBeHashed writes the right child at %s: theorem verify_sound is about the fixed-offset encoding and does not "
                                "apply to this tree (verify_unsound_witness does)" % ("len(left)" if enc == "lenl" else "an unrecognised offset"))
    if dep != "depth":
        ctx.tie_failures.append("verifyPath does not compare the levels walked with Proof.TreeDepth (%s): the depth clause of verify_sound and verifyVC_sound do not "
                                "apply to this tree (vc_depth_unsound_witness / depth_unchecked_witness do)" % dep)
    if hck != "hashcheck":
        ctx.tie_failures.append("Verify uses a proof's HashFactory without validating it (%s): the soundness theorems assume a hash with non-empty digests "
                                "(hypothesis hnz), which an invalid factory violates; invalid_hash_rejected does not apply (invalid_hash_unsound_witness does)" % hck)
    args = ["fixed" if enc == "fixed" else "lenl", "depth" if dep == "depth" else "nodepth",
            "hashcheck" if hck == "hashcheck" else "nohashcheck"]

    env = {"VERIF_C37_CORPUS": os.path.join(os.path.dirname(os.path.dirname(os.path.abspath(__file__))), "corpus", "C37")}
    if not proved:
        env["VERIF_BUDGET_SCALE"] = "1000" if ctx.tier == "quick" else "300"
    ctx.cov["rule"] = ("arrays of size 0..6 (thorough 0..9) with EVERY position subset, plain and vector commitment, sha512_256 and sha256 "
                       "(sha512 on a few shapes): Build+Prove+Verify (pv); for each, a stream of single-field mutations of the honest proof "
                       "(element fresh/other/extended; position ±1, n, n+1, 2^depth, sibling, all positions < 2^(depth+1) for singletons; root bit/empty/extended; "
                       "path entry emptied/extended/zeros/too long/bit flip/truncated/shifted/dropped/duplicated/swapped/appended; elements dropped/added; "
                       "TreeDepth ±1, +2, 0, 63, 64, 255; TreeDepth±k with positions re-mapped by 2^k; proof HashFactory = other valid type / invalid types 4, 99, 65535 "
                       "with the honest or the empty root and path) as complete verification instances (vf); the EMPTY array against every proof shape; "
                       "seeded random arrays up to 1024 leaves with random subsets; all |l|,|r| ≤ 2d+2 for pair.ToBeHashed; SHA validation vectors. "
                       "trivial = arrays of ≤ 1 element / empty subsets; distinct = distinct op lines (elements are globally distinct)")
    res = common.correspondence(ctx, pkg="./crypto/merklearray", test="TestVerifC37", name="c37",
                                drivers=[("c37", args, "model-" + "-".join(args))], trivial=trivial, kind_of=kind_of, env=env,
                                model_is_spec=False, monitor=None,
                                what="merklearray output differs from the model variant selected by the observed source facts",
                                replay_ops=replay_ops)
    if res is None:
        return
    ops, impl, _bad = res
    # --- property monitor on the real code's outputs: one violation per kind, smallest witness first
    hits = {}
    for op, a in zip(ops, impl):
        h = monitor(op, a)
        if h:
            kind, text = h
            cur = hits.get(kind)
            # prefer a witness that shows a wrong position over a bare depth change, then the shortest
            score = (0 if "it proves" in text or kind != "tree-depth" else 1, len(op))
            if cur is None or score < cur[0]:
                hits[kind] = (score, op, a, text)
            hits.setdefault("#" + kind, [0])[0] += 1
    for kind in sorted(k for k in hits if not k.startswith("#")):
        _, op, a, text = hits[kind]
        ctx.notes.append("%d inputs violate the property with kind %s" % (hits["#" + kind][0], kind))
        ctx.violation("monitor: " + text,
                      {"kind": "monitor", "violation_kind": kind, "ops": [op], "impl_out": a,
                       "harness": {"pkg": "./crypto/merklearray", "test": "TestVerifC37", "name": "c37"}},
                      found_input=True, match_key={"kind": kind})

    # an unmet source fact whose defect family produced no concrete witness is still reported on its own
    if replay_ops is not None:
        return
    if enc != "fixed" and not ({"out-of-range-position", "wrong-element-or-position"} & set(hits)):
        ctx.violation("pair encoding %s: verify_sound does not apply and no accepted forged position was found" % enc,
                      {"kind": "unchecked", "broken_ties": ["encoding=" + enc]}, found_input=False)
    if hck != "hashcheck" and "invalid-hash-type" not in hits:
        ctx.violation("HashFactory validity check %s: no accepted proof with an invalid hash type was found" % hck,
                      {"kind": "unchecked", "broken_ties": ["hashcheck=" + hck]}, found_input=False)
    if dep != "depth" and "tree-depth" not in hits:
        ctx.violation("TreeDepth check %s: depth_rule does not apply and no accepted wrong-depth proof was found" % dep,
                      {"kind": "unchecked", "broken_ties": ["depthcheck=" + dep]}, found_input=False)

def replay(ctx, path):
    common.std_replay(ctx, path, run)
