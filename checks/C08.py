"""C08 — ledger queries answer from the block history, not from flush timing.
Tie C: the REAL trackers (trackerRegistry + accountUpdates + onlineAccounts + txTail over a mock ledger with a real sqlite tracker
DB) driven by HistGen x SchedGen, against (a) the history oracle Spec.LedgerHistory and (b) the code-shaped Model.AcctUpdates.
Monitors on the implementation alone: the same history under different flush / reload / cache schedules and configurations
gives identical answers; rounds in [latest - MaxAcctLookback, latest] are always served; commits never fail."""
import re
import common, au_common
from au_common import kv, strip_vt


def is_q(op):
    return op.startswith("q ") or op.split(" ", 1)[0] in ("reset", "block", "commit", "reload", "flush", "evict")


def metamorphic(ctx, run):
    """same history (hist=<h>) under different variants: identical answers to identical questions wherever both serve"""
    seen = {}        # (hist, nblocks, query) -> (answer, index)
    hist, nblocks, lb = None, 0, 0
    reported = 0
    stats = {"pairs": 0, "served-window": 0}
    for i, (op, a) in enumerate(zip(run.ops, run.impl)):
        if op.startswith("reset"):
            d = kv(op)
            hist, nblocks, lb = d["hist"], 0, int(d["lb"])
            continue
        if op.startswith("block"):
            nblocks += 1
            continue
        if op.startswith("commit") or op.startswith("reload"):
            if not a.startswith("ok"):
                ctx.violation("monitor: %s failed: %s" % (op.split()[0], a[:160]),
                              {"kind": "monitor", "ops": run.ops[run.start[i]:i + 1], "impl_out": a, "harness": au_common.HARNESS}, found_input=True)
                return stats
            continue
        if not op.startswith("q ") or a == "dead":
            continue
        r = kv(op).get("r")
        if a == "err before-db":
            # the ledger must still serve MaxAcctLookback rounds behind the latest one
            if r is not None and int(r) + lb >= nblocks and int(r) <= nblocks:
                ctx.violation("monitor: round %s is within MaxAcctLookback=%d of latest=%d but is not served" % (r, lb, nblocks),
                              {"kind": "monitor", "ops": run.ops[run.start[i]:i + 1], "impl_out": a, "harness": au_common.HARNESS}, found_input=True)
                return stats
            continue
        if r is not None and int(r) + lb >= nblocks:
            stats["served-window"] += 1
        if au_common.wrong_type_query(op):
            continue
        key = (hist, nblocks, op)
        ans = strip_vt(a)
        if key in seen:
            stats["pairs"] += 1
            if seen[key][0] != ans and reported < 3:
                reported += 1
                j = seen[key][1]
                ctx.violation("monitor: the same history answers %r differently under two flush schedules: %r vs %r" % (op, seen[key][0], ans),
                              {"kind": "monitor-metamorphic", "ops": run.ops[run.start[i]:i + 1], "other_ops": run.ops[run.start[j]:j + 1],
                               "impl_out": a, "other_out": run.impl[j], "harness": au_common.HARNESS}, found_input=True)
        else:
            seen[key] = (ans, i)
    return stats


def run(ctx, replay_ops=None):
    ctx.overlay()
    ctx.assumptions += [
        "histories are well formed as the evaluator produces them (History.WF): a creatable index has one type; resource records are full "
        "(a part that is neither set nor deleted did not exist before); KvValueDelta.OldData is the value before the round; a creatable is "
        "created only while it does not exist",
        "interleaving at operation granularity: a reader never overlaps a commit (the RWMutex / accountsReadCond dance and the window between a "
        "reader's DB read and its writePending are not explored); the DB-round re-check is modelled and proved to succeed on reachable states",
        "SQLite row ids (addrid) are not modelled: resources are keyed by (address, creatable index); account data and resource values are opaque tags",
        "LRU eviction happens where the code does it (newBlock, after the pending writes were applied); the harness's evict does exactly that tail",
    ]
    proved = ctx.prove(["AlgoVerif.Props.C08"])
    okb, out = ctx.lean_build(["au"])
    if not okb:
        raise RuntimeError("driver au does not build: " + out[-800:])
    env = {} if proved else {"VERIF_BUDGET_SCALE": "400" if ctx.tier == "quick" else "200"}
    ctx.cov["rule"] = ("cases = histories (HistGen: 6-12 accounts, 5 assets, 3 apps, <=10 box names under 2-3 app prefixes; payments, closes and "
                       "re-creations, asset create/opt-in/transfer/opt-out/reconfigure/destroy, app create/opt-in/close-out/update/delete, box "
                       "create/resize/rewrite/delete, one protocol upgrade) x 2 variants (SchedGen: MaxAcctLookback in {0,1,2,4,8}, LRU on/off, pending "
                       "buffers 1-4; commit styles eager / lazy / never / mixed-with-reloads; evictions to 0-2 entries; flushCaches); after every block a "
                       "batch of point queries at rounds latest-0..10 and beyond latest, keys present / deleted / never existing / re-created / wrong type. "
                       "Trivial = schedule and block lines; distinct = distinct (case prefix length, query) pairs")
    run_ = au_common.run_au(ctx, "c08", env, replay_ops)
    if run_ is None:
        return
    ctx.account(run_.ops, trivial=lambda op: not op.startswith("q "), kind_of=lambda op: " ".join(op.split()[:2]) if op.startswith("q ") else op.split()[0])
    au_common.compare(ctx, run_, is_q, "lookup differs from the value obtained by applying the blocks up to that round to genesis",
                      "lookup / commit output differs from Model.AcctUpdates")
    stats = metamorphic(ctx, run_)
    dist = ctx.cov["distribution"]
    dist["metamorphic pairs compared"] = stats["pairs"]
    dist["queries inside the guaranteed window"] = stats["served-window"]
    for op, a in zip(run_.ops, run_.impl):
        if op.startswith("q "):
            k = "answer:" + (a.split()[0] + " " + a.split()[1] if a.startswith("err") else a.split()[0])
            dist[k] = dist.get(k, 0) + 1


def replay(ctx, path):
    common.std_replay(ctx, path, run)
