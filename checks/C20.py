"""C20 — proposed blocks validate and evaluation is deterministic.

Proof: AlgoVerif.Props.C20 over Model.BlockEval (block-level evaluation on top of Model.LedgerCore): generate_validates,
generate_fields_rederivable, eval_deterministic, accepted_fields_unique, validate_rejects_* (partial w.r.t. the property text:
Props.C20.unmodelledHeaderFields; prefetcher / verification pool / caches are not modelled at all).

Tie C (harness/ledger/zz_verif_c20_test.go, TestVerifC20): a real producing Ledger A and an independent real Ledger B; random
pools of valid / invalid signed groups are assembled exactly as data/pools' AssembleBlock drives the evaluator
(Ledger.StartEvaluator → TransactionGroup, failing groups dropped → GenerateBlock → FinishBlock); the finished block is
validated by the real Ledger.Validate / eval.Eval in many configurations and mutated in single header fields.

Monitors on the IMPLEMENTATION ALONE (a hit is a violation with the replayable prefix of the case):
  M1  the evaluator starts, every pool yields a block (GenerateBlock does not fail);
  M2  every assembled block is accepted in every configuration (real execution pool, 1/3/7-worker pools with seeded jitter,
      warm verified-transaction cache, mocked signatures, prefetcher off, validate=false as AddBlock evaluates, ledger A
      reloaded / reopened from disk, the independent ledger B);
  M3  the canonical StateDelta (accounts, asset resources, creatables, txids, leases, kv mods, totals, state-proof-next,
      header hash) is identical in all configurations;
  M4  every single-field mutation of the header / payset is rejected;
  M5  after the block is added to A (validated delta) and to B (own evaluation) both ledgers hold the same state;
  MP  blocks taken from the REAL TransactionPool.AssembleBlock after Remember / re-evaluation are accepted by
      Ledger.Validate, twice, with identical deltas (harness/data/pools/zz_verif_c20pool_test.go);
  M7  the producer's own state change (GenerateBlock, no prefetcher) and every validation agree on asset / application
      resources, creatables, boxes and txids (everything that does not depend on the proposer);
  M6  header arithmetic: payset size, txn counter and fees collected equal what the accepted groups imply; the producer's
      payout equals min(pct·fees/100 + bonus, fee sink balance − min balance) and the finished block's payout is ≤ it.
Correspondence with the model (driver `c20`): rewards state + pool withdrawal at block start, every group, the derived header
fields, the validated state delta, the rejection class of the modelled mutations.  A model mismatch without a monitor hit is
reported as a broken tie (no-failing-input-found)."""
import os, random, re
import common

PKG, TEST, NAME = "./ledger", "TestVerifC20", "c20"
HZ = {"pkg": PKG, "test": TEST, "name": NAME}
M64 = 1 << 64


def kv(line):
    d = {}
    for tok in line.split():
        k, s, v = tok.partition("=")
        if s:
            d[k] = v
    return d


def split_cases(ops, impl):
    cases, cur = [], None
    for i, (o, a) in enumerate(zip(ops, impl)):
        if o.startswith("reset") or cur is None:
            cur = {"start": i, "lines": []}
            cases.append(cur)
        cur["lines"].append((o, a))
    return cases


def parse_group(op):
    rest = op[5:].strip()
    return [t.split(",") for t in rest.split(";")] if rest else []


def monitor(case, dist=None):
    """the property predicate on the implementation's outputs alone → None | (idx_in_case, message)"""
    def cnt(k):
        if dist is not None:
            dist[k] = dist.get(k, 0) + 1
    blk = None      # per-block state
    apps_case = False
    for idx, (op, out) in enumerate(case["lines"]):
        k = op.split(" ", 1)[0]
        if out.startswith("PANIC"):
            return idx, "the implementation panicked: " + out[:200]
        if k == "reset":
            if out != "ok":
                return idx, "ledger could not be created: " + out[:200]
            p = kv(op)
            cnt("proto:" + p.get("proto", "?"))
            cnt("ledgerA:" + ("disk" if p.get("disk") == "1" else "mem") + ("/nolru" if p.get("nolru", "0")[0] == "1" else "/lru"))
            cnt("case:" + ("apps" if p.get("apps") == "1" else "lcore-kinds"))
            apps_case = p.get("apps") == "1"
        elif k == "block":
            if out.startswith("start-error"):
                return idx, "M1: the node could not start the evaluator for the next block: " + out[:200]
            if out.startswith("DIVERGED"):
                cnt("replay:diverged-block-start")   # (replay of a recorded case on a different tree)
            p = kv(op)
            blk = {"ctr0": int(p.get("ctr", 0)), "sink": p.get("sink", "7"), "payouts": p.get("payouts") == "1", "n": 0, "fees": 0,
                   "pct": int(p.get("pct", 0)), "bonus": int(p.get("bonus", 0)), "mb": int(p.get("reqs", "100000").split(",")[0]), "sinkacct": p.get("A" + p.get("sink", "7")),
                   "x": {}, "ok": 0, "gen": None, "hdr": None, "level0": int(p.get("prs", "0").split(",")[0]), "level": int(p.get("level", 0))}
            cnt("block:level-" + ("moves" if blk["level"] != blk["level0"] else "constant"))
        elif k == "group":
            if blk is None or " | " not in out:
                return idx, "unparseable group result " + out[:120]
            cls = out.split(" | ", 1)[0]
            cnt("group:" + ("accepted" if cls == "ok" else "rejected"))
            if apps_case:
                for t in parse_group(op):
                    if t[0] == "appl":
                        cnt("appl:%s:%s" % ({"0": "noop", "1": "optin", "2": "closeout", "3": "clear", "4": "update", "5": "delete"}.get(t[8], "?") if t[7] != "0" else "create",
                                            "accepted" if cls == "ok" else "rejected"))
            blk["sinkacct"] = kv(out.split(" | ", 1)[1]).get("A" + blk["sink"], blk["sinkacct"])
            if cls == "ok":
                g = parse_group(op)
                blk["n"] += len(g)
                blk["fees"] += sum(int(t[2]) for t in g if t[1] != blk["sink"])
        elif k == "gen":
            if not out.startswith("gen "):
                return idx, "M1: block generation failed on a pool the evaluator itself accepted: " + out[:200]
            blk["gen"] = kv(out)
            cnt("gen:expired-" + ("none" if blk["gen"].get("exp") == "-" else "some"))
            cnt("gen:absent-" + ("none" if blk["gen"].get("abs") == "-" else "some"))
        elif k == "hdr":
            if out.startswith("DIVERGED"):
                cnt("replay:diverged-lists")
                continue
            if not out.startswith("hdr "):
                return idx, "unparseable header line " + out[:120]
            h = kv(out)
            blk["hdr"] = h
            cnt("blocksize:" + ("0" if h["payset"] == "0" else "1-5" if int(h["payset"]) <= 5 else "6-15" if int(h["payset"]) <= 15 else ">15"))
            cnt("payout:" + ("zero" if h["payout"] == "0" else "paid"))
            # M6
            if int(h["payset"]) != blk["n"]:
                return idx, "M6: the block holds %s transactions but the accepted groups hold %d" % (h["payset"], blk["n"])
            if int(h["ctr"]) != blk["ctr0"] + blk["n"]:
                return idx, "M6: TxnCounter %s ≠ previous counter %d + %d accepted transactions" % (h["ctr"], blk["ctr0"], blk["n"])
            want = blk["fees"] % M64 if blk["payouts"] else 0
            if int(h["fees"]) != want:
                return idx, "M6: FeesCollected %s ≠ %d (fees of the accepted transactions)" % (h["fees"], want)
            if int(h["payout"]) > int(h["maxpayout"]):
                return idx, "M6: ProposerPayout %s above the bound %s the producer computed" % (h["payout"], h["maxpayout"])
            if blk["sinkacct"] and "ERR" not in blk["sinkacct"]:
                sa = blk["sinkacct"].split(",")
                avail = max(0, int(sa[1]) - blk["mb"] * (1 + int(sa[5])))
                bound = min(int(h["fees"]) * blk["pct"] // 100 + blk["bonus"], avail) if blk["payouts"] else 0
                if int(h["maxpayout"]) != bound:
                    return idx, ("M6: the payout the producer wrote (%s) is not min(%d%% of FeesCollected %s + bonus %d, the fee sink's available balance %d) = %d — the bound validation re-derives"
                                 % (h["maxpayout"], blk["pct"], h["fees"], blk["bonus"], avail, bound))
            if int(h["rs"].split(",")[0]) != blk["level"]:
                return idx, "M6: the header's RewardsLevel %s differs from the level the evaluator ran with (%d)" % (h["rs"].split(",")[0], blk["level"])
        elif k == "validate":
            cfg = kv(op).get("cfg", "?")
            cnt("validate:" + cfg.rstrip("0123456789"))
            if not out.startswith("ok "):
                return idx, "M2: a block assembled by the node is REJECTED by validation in configuration %s: %s" % (cfg, out[:200])
            hd = kv(out.split(" | ", 1)[0])
            x = hd.get("x", "?")
            # M7: the proposer-independent part of the state change (asset / application resources, creatables, kv mods, txids)
            # computed by the PRODUCER (GenerateBlock, no prefetcher) equals the one validation computes
            if blk["gen"] and blk["gen"].get("res") and hd.get("res") != blk["gen"]["res"]:
                return idx, ("M7: validation (%s) computes a different state change for asset / application resources, creatables, boxes or txids "
                             "than the producer computed while assembling the block (%s vs %s)" % (cfg, hd.get("res"), blk["gen"]["res"]))
            blk["x"][cfg] = (x, out.split(" | ", 1)[1] if " | " in out else "")
            ref_cfg, (ref_x, ref_txt) = next(iter(blk["x"].items()))
            if x != ref_x:
                a, b = first_diff(ref_txt, blk["x"][cfg][1])
                return idx, "M3: the state delta of the same block on the same state differs between configurations %s and %s: %s vs %s" % (ref_cfg, cfg, a, b)
            # the totals line must carry the header's rewards level
            m = re.search(r" lvl=(\d+)", out)
            if m and blk["hdr"] and m.group(1) != blk["hdr"]["rs"].split(",")[0]:
                return idx, "M6: totals carry rewards level %s, header %s" % (m.group(1), blk["hdr"]["rs"].split(",")[0])
        elif k == "mutate":
            what = op.split()[1]
            if out.startswith("ACCEPTED"):
                return idx, "M4: the block with the single mutation `%s` is ACCEPTED by validation" % " ".join(op.split()[1:])
            if not out.startswith("rejected"):
                return idx, "unexpected mutation result " + out[:120]
            cnt("mutate:" + what + "→" + out.split()[1].split(":")[0])
        elif k == "commit":
            m = re.match(r"ok rnd=(\d+) sa=(\w+) sb=(\w+)$", out)
            if not m:
                return idx, "M5: the validated block could not be added: " + out[:200]
            if m.group(2) != m.group(3):
                return idx, "M5: after adding the block, ledger A (validated delta) and ledger B (own evaluation) hold different states"
        elif k == "dump":
            pass
        else:
            return idx, "unknown op " + op[:80]
    return None


def first_diff(a, b):
    ta, tb = a.split(), b.split()
    for x, y in zip(ta, tb):
        if x != y:
            return x[:120], y[:120]
    if len(ta) != len(tb):
        return (" ".join(ta[len(tb):])[:120] or "<end>"), (" ".join(tb[len(ta):])[:120] or "<end>")
    return a[:120], b[:120]


def model_agrees(op, a, m, notes):
    """compare one implementation line with the model's; returns True / False"""
    if m == common.SKIP:
        return True
    k = op.split(" ", 1)[0]
    if k == "validate":
        am, mm = a.split(" | "), m.split(" | ")
        if am[0].split()[0] != mm[0].split()[0]:
            return False
        if len(am) < 2 or len(mm) < 2:
            return am[0].split()[0] != "ok"
        if am[1] == mm[1]:
            return True
        if sorted(am[1].split()) == sorted(mm[1].split()):
            notes["order-only"] = notes.get("order-only", 0) + 1      # same records, different order (the producer's list order is free)
            return True
        return False
    if k == "mutate":
        return a.split()[:2] == m.split()[:2]
    return a == m


def run(ctx, replay_ops=None):
    ctx.overlay()
    ctx.assumptions += [
        "Model.BlockEval covers: RewardsState (regenerated NextRewardsState), the rewards withdrawal, the producer loop (failing groups dropped), TxnCommitments as an abstract function of the payset, TxnCounter, FeesCollected, the ProposerPayout bound (Model.C24), Proposer, Bonus, the expired / absent lists with the code's own validators (absentee criterion abstract), StateProofTracking as an abstract value, FinishBlock / WithProposer, performPayout, recordProposal; transaction groups are those of Model.LedgerCore (payment, keyreg, asset config / transfer / freeze)",
        "NOT modelled (Props.C20.unmodelledHeaderFields): Round/Branch/Seed/TimeStamp/Genesis*/Upgrade*/CongestionTax/Load, ApplyData and its comparison, payset encoding (DecodePaysetGroups), CalculateTotals, application calls / state proofs / heartbeats / rekeying / leases, protocol upgrades between consecutive blocks; for these the check is implementation-vs-implementation (monitors M1–M6)",
        "prefetcher, verification pool, verified-transaction cache and account caches are outside the model: their scheduling is SAMPLED (configurations of the harness), not proved",
        "generate_validates assumes the proposer is non-zero when payouts are enabled (agreement always names one) and that the payout credit to the proposer does not overflow its balance (explicit hypothesis `hp`)",
        "the expired / absent lists of a produced block are inputs of the model (the producer's choice depends on Go map iteration and the online-account tracker); the driver trusts the implementation's evaluation of the abstract absentee criterion for the listed accounts",
    ]
    ok_gen, _ = ctx.go2lean(["Fees", "Rewards"])   # Gen.Fees (MinBalance, CheckGroupFees, payout helpers) and Gen.Rewards (NextRewardsState) are regenerated from the tree
    proved = ok_gen and ctx.prove(["AlgoVerif.Props.C20"])
    ok, out = ctx.lean_build(["c20"])
    if not ok:
        raise RuntimeError("driver c20 does not build: " + out[-800:])
    env = {}
    if not proved:
        env["VERIF_BUDGET_SCALE"] = "300" if ctx.tier == "quick" else "150"
    if replay_ops is not None:
        rp = os.path.join(ctx.work, NAME + ".replay")
        open(rp, "w").write("\n".join(replay_ops) + "\n")
        env["VERIF_REPLAY"] = rp
    ctx.cov["rule"] = ("a case = a fresh pair of real ledgers (A: in memory or on disk, LRU account caches on/off, MaxAcctLookback 1/2/4, tracker flushes; B: independent replica) from a generated genesis "
                       "(protocols v39 (no payouts), v40, v41, current, future and a test protocol with a 3-round rewards refresh and 3-round absentee challenges; 6 accounts with boundary balances, online accounts "
                       "whose keys expire inside the history, incentive-eligible accounts, fee sink, rewards pool sized so that the level moves) followed by 4–8 blocks; a block = a pool of 0–17 random valid / invalid "
                       "signed groups (LedgerCore generator: payments, closes, keyreg, asset life cycles, fee pooling, dead / duplicate / malformed / overspending members; every third case instead carries APPLICATION CALLS — outside the Lean model, implementation-only monitors — on a TEAL v8 app: creation with / without the creator opting in, opt-ins, the creator bumping its own local state, third parties copying the creator's local state into global state, plain global writes, box writes, update, close-out, clear, delete, in blocks AFTER the one that created / opted in) assembled as AssembleBlock does, finished "
                       "for a random proposer (eligible or not, in / not in the participating set), validated in ≥ 3 of 12 configurations, mutated in a sample of ≤ 30 single header / payset fields, then added to both "
                       "ledgers; evaluations = block evaluations (validate + mutate ops); distinct = distinct (block commitment, configuration / mutation) pairs of non-empty blocks")
    rc, out = ctx.go_test(PKG, TEST, env=env, timeout=5400)
    opsf, implf = os.path.join(ctx.work, NAME + ".ops"), os.path.join(ctx.work, NAME + ".impl")
    if rc != 0 or not os.path.exists(opsf):
        ctx.tie_failures.append("harness %s %s failed to run (rc=%d): %s" % (PKG, TEST, rc, out[-600:]))
        return
    ops, impl = ctx.read_lines(opsf), ctx.read_lines(implf)
    mf = os.path.join(ctx.work, NAME + ".model.out")
    drc = ctx.driver("c20", [], opsf, mf)
    model = ctx.read_lines(mf) if drc == 0 else []
    if drc != 0:
        ctx.tie_failures.append("driver c20 failed rc=%d" % drc)

    cases = split_cases(ops, impl)
    dist = ctx.cov["distribution"]
    for o in ops:
        k = o.split(" ", 1)[0]
        dist[k] = dist.get(k, 0) + 1

    def prefix(case, idx):
        return [o for o, _ in case["lines"][:idx + 1]]

    # coverage: evaluations and distinct non-trivial
    distinct, commit, size = set(), None, 0
    evals = 0
    for o, a in zip(ops, impl):
        if o.startswith("gen "):
            commit = kv(a).get("commit")
        elif o.startswith("hdr"):
            size = int(kv(a).get("payset", 0) or 0)
        elif o.startswith("validate ") or o.startswith("mutate "):
            evals += 1
            if size > 0:
                distinct.add((commit, o))
    ctx.cov["evaluations"] += evals
    ctx.cov["distinct_nontrivial"] += len(distinct)
    rnd = random.Random(ctx.seed)
    cand = [o + "  →  " + a for o, a in zip(ops, impl) if o.startswith(("hdr", "validate", "mutate", "gen "))]
    for s in rnd.sample(cand, min(10, len(cand))):
        ctx.cov["samples"].append(s[:400])

    # 1. monitors on the implementation alone
    hits = 0
    hit_cases = set()
    for c in cases:
        hit = monitor(c, dist)
        if hit:
            hits += 1
            hit_cases.add(c["start"])
            if hits <= 4:
                idx, msg = hit
                ctx.violation("monitor: " + msg, {"kind": "monitor", "ops": prefix(c, idx), "impl_out": c["lines"][idx][1][:2000], "harness": HZ}, found_input=True)
    dist["monitor:cases_checked"] = len(cases)
    dist["monitor:hits"] = hits

    # 2. correspondence with the model
    notes = {}
    case_of = {}
    for c in cases:
        for j in range(len(c["lines"])):
            case_of[c["start"] + j] = c
    bad, seen = 0, set()
    compared = {}
    for i, (o, a) in enumerate(zip(ops, impl)):
        m = model[i] if i < len(model) else "<missing>"
        k = o.split(" ", 1)[0]
        if m != common.SKIP:
            compared[k] = compared.get(k, 0) + 1
        if model_agrees(o, a, m, notes):
            continue
        bad += 1
        c = case_of.get(i)
        if c is None or c["start"] in seen or len(seen) >= 4:
            continue
        seen.add(c["start"])
        hit = c["start"] in hit_cases
        crashed = a.startswith(("PANIC", "start-error", "gen-error", "commit-error")) or "ERR" in a or "UNMODELLED" in a
        x, y = first_diff(a, m)
        if o.startswith("validate") and a.count(" | ") >= 1 and m.count(" | ") >= 1:
            x, y = first_diff(a.split(" | ")[1], m.split(" | ")[1])
        ctx.violation("real evaluator differs from Model.BlockEval at op %d of the case (%s): impl `%s` vs model `%s`" % (i - c["start"], o.split(" ", 1)[0], x, y),
                      {"kind": "correspondence", "driver": "model", "ops": prefix(c, i - c["start"]), "index": i, "impl_out": a[:2000], "model_out": m[:2000], "harness": HZ},
                      found_input=hit or crashed)
    for k, v in compared.items():
        dist["model-compared:" + k] = v
    if bad:
        ctx.notes.append("%d lines differ from the model in total" % bad)
    if notes.get("order-only"):
        ctx.notes.append("%d validated deltas equal the model's up to record order" % notes["order-only"])

    # 3. producer side with the real TransactionPool (5 cases in the quick tier, 200 in the thorough tier)
    if replay_ops is None:
        run_pool(ctx)


def pool_monitor(ops, impl):
    """producer side (the real TransactionPool): every AssembleBlock result is accepted by Ledger.Validate, twice, identically"""
    for i, (o, a) in enumerate(zip(ops, impl)):
        if a.startswith("PANIC"):
            return i, "the implementation panicked: " + a[:200]
        if o.startswith("reset") and a != "ok":
            return i, "ledger / pool could not be created: " + a[:200]
        if o.startswith("asm") or o == "skip":
            if not a.startswith("ok "):
                return i, "a block assembled by the real TransactionPool.AssembleBlock is not accepted by Ledger.Validate: " + a[:300]
            d = kv(a)
            if "x" in d and d["x"] != d.get("y"):
                return i, "two validations of the same assembled block gave different state deltas (%s vs %s)" % (d["x"], d.get("y"))
    return None


def run_pool(ctx, replay_ops=None):
    """tie C, producer side: harness/data/pools/zz_verif_c20pool_test.go (TestVerifC20Pool); implementation-only monitor"""
    env = {}
    if replay_ops is not None:
        rp = os.path.join(ctx.work, "c20pool.replay")
        open(rp, "w").write("\n".join(replay_ops) + "\n")
        env["VERIF_REPLAY"] = rp
    rc, out = ctx.go_test("./data/pools", "TestVerifC20Pool", env=env, timeout=3600)
    opsf, implf = os.path.join(ctx.work, "c20pool.ops"), os.path.join(ctx.work, "c20pool.impl")
    if rc != 0 or not os.path.exists(opsf):
        ctx.tie_failures.append("harness ./data/pools TestVerifC20Pool failed to run (rc=%d): %s" % (rc, out[-600:]))
        return
    ops, impl = ctx.read_lines(opsf), ctx.read_lines(implf)
    dist = ctx.cov["distribution"]
    for o, a in zip(ops, impl):
        k = "pool:" + o.split(" ", 1)[0] + ":" + a.split(" ", 1)[0]
        dist[k] = dist.get(k, 0) + 1
    asm = [(o, a) for o, a in zip(ops, impl) if o.startswith("asm")]
    ctx.cov["evaluations"] += 2 * len(asm)
    ctx.cov["distinct_nontrivial"] += len({a for _, a in asm if " payset=0 " not in a})
    # cases
    start = 0
    hits = 0
    for i in range(len(ops) + 1):
        if i == len(ops) or (ops[i].startswith("reset") and i > start):
            hit = pool_monitor(ops[start:i], impl[start:i])
            if hit and hits < 3:
                hits += 1
                idx, msg = hit
                ctx.violation("monitor (producer = real TransactionPool): " + msg,
                              {"kind": "monitor", "ops": ops[start:start + idx + 1], "impl_out": impl[start + idx][:2000],
                               "harness": {"pkg": "./data/pools", "test": "TestVerifC20Pool", "name": "c20pool"}}, found_input=True)
            start = i
    dist["pool:monitor-hits"] = hits


def replay(ctx, path):
    import json
    r = json.load(open(path))
    if (r.get("harness") or {}).get("name") == "c20pool":
        ctx.overlay()
        run_pool(ctx, replay_ops=r.get("ops"))
    else:
        run(ctx, replay_ops=r.get("ops"))
