"""C17 — Merkle trie root depends only on the element set.

Tie C (stateful line protocol): the REAL crypto/merkletrie Trie over the package's InMemoryCommitter, under varying page
configurations, against the proved model (Model.MerkleTrie: node.go add/remove/find/hash + trie.go root cases + the
abstract commit/evict/reload store) — byte-identical RootHash (SHA-512/256 in Lean, validated by `sha` ops), a structural
dump of the real node graph, Add/Delete flags and GetStats.
Monitors on the implementation alone (independent python set semantics): (a) Add/Delete report membership,
(b) RootHash is a function of the element set across ALL cases of the run (different op orders, commit schedules,
crash points, page configurations), (c) no lost node / panic.
"""
import json, os, hashlib
import common

HARD = ("err:missingnode", "err:other", "err:pagedecode", "err:rootdecode", "err:diskpage-missing", "err:disknode-missing", "err:cycle", "err:notrie", "PANIC", "bad-op")
STORE_OPS = ("commit", "evict", "evictnc", "reload", "reloadbad")


class SetSem:
    """what the property text calls 'the resulting set': plain set semantics of add/delete with the committed image
    (commit / evict / root-of-a-modified-non-empty-trie persist; reload reverts to the persisted image)."""
    def __init__(self):
        self.cur, self.per, self.mod, self.elen = set(), set(), False, None

    def klen(self, k):
        return 0 if k == "-" else len(k) // 2

    def step(self, f):
        """returns the expected implementation answer for add/del (None for ops whose answer the set does not pin)"""
        o = f[0]
        if o == "add":
            k = f[1]
            if not self.cur:
                self.elen = self.klen(k)
                self.cur = {k}; self.mod = True
                return "true"
            if self.klen(k) != self.elen:
                return "err:length"
            if k in self.cur:
                return "false"
            self.cur.add(k); self.mod = True
            return "true"
        if o == "del":
            k = f[1]
            if not self.cur:
                return "false"
            if self.klen(k) != self.elen:
                return "err:length"
            if k in self.cur:
                self.cur.discard(k); self.mod = True
                return "true"
            return "false"
        if o == "commit":
            self.per = set(self.cur); self.mod = False
            return "ok"
        if o == "evict":
            if self.mod:
                self.per = set(self.cur); self.mod = False
            return "ok"
        if o == "evictnc":
            return "err:pending" if self.mod else "ok"
        if o == "reload":
            self.cur = set(self.per); self.mod = False
            self.elen = self.klen(next(iter(self.cur))) if self.cur else None
            return "ok"
        if o == "root":
            if self.cur and self.mod:
                self.per = set(self.cur); self.mod = False
            return None
        return None


def run(ctx, replay_ops=None):
    ctx.overlay()
    ctx.assumptions += [
        "theorems are about the logical trie (node ids, pages, LRU abstracted); the page arithmetic of cache.go (reallocatePage, "
        "deferred page loads, pendingDeletionPages, eviction order) is tied by correspondence only",
        "all keys in one trie have equal length (enforced by Trie.Add/Delete: ErrMismatchingElementLength; WF in the model, shown preserved)",
        "history independence needs no hypothesis on the hash function (the trees are equal); RootHash equality is byte-level through SHA-512/256 implemented in Lean and validated against crypto.Hash on every run",
        "the committer is the package's InMemoryCommitter (atomic page stores; a crash is modelled between operations, not inside Commit)",
    ]
    proved = ctx.prove(["AlgoVerif.Props.C17"])
    okb, out = ctx.lean_build(["c17"])
    if not okb:
        raise RuntimeError("driver c17 does not build: " + out[-800:])
    env = {}
    if not proved:
        env["VERIF_BUDGET_SCALE"] = "1000" if ctx.tier == "quick" else "300"
    ctx.cov["rule"] = ("a case = one `reset <page config>` followed by add/del of keys from a pool built to share prefixes (tiny alphabets, length 1-5; "
                       "32-byte keys diverging at chosen positions; wide fan-out pools), interleaved with commit / evict / reload / crash-reload / root / dump / stats; "
                       "every random case is followed by three variants reaching the same final set another way (sorted fresh build without commits, shuffled build under another "
                       "page configuration with its own commit schedule, superset then deletions); exhaustive: every op sequence of length n over {add k, del k} for small key universes. "
                       "A case is non-trivial when it stores >= 2 distinct keys at some point and contains a store-layer op or a successful delete; distinct = distinct op sequences")
    reps = 1
    if replay_ops is not None:
        reps = 12   # map-iteration order makes the real cache non-deterministic: repeat a replay until it reproduces
    else:
        # corpus first: minimised past disagreements (each file is a sequence of complete cases)
        cdir = os.path.join(os.path.dirname(os.path.dirname(os.path.abspath(__file__))), "corpus", "C17")
        cops = []
        if os.path.isdir(cdir):
            for fn in sorted(os.listdir(cdir)):
                if fn.endswith(".ops"):
                    cops += [l for l in open(os.path.join(cdir, fn)).read().splitlines() if l.strip()]
        if cops:
            one_run(ctx, {}, cops * 3, corpus=True)   # three times: the real cache is not deterministic
    for _ in range(reps):
        n_before = len(ctx.violations)
        one_run(ctx, env, replay_ops)
        if len(ctx.violations) > n_before or ctx.tie_failures:
            break


def one_run(ctx, env, replay_ops, corpus=False):
    name, pkg, test = "c17", "./crypto/merkletrie", "TestVerifC17"
    e = dict(env)
    if replay_ops is not None:
        rp = os.path.join(ctx.work, name + ".replay")
        open(rp, "w").write("\n".join(replay_ops) + "\n")
        e["VERIF_REPLAY"] = rp
    rc, out = ctx.go_test(pkg, test, env=e, timeout=3000)
    opsf, implf = os.path.join(ctx.work, name + ".ops"), os.path.join(ctx.work, name + ".impl")
    if rc != 0 or not os.path.exists(opsf):
        ctx.tie_failures.append("harness %s %s failed to run (rc=%d): %s" % (pkg, test, rc, out[-600:]))
        return
    mf = os.path.join(ctx.work, name + ".model.out")
    drc = ctx.driver("c17", [], opsf, mf, timeout=3000)
    if drc != 0:
        ctx.tie_failures.append("driver c17 failed rc=%d" % drc)
        return
    harness = {"pkg": pkg, "test": test, "name": name}

    dist = ctx.cov["distribution"]
    case_ops = []            # op lines of the current case
    case_keys, case_store, case_del = set(), False, False
    seen_cases = set()
    nontrivial = 0
    roots = {}               # frozenset(keys) -> (root hex, ops of the case prefix that produced it)
    sem = SetSem()
    n = 0
    reported = {"corr": 0, "mon": 0}
    bad_case = False
    samples = []
    sha_ok = sha_n = 0
    maxleaf = 0
    mismatches = 0

    def close_case():
        nonlocal nontrivial
        if not case_ops:
            return
        h = hashlib.sha1("\n".join(case_ops).encode()).digest()
        if h in seen_cases:
            return
        seen_cases.add(h)
        if len(case_keys) >= 2 and (case_store or case_del):
            nontrivial += 1
            if len(samples) < 8 and (len(seen_cases) % 97 == 1 or len(samples) < 2):
                samples.append(" ; ".join(case_ops)[:400])

    with open(opsf, errors="replace") as fo, open(implf, errors="replace") as fi, open(mf, errors="replace") as fm:
        for op, a, b in zip(fo, fi, fm):
            op, a, b = op.rstrip("\n"), a.rstrip("\n"), b.rstrip("\n")
            n += 1
            f = op.split()
            if not f:
                continue
            k = f[0]
            dist[k] = dist.get(k, 0) + 1
            if k == "sha":
                sha_n += 1
                if a == b:
                    sha_ok += 1
                else:
                    ctx.tie_failures.append("Base/Sha512.lean disagrees with crypto.Hash on %s: go=%s lean=%s" % (op[:80], a, b))
                continue
            if k == "reset":
                close_case()
                case_ops, case_keys, case_store, case_del, bad_case = [], set(), False, False, False
                sem = SetSem()
                dist["npp=" + f[1]] = dist.get("npp=" + f[1], 0) + 1
            case_ops.append(op)
            if k in STORE_OPS:
                case_store = True
            # ---- monitors on the implementation alone
            hit = None
            if any(a.startswith(t) for t in HARD):
                hit = "hard failure of the real trie (lost node / panic): " + a[:120]
            exp = sem.step(f) if k != "reset" else None
            if k in ("add", "del"):
                if a == "true":
                    case_keys.add(f[1])
                    if k == "del":
                        case_del = True
                if hit is None and exp is not None and a != exp:
                    hit = "%s reported %s but membership in the resulting set says %s" % (k, a, exp)
            elif k in ("commit", "evict", "evictnc", "reload") and hit is None and exp is not None and a != exp:
                hit = "%s answered %s, expected %s" % (k, a, exp)
            elif k == "root" and hit is None:
                key = frozenset(sem.cur)
                if not key and a != "0" * 64:
                    hit = "RootHash of the empty set is not the zero digest: " + a
                prev = roots.get(key)
                if prev is None:
                    roots[key] = (a, list(case_ops) if len(roots) < 20000 else [])
                elif prev[0] != a and not bad_case:
                    hit = "RootHash is not a function of the element set: %s here, %s for the same set reached by another history" % (a, prev[0])
                    if reported["mon"] < 3:
                        reported["mon"] += 1
                        ctx.violation("monitor: " + hit, {"kind": "monitor", "ops": prev[1] + list(case_ops), "impl_out": a, "other_root": prev[0],
                                                          "set": sorted(key), "harness": harness}, found_input=True)
                    bad_case = True
                    hit = None
            elif k == "stats" and hit is None:
                p = a.split()
                if len(p) == 3 and p[1].isdigit():
                    maxleaf = max(maxleaf, int(p[1]))
                    if int(p[1]) != len(sem.cur):
                        hit = "GetStats.LeafCount %s differs from the size of the resulting set %d" % (p[1], len(sem.cur))
            if hit and not bad_case and reported["mon"] < 3:
                reported["mon"] += 1
                ctx.violation("monitor: " + hit, {"kind": "monitor", "ops": list(case_ops), "impl_out": a, "harness": harness}, found_input=True)
                bad_case = True
            # ---- correspondence with the proved model
            if a != b:
                mismatches += 1
                if not bad_case and reported["corr"] < 3:
                    reported["corr"] += 1
                    ctx.violation("real trie differs from the proved model (Model.MerkleTrie) on `%s`" % op[:80],
                                  {"kind": "correspondence", "driver": "model", "ops": list(case_ops), "index": n - 1, "impl_out": a[:2000], "model_out": b[:2000],
                                   "harness": harness}, found_input=True)
                bad_case = True
    close_case()
    if mismatches > 3:
        ctx.notes.append("%d mismatching lines in total" % mismatches)
    ctx.cov["evaluations"] += n
    ctx.cov["distinct_nontrivial"] += nontrivial
    ctx.cov["samples"] += samples
    dist["cases_distinct"] = dist.get("cases_distinct", 0) + len(seen_cases)
    dist["distinct_sets_with_root"] = len(roots)
    dist["max_leaf_count"] = maxleaf
    dist["sha_vectors_checked"] = sha_ok
    if corpus:
        dist["corpus_lines"] = dist.get("corpus_lines", 0) + n
    if sha_n == 0 and replay_ops is None:
        ctx.tie_failures.append("no sha validation vectors were produced")
    sp = os.path.join(ctx.work, "c17.stats")
    if os.path.exists(sp):
        try:
            st = json.load(open(sp))
            for kk, v in st.get("counters", {}).items():
                dist["impl_" + kk] = dist.get("impl_" + kk, 0) + v
            dist["impl_cases_evicting_allocation_page_without_reload"] = dist.get("impl_cases_evicting_allocation_page_without_reload", 0) + len(st.get("armed_cases") or [])
        except Exception as ex:  # noqa
            ctx.notes.append("could not read c17.stats: %s" % ex)


def replay(ctx, path):
    common.std_replay(ctx, path, run)
