"""C25 — rewards accounting distributes exactly the rewards rate.
Ties: T (go2lean → Gen/Rewards.lean, theorems about the regenerated NextRewardsState) + C (real function vs closed-form spec and vs Gen)."""
import common

def trivial(op):
    f = op.split()
    return f[0] == "next" and f[-1] == "0" and f[4] != f[5]   # no units and no refresh: nothing happens

def monitor(op, out):
    """Property predicate on the implementation output alone."""
    f = op.split()
    if f[0] != "next" or out.startswith("PANIC"):
        return None
    lvl, rate, res, recalc, r, minb, iv, pend, fix, pool, units = [int(x) for x in f[1:]]
    o = [int(x) for x in out.split()]
    nl, nr, nres, nrec = o
    M = 1 << 64
    if units == 0:
        if (nl, nres) != (lvl, res):
            return "level/residue changed without reward units"
        return None
    rr = nr if fix else rate
    tot = rr + res
    if tot < M and lvl + tot // units < M:
        if not ((nl - lvl) * units + nres == tot and 0 <= nres < units and nl >= lvl):
            return "distributed amount differs from rate+residue: Δlevel·units+residue' = %d, rate+residue = %d" % ((nl - lvl) * units + nres, tot)
    elif (nl, nres) != (lvl, res):
        return "level/residue changed although the sums overflow"
    if r == recalc:
        floor = minb + res if pend and minb + res < M else (pool if pend else minb)
        if nr * iv > max(pool - floor, 0):
            return "refreshed rate·interval exceeds pool above its floor"
    elif (nr, nrec) != (rate, recalc):
        return "rate or recalculation round changed outside the recalculation round"
    return None

def run(ctx, replay_ops=None):
    ctx.overlay()
    ctx.assumptions += ["all operands < 2^64 (InRange hypothesis)", "RewardsRateRefreshInterval > 0 (true of every consensus version; Go's divide-by-zero panic is not modelled by the translator)",
                        "the logger calls of NextRewardsState have no effect on the result (erased by the translator)"]
    ok_gen, _ = ctx.go2lean(["Rewards"])
    proved = ok_gen and ctx.prove(["AlgoVerif.Props.C25"])
    okb, out = ctx.lean_build(["c25"])
    if not okb:
        raise RuntimeError("spec driver does not build: " + out[-800:])
    drivers = [("c25", [], "spec")]
    if ok_gen:
        okg, _ = ctx.lean_build(["gen_rewards"])
        if okg:
            drivers.append(("gen_rewards", [], "gen"))
        else:
            ctx.tie_failures.append("generated definitions (Gen/Rewards.lean) do not compile into the gen driver")
    env = {} if proved else {"VERIF_BUDGET_SCALE": "800" if ctx.tier == "quick" else "300"}
    ctx.cov["rule"] = ("seeded boundary-biased states/params: recalculation round hit or ±2, pool at/around its floor, units in {0,1,2,3,…,rate+residue(+1)}, "
                       "all four flag combinations, realistic magnitudes 30%; plus WithUpdatedRewards operands; trivial = no units and no refresh")
    common.correspondence(ctx, pkg="./data/bookkeeping", test="TestVerifC25", name="c25", drivers=drivers, trivial=trivial, env=env,
                          monitor=monitor, what="rewards state differs from the closed-form specification", replay_ops=replay_ops)

def replay(ctx, path):
    common.std_replay(ctx, path, run)
