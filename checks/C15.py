"""C15 — A catchpoint label commits to a unique ledger state.

Ties (all C, byte-identical through SHA-512/256 written in Lean):
  * leaves : real AccountHashBuilderV6 / ResourcesHashBuilderV6 / KvHashBuilderV6 / apps.MakeBoxKey  vs  Model.CatchpointHash
  * labels : real CatchpointLabelMakerV6/V7/Current.buffer() + MakeLabel                            vs  Model.CatchpointHash
  * states : tiny real ledgers differing in one box → real catchpoint file → real catchup accessor → trie root, totals, label
Property monitor (on the implementation's outputs alone): two generated entries / label component tuples /
ledger states with different content must not get the same leaf / buffer / label.  The kv boundary-shift class
(same key‖value concatenation, theorem `state_label_inj_false`) is the KNOWN finding F2; any other collision is a
hard violation."""
import os
import common

HARNESS_LEAF = {"pkg": "./ledger/store/trackerdb", "test": "TestVerifC15", "name": "c15"}
HARNESS_LABEL = {"pkg": "./ledger/ledgercore", "test": "TestVerifC15Label", "name": "c15label"}
HARNESS_LEDGER = {"pkg": "./ledger", "test": "TestVerifC15Ledger", "name": "c15ledger"}
KNOWN_KEY = {"kind": "kv-boundary-shift"}


def _b(h):
    return "" if h == "_" else h


def leaf_content(op, out):
    """(content, leaf) of a leaf op as the implementation answered it, or None (error return / not a leaf)."""
    f, o = op.split(), out.split()
    if not f or not o or o[0] in ("err", "bad-op", "PANIC"):
        return None
    if f[0] == "acct" and len(f) == 5:
        return ("acct", f[1], _b(f[4])), o[-1]
    if f[0] == "res" and len(f) == 7:
        kind = "asset" if f[1] == "1" else ("app" if f[2] == "1" else None)
        return ("res", kind, f[3], int(f[4]), _b(f[6])), o[-1]
    if f[0] == "kv" and len(f) == 3:
        return ("kv", _b(f[1]), _b(f[2])), o[-1]
    if f[0] == "sw" and len(f) == 5:
        # length sweep: (kind, seed, len, mutated position) expands to pairwise different (addr, cidx, encoded) triples
        return ("sw", f[1], int(f[2]), int(f[3]), f[4]), o[-1]
    if f[0] == "boxkv" and len(f) == 4 and len(o) == 2:
        return ("kv", _b(o[0]), _b(f[3])), o[-1]          # key as built by the real MakeBoxKey
    return None


def is_kv_shift(c1, c2):
    return c1[0] == "kv" and c2[0] == "kv" and c1 != c2 and c1[1] + c1[2] == c2[1] + c2[2]


def describe(c):
    if c[0] == "acct":
        return "account %s… record %s" % (c[1][:8], c[2][:24])
    if c[0] == "sw":
        return "%s entry with a %d-byte encoding (sweep seed %d), %s" % (c[1], c[3], c[2],
                                                                         "unmodified" if c[4] == "-" else "byte %s of the encoding changed" % c[4])
    if c[0] == "res":
        return "%s resource %d of %s… record (%d bytes) %s…%s" % (c[1], c[3], c[2][:8], len(c[4]) // 2, c[4][:16], c[4][-16:])
    key = bytes.fromhex(c[1])
    if key[:3] == b"bx:" and len(key) >= 11:
        return "box %r of app %d = %r" % (key[11:], int.from_bytes(key[3:11], "big"), bytes.fromhex(c[2]))
    return "kv %s = %s" % (c[1] or "_", c[2] or "_")


def leaf_monitor(ctx, ops, impl):
    groups = {}
    for op, out in zip(ops, impl):
        r = leaf_content(op, out)
        if r is None:
            continue
        c, leaf = r
        groups.setdefault(leaf, {}).setdefault(c, op)
    shift_pairs, hard = [], 0
    for leaf, cs in groups.items():
        if len(cs) < 2:
            continue
        items = list(cs.items())
        for i in range(len(items)):
            for j in range(i + 1, len(items)):
                (c1, o1), (c2, o2) = items[i], items[j]
                if is_kv_shift(c1, c2):
                    shift_pairs.append((c1, o1, c2, o2, leaf))
                    continue
                hard += 1
                if hard <= 3:
                    ctx.violation("two different entries get the same trie leaf %s: %s  vs  %s" % (leaf, describe(c1), describe(c2)),
                                  {"kind": "leaf-collision", "ops": [o1, o2], "leaf": leaf, "harness": HARNESS_LEAF}, found_input=True)
    shifts = len(shift_pairs)
    d = ctx.cov["distribution"]
    d["leaf:distinct-leaves"] = len(groups)
    d["leaf:kv-boundary-shift-collisions"] = shifts
    d["leaf:other-collisions"] = hard
    if shift_pairs:
        # report one representative: the design-time witness (two boxes of app 77, non-empty names and contents) when present, else the shortest
        shift_pairs.sort(key=lambda t: (0 if t[1].startswith("boxkv 77 ") and t[3].startswith("boxkv 77 ") else 1,
                                        1 if "_" in (t[1] + t[3]) else 0, len(t[1]) + len(t[3]), t[1], t[3]))
        c1, o1, c2, o2, leaf = shift_pairs[0]
        ctx.violation("kv boundary shift: %s and %s have the same pre-image key‖value, hence the same trie leaf %s (real KvHashBuilderV6); "
                      "%d such pairs among the generated entries" % (describe(c1), describe(c2), leaf, shifts),
                      {"kind": "kv-boundary-shift", "ops": [o1, o2], "leaf": leaf, "harness": HARNESS_LEAF},
                      found_input=True, match_key=KNOWN_KEY)
    return shifts, hard


def label_monitor(ctx, ops, impl):
    bybuf, bylabel, hard = {}, {}, 0
    for op, out in zip(ops, impl):
        f, o = op.split(), out.split()
        if len(f) != 9 or f[0] != "label" or len(o) != 2:
            continue
        ver = int(f[1])
        comps = (ver, f[3], f[4], f[5]) + ((f[6],) if ver >= 7 else ()) + ((f[7], f[8]) if ver >= 8 else ())
        for table, key, content in ((bybuf, (ver, o[0]), comps), (bylabel, o[1], (f[2],) + comps)):
            prev = table.setdefault(key, (content, op))
            if prev[0] != content:
                hard += 1
                if hard <= 3:
                    ctx.violation("two different label component tuples give the same %s" % ("label buffer" if table is bybuf else "label " + o[1]),
                                  {"kind": "label-collision", "ops": [prev[1], op], "harness": HARNESS_LABEL}, found_input=True)
    ctx.cov["distribution"]["label:distinct-buffers"] = len(bybuf)
    ctx.cov["distribution"]["label:collisions"] = hard
    return hard


def ledger_monitor(ctx, ops, impl):
    """ops: ledger <name> <value>; impl: round=.. root=.. totals=.. label=.. boxes=key:value,.."""
    seen, shifts, hard = {}, 0, 0
    app_seen, app_n = {}, 0
    for op, out in zip(ops, impl):
        kv = dict(x.split("=", 1) for x in out.split() if "=" in x)
        if op.startswith("appstate "):
            # one-application states through the real catchup accessor: different ops = different states
            f = op.split()
            if "label" not in kv or kv.get("owner") != f[2]:
                ctx.tie_failures.append("ledger harness could not restore the application state of `%s`: %s" % (op[:120], out[:200]))
                continue
            app_n += 1
            prev = app_seen.setdefault(kv["label"], (op, kv))
            if prev[0] != op:
                hard += 1
                if hard <= 3:
                    pf = prev[0].split()
                    diff = ("global-state value owner=%s vs %s" % (pf[2], f[2]) if pf[2] != f[2] else
                            "GlobalStateSchema.NumByteSlice %s vs %s" % (pf[3], f[3]) if pf[3] != f[3] else "UpdateRound %s vs %s" % (pf[4], f[4]))
                    ctx.violation("two states that differ in one application (%s; application row of %s encoded bytes) restore through the real catchup "
                                  "accessor to the same balances trie root %s and the same catchpoint label %s"
                                  % (diff, kv.get("size"), kv.get("root"), kv["label"]),
                                  {"kind": "state-label-collision", "ops": [prev[0], op], "label": kv["label"], "harness": HARNESS_LEDGER},
                                  found_input=True)
            continue
        if "label" not in kv or "boxes" not in kv:
            ctx.tie_failures.append("ledger harness could not build/restore the ledger for `%s`: %s" % (op, out[:200]))
            continue
        boxes = tuple(sorted(kv["boxes"].split(","))) if kv["boxes"] else ()
        f = op.split()
        want = "62783a"  # "bx:" — the restored ledger must contain exactly the box the op asked for
        if len(boxes) != 1 or not boxes[0].startswith(want) or not boxes[0].endswith(_b(f[1]) + ":" + (f[2])):
            ctx.tie_failures.append("ledger harness: restored boxes %s are not the requested box of `%s`" % (boxes, op))
            continue
        prev = seen.setdefault(kv["label"], (boxes, op, kv))
        if prev[0] != boxes:
            concat = lambda bs: sorted(_b(k) + _b(v) for k, v in (b.split(":") for b in bs))
            if concat(prev[0]) == concat(boxes):
                shifts += 1
                ctx.violation("two real ledgers that differ in one box (%s vs %s) restore from their catchpoint files to the same trie root %s, "
                              "totals and catchpoint label %s" % (prev[0][0], boxes[0], kv.get("root"), kv["label"]),
                              {"kind": "kv-boundary-shift", "ops": [prev[1], op], "label": kv["label"], "harness": HARNESS_LEDGER},
                              found_input=True, match_key=KNOWN_KEY)
            else:
                hard += 1
                ctx.violation("two different real ledgers get the same catchpoint label %s" % kv["label"],
                              {"kind": "ledger-label-collision", "ops": [prev[1], op], "harness": HARNESS_LEDGER}, found_input=True)
    d = ctx.cov["distribution"]
    d["ledger:states"] = len(ops)
    d["ledger:application-states"] = app_n
    d["ledger:distinct-labels"] = len(seen)
    d["ledger:kv-boundary-shift-collisions"] = shifts
    d["ledger:other-collisions"] = hard


def trivial(op):
    f = op.split()
    if f[0] == "kv":
        return f[1] == "_" and f[2] == "_"
    if f[0] == "boxkv":
        return f[2] == "_" and f[3] == "_"
    return False


def run(ctx, replay_ops=None):
    ctx.overlay()
    ctx.assumptions += [
        "hash as a parameter: theorems that need it assume no collision of the truncated SHA-512/256 digest on the pre-images of the two states compared (hypothesis NoCollisionOn / Function.Injective), never an axiom",
        "label level only (label_commits_partial): the label hash does not collide on the two buffers; the Merkle-trie root of the two leaf lists commits to the leaf multiset (root-injectivity is not proved here; C17 proves the converse direction)",
        "Go-type facts used as hypotheses: addresses and digests are 32 bytes, creatable and app indexes are uint64",
        "contents are compared as encoded records: injectivity of the canonical msgpack encodings (records, totals) is C40's subject",
        "known finding F2: the kv pre-image key‖value is not injective (state_label_inj_false); states related by a box name/content boundary shift are outside the proved part",
    ]
    proved = ctx.prove(["AlgoVerif.Props.C15"])
    ok, out = ctx.lean_build(["c15"])
    if not ok:
        raise RuntimeError("driver c15 does not build: " + out[-800:])
    env = {} if proved else {"VERIF_BUDGET_SCALE": "1000" if ctx.tier == "quick" else "300"}
    ctx.cov["rule"] = ("leaf ops: real BaseAccountData / ResourcesData records (all shapes: holding, params, both, empty-flag) and boxes in the real "
                       "bx:‖app‖name key format, each with siblings differing in exactly one component (address, creatable index incl. byte-swapped, "
                       "one record field, same low 32 affinity bits), every box with both key/value boundary shifts, ONE pre-image presented under all four "
                       "kinds, arbitrary-byte records; real application rows (program + global state) of ~0.5/1/2/4 KB with siblings differing only in the tail of "
                       "the encoding; length sweep `sw`: EVERY encoded length 0..4200 through every builder, unmodified and with single-byte changes in the "
                       "tail (all of the last 48 bytes around 32..4096 ± 41; all of the last 64 everywhere in thorough), the body and byte 0; label ops: random digests/totals under the three label versions with one-bit, swapped-digest and "
                       "changed-totals siblings; ledger ops: real ledgers differing in one box (the shift pair and equal-size controls) and one-application states "
                       "(application row 984..1064, 2048, 4096 and seeded sizes) differing in the last global value / a schema count / the update round, "
                       "restored through the real catchup accessor. "
                       "An op is trivial when key/name and value are both empty; distinct = distinct op lines")
    leaf_ops = label_ops = ledger_ops = None
    if replay_ops is not None:
        leaf_ops = [o for o in replay_ops if o.split()[0] in ("acct", "res", "kv", "boxkv", "sw")]
        label_ops = [o for o in replay_ops if o.split()[0] == "label"]
        ledger_ops = [o for o in replay_ops if o.split()[0] in ("ledger", "appstate")]

    # tie 1: leaves
    if replay_ops is None or leaf_ops:
        r = common.correspondence(ctx, drivers=[("c15", [], "model")], trivial=trivial, env=env, model_is_spec=False,
                                  what="trie leaf computed by the real hash builder differs from the model the theorems are about",
                                  replay_ops=leaf_ops, **HARNESS_LEAF)
        if r:
            leaf_monitor(ctx, r[0], r[1])
    # tie 2: label buffer / label
    if replay_ops is None or label_ops:
        r = common.correspondence(ctx, drivers=[("c15", [], "model")], env=env, model_is_spec=False,
                                  what="label buffer / label computed by the real label maker differs from the model the theorems are about",
                                  replay_ops=label_ops, **HARNESS_LABEL)
        if r:
            label_monitor(ctx, r[0], r[1])
    # tie 3: real ledgers → real catchpoint → real catchup accessor (monitor only: the trie is C17's model)
    if replay_ops is None or ledger_ops:
        e = dict(env)
        if ledger_ops:
            rp = os.path.join(ctx.work, "c15ledger.replay")
            open(rp, "w").write("\n".join(ledger_ops) + "\n")
            e["VERIF_REPLAY"] = rp
        rc, out = ctx.go_test(HARNESS_LEDGER["pkg"], HARNESS_LEDGER["test"], env=e, timeout=1800)
        opsf, implf = os.path.join(ctx.work, "c15ledger.ops"), os.path.join(ctx.work, "c15ledger.impl")
        if rc != 0 or not os.path.exists(opsf):
            ctx.tie_failures.append("harness %s %s failed to run (rc=%d): %s" % (HARNESS_LEDGER["pkg"], HARNESS_LEDGER["test"], rc, out[-600:]))
        else:
            ops, impl = ctx.read_lines(opsf), ctx.read_lines(implf)
            ctx.account(ops)
            ledger_monitor(ctx, ops, impl)


    _prioritise(ctx)


def _prioritise(ctx):
    """Number the replay files so that violations with a concrete failing pair come first (C15-<seed>-0.json …)."""
    vs = ctx.violations
    order = sorted(range(len(vs)), key=lambda i: (0 if vs[i]["found_input"] else 1, i))
    if order == list(range(len(vs))):
        return
    paths = [v["path"] for v in vs]
    for i in range(len(vs)):
        os.rename(paths[i], paths[i] + ".tmp")
    new = []
    for k, i in enumerate(order):
        os.rename(paths[i] + ".tmp", paths[k])
        v = dict(vs[i]); v["path"] = paths[k]
        new.append(v)
    ctx.violations[:] = new


def replay(ctx, path):
    common.std_replay(ctx, path, run)
