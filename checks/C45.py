"""C45 — overflow-checked arithmetic is exact.  Ties: T (go2lean → Gen/Basics.lean) + C (real helpers vs Spec.Arith and vs Gen)."""
import common

def trivial(op):
    f = op.split()
    return len(f) >= 3 and all(x in ("0", "1") for x in f[-2:])

def run(ctx, replay_ops=None):
    ctx.overlay()
    ctx.assumptions += ["operands are in range of their Go type (stated as hypotheses a < 2^w)",
                        "Go's division-by-zero panic is not modelled by the translator; the guarded divisions of OMul/muldiv/Mul2div are proved unreachable-at-zero only through the exactness theorems"]
    ok_gen, _ = ctx.go2lean(["Basics"])
    proved = ok_gen and ctx.prove(["AlgoVerif.Props.C45"])
    drivers = [("c45", [], "spec")]
    okb, out = ctx.lean_build(["c45"])
    if not okb:
        raise RuntimeError("spec driver does not build: " + out[-800:])
    if ok_gen:
        okg, _ = ctx.lean_build(["gen_basics"])
        if okg:
            drivers.append(("gen_basics", [], "gen"))
        else:
            ctx.tie_failures.append("generated definitions (Gen/Basics.lean) do not compile into the gen driver")
    env = {}
    if not proved:
        # proof or translation broke: search harder for a concrete failing operand
        env["VERIF_BUDGET_SCALE"] = "1000" if ctx.tier == "quick" else "300"
    ctx.cov["rule"] = ("ops = all 8-bit operand pairs (thorough; a 1/5 sample plus all boundary rows in quick) of the six generic helpers, "
                       "boundary×boundary 64-bit grids for every helper, and seeded boundary-biased random operands; "
                       "an op is trivial when both last operands are in {0,1}; distinct = distinct op lines")
    common.correspondence(ctx, pkg="./data/basics", test="TestVerifC45", name="c45", drivers=drivers, trivial=trivial, env=env,
                          what="overflow helper result differs from exact arithmetic", replay_ops=replay_ops)

def replay(ctx, path):
    common.std_replay(ctx, path, run)
