#!/usr/bin/env python3
"""bin/seed_table.py: regenerate the table of seeded changes in DESIGN.md (between the SEEDS markers) from seeded/*/meta.json."""
import json, glob, os, re
rows = []
for d in sorted(glob.glob('/verif/seeded/*/')):
    sid = os.path.basename(d.rstrip('/'))
    try: m = json.load(open(d + 'meta.json'))
    except Exception: continue
    cr = m.get('check_result', {}); ca = m.get('check_result_after_strengthening')
    first = 'caught' + ('' if cr.get('with_failing_input') else ' (no failing input)') if cr.get('caught') else 'MISSED'
    if ca is None:
        later = '' if cr.get('caught') and cr.get('with_failing_input') else 'being addressed'
    else:
        later = ('caught' + ('' if ca.get('with_failing_input') else ' (no failing input)')) if ca.get('caught') else 'still missed'
    summ = re.sub(r'\s+', ' ', str(m.get('summary', '')))[:230].replace('|', '/')
    rows.append('| %s | %s | %s | %s |' % (sid, summ, first, later))
tab = '| seed | change (one line) | first evaluation | after strengthening |\n|---|---|---|---|\n' + '\n'.join(rows) + '\n'
p = '/verif/DESIGN.md'; s = open(p).read()
b, e = '<!-- SEEDS-BEGIN -->\n', '<!-- SEEDS-END -->\n'
if b in s:
    s = s[:s.index(b) + len(b)] + tab + s[s.index(e):]
    open(p, 'w').write(s)
n = len(rows); miss = sum(1 for r in rows if '| MISSED |' in r)
print('%d seeds, %d missed at first evaluation' % (n, miss))
