#!/usr/bin/env python3
import json, sys
import glob, os
class registry: pass
ENABLED = set(open("/verif/checks/enabled.txt").read().split())
registry.CLAIMS = {os.path.basename(f)[:-5]: json.load(open(f)) for f in sorted(glob.glob("/verif/checks/claims/C*.json")) if os.path.basename(f)[:-5] in ENABLED}
registry.REASON_NOT_YET = "check not built yet in this session; planned (see DESIGN.md §6) — not claimed until its proof and tie run"
registry.REASONS = json.load(open("/verif/checks/claims/not_applicable.json")) if os.path.exists("/verif/checks/claims/not_applicable.json") else {}
props = [json.loads(l)["id"] for l in open("/verif/properties.jsonl")]
baseline = json.load(open("/root/.vp/BASELINE.json"))["cmd"] if True else ""
m = {
 "version": 1,
 "setup_cmd": "bin/setup.sh",
 "hooks": {
   "guard": "verif",
   "enable": "go test -overlay /verif/build/overlay.json -tags verif (harness files are injected by the overlay; nothing is committed to /repo)",
   "baseline_off_cmd": baseline,
   "source_commits": [],
   "add_only": True,
 },
 "engines": [
   {"name": "lean-proofs", "path": "lean/AlgoVerif/Props", "serves_properties": sorted(registry.CLAIMS), "kind_free_text": "Lean 4 theorems over executable models; axioms audited per run"},
   {"name": "go2lean", "path": "tools/go2lean", "serves_properties": [p for p in sorted(registry.CLAIMS) if "go2lean" in registry.CLAIMS[p]["technique"]], "kind_free_text": "Go→Lean translator for the pure-integer subset; regenerates Gen/*.lean from /repo on every run"},
   {"name": "correspondence", "path": "harness", "serves_properties": sorted(registry.CLAIMS), "kind_free_text": "Go harnesses injected by -overlay run the real code; Lean drivers (lean/Driver) run the model on the same op lines; outputs diffed"},
 ],
 "checks": [],
 "not_applicable": [],
 "notes": "All checks: `bin/check <id> --tier quick|thorough`, replay with `bin/check <id> --replay <file>`. See DESIGN.md.",
}
for p in props:
    if p in registry.CLAIMS:
        c = registry.CLAIMS[p]
        m["checks"].append({
          "property_id": p,
          "quick_cmd": "bin/check %s --tier quick" % p,
          "thorough_cmd": "bin/check %s --tier thorough" % p,
          "evidence_file": "/verif/evidence/%s.json" % p,
          "replay_cmd_template": "bin/check %s --replay {path}" % p,
          "engine": "lean-proofs",
          "level_claimed": {"category": c["category"], "text": c["text"], "design_ref": c["design_ref"]},
          "level_note": c["note"],
          "technique": c["technique"],
        })
    else:
        m["not_applicable"].append({"property_id": p, "reason": getattr(registry, "REASONS", {}).get(p, registry.REASON_NOT_YET)})
json.dump(m, open("/verif/MANIFEST.json", "w"), indent=1)
print("claimed", len(m["checks"]), "not_applicable", len(m["not_applicable"]))
