#!/usr/bin/env python3
"""bin/keep_seed.py <seed-id e.g. c26-1> <PROP> <demo pkg dir> <confirm log> <try_seed log>: archive a confirmed seeded change under /verif/seeded/<PROP>-<n>/."""
import json, os, shutil, sys, glob
sid, prop, pkg, clog, tlog = sys.argv[1:6]
src = "/tmp/seed-%s/out" % sid
dst = "/verif/seeded/%s-%s" % (prop, sid.split("-")[-1])
os.makedirs(dst, exist_ok=True)
shutil.copy(os.path.join(src, "patch.diff"), dst)
demos = []
for f in glob.glob(os.path.join(src, "*.go")):
    shutil.copy(f, dst); demos.append(os.path.basename(f))
meta = {}
try: meta = json.load(open(os.path.join(src, "meta.json")))
except Exception as e: meta = {"note": "agent meta.json unreadable: %s" % e}
meta["property"] = prop
meta["demo_files"] = demos
meta["demo_goes_in"] = pkg
meta["lead_confirmation"] = {"how": "bin/confirm_seed.sh in a fresh scratch worktree of /repo HEAD: demo passes on unchanged code, fails with patch; package's existing tests pass with patch; go build ./... ok",
                             "log": open(clog).read()[-1500:]}
t = open(tlog).read()
meta["check_result"] = {"how": "bin/try_seed.sh patch.diff %s (private worktree + private /verif copy)" % prop,
                        "caught": "VIOLATION" in t, "with_failing_input": ("VIOLATION" in t and any(("VIOLATION" in l and "no-failing-input-found" not in l) for l in t.splitlines())),
                        "log": t[-2500:]}
json.dump(meta, open(os.path.join(dst, "meta.json"), "w"), indent=1)
print(dst, meta["check_result"]["caught"], meta["check_result"]["with_failing_input"])
