#!/bin/bash
# Build Algorand's libsodium fork by hand (no autotools in the sandbox) into /verif/build/sodium.
set -euo pipefail
REPO=${REPO:-/repo}
OUT=/verif/build/sodium
SRC=$REPO/crypto/libsodium-fork/src/libsodium
if [ -f $OUT/lib/libsodium.a ] && [ -f $OUT/include/sodium.h ]; then exit 0; fi
rm -rf $OUT; mkdir -p $OUT/include/sodium $OUT/lib $OUT/obj
cp $SRC/include/sodium.h $OUT/include/
cp -r $SRC/include/sodium/* $OUT/include/sodium/
cp $REPO/crypto/libsodium-fork/builds/msvc/version.h $OUT/include/sodium/version.h
cd $SRC
DEFS="-DCONFIGURED=1 -DNATIVE_LITTLE_ENDIAN=1 -DHAVE_TI_MODE=1 -DHAVE_WEAK_SYMBOLS=1 -DHAVE_ATOMIC_OPS=1 -DHAVE_EXPLICIT_BZERO=1 -DHAVE_MMAP=1 -DHAVE_MLOCK=1 -DHAVE_MPROTECT=1 -DHAVE_POSIX_MEMALIGN=1 -DHAVE_GETPID=1 -DHAVE_SYS_MMAN_H=1 -DHAVE_INLINE_ASM=1 -DDEV_MODE=0 -D_GNU_SOURCE -DSODIUM_STATIC=1"
find * -name '*.c' | sort | xargs -P 16 -I{} sh -c 'o=$(echo {} | tr "/" "_" | sed "s/\.c$/.o/"); gcc -O2 -c -fPIC '"$DEFS"' -I'"$OUT"'/include -I'"$OUT"'/include/sodium -I./include/sodium -I./include/sodium/private {} -o '"$OUT"'/obj/$o'
ar rcs $OUT/lib/libsodium.a $OUT/obj/*.o
rm -rf $OUT/obj
echo "libsodium built: $(ls -la $OUT/lib/libsodium.a)"
