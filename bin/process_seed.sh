#!/bin/bash
# bin/process_seed.sh <seed-id e.g. c30-1> <PROP> <pkg dir> <demo file> <run regex> [pkgtest-run-regex]
# lead-side pipeline for a seeded change delivered under /tmp/seed-<id>/out: confirm, evaluate with the property's check, archive, clean up.
set -u
SID=$1; PROP=$2; PKG=$3; DEMO=$4; RUN=$5; PKGRUN=${6:-.}
git -C /repo worktree remove --force /tmp/seed-$SID/repo >/dev/null 2>&1
/verif/bin/confirm_seed.sh /tmp/seed-$SID/out $PKG $DEMO "$RUN" "$PKGRUN" > /tmp/cs_$SID.log 2>&1
/verif/bin/try_seed.sh /tmp/seed-$SID/out/patch.diff $PROP > /tmp/ts_$SID.log 2>&1
python3 /verif/bin/keep_seed.py $SID $PROP $PKG /tmp/cs_$SID.log /tmp/ts_$SID.log > /tmp/ks_$SID.log 2>&1
echo "DONE $SID: $(cat /tmp/ks_$SID.log)"
