#!/bin/bash
# bin/confirm_seed.sh <out-dir with patch.diff + demo> <pkg dir rel. to repo> <demo file name> <-run regex> [pkgtest-run-regex]
# Confirms in a fresh scratch worktree: demo passes on unchanged code, fails with the patch; package's existing tests pass with the patch.
set -u
OUT=$(readlink -f $1); PKG=$2; DEMO=$3; RUN=$4; PKGRUN=${5:-.}
D=/tmp/cs-$$
mkdir -p $D && git -C /repo worktree add --detach $D/repo HEAD >/dev/null 2>&1
python3 /verif/bin/mkovl_min.py $D/repo $D/ovl >/dev/null
export GOFLAGS=-mod=readonly GOPROXY=off
cd $D/repo
cp $OUT/$DEMO $PKG/
echo "== demo on unchanged code (expect PASS)"; go test -overlay $D/ovl/overlay.json -vet=off -count=1 -run "$RUN" ./$PKG/ 2>&1 | tail -3
git apply $OUT/patch.diff || echo "PATCH FAILED TO APPLY"
echo "== demo with patch (expect FAIL)"; go test -overlay $D/ovl/overlay.json -vet=off -count=1 -run "$RUN" ./$PKG/ 2>&1 | grep -E "^(--- FAIL|FAIL|ok|panic)" | head -5
rm $PKG/$DEMO
echo "== existing package tests with patch (expect ok)"; go test -overlay $D/ovl/overlay.json -vet=off -count=1 -run "$PKGRUN" ./$PKG/ 2>&1 | tail -3
echo "== build"; go build -overlay $D/ovl/overlay.json ./... 2>&1 | tail -3
cd /; git -C /repo worktree remove --force $D/repo; rm -rf $D; git -C /repo worktree prune
