#!/bin/bash
# MANIFEST.setup_cmd: build everything the checks need, offline, from files on disk.
set -uo pipefail
cd /verif
export GOFLAGS=-mod=readonly GOPROXY=off
bin/build_sodium.sh || exit 1
python3 lib/overlay.py >/dev/null || exit 1
# regenerate the translated / extracted Lean inputs from the current tree (ties T and F)
python3 bin/regen.py || echo "WARN: regeneration reported problems (the affected checks will report them)"
# Lean: build every property module and the drivers (a failure here is reported again by the property's own check)
( cd lean && lake build 2>&1 | tail -5 )
( cd lean && lake build $(python3 - <<'PY'
import re
print(" ".join(re.findall(r'name = "([a-z0-9_]+)"', open('/verif/lean/lakefile.toml').read())))
PY
) 2>&1 | tail -3 )
# warm the Go build cache for the harnessed packages
PKGS=$(cd /verif/harness && find . -name 'zz_verif_*_test.go' -printf '%h\n' | sort -u)
( cd /repo && go test -overlay /verif/build/overlay.json -tags verif -vet=off -count=1 -run '^$' $PKGS 2>&1 | tail -5 )
# the C46 check runs a short pass under the race detector: build the instrumented package once here
( cd /repo && timeout 1500 go test -race -overlay /verif/build/overlay.json -tags verif -vet=off -count=1 -run '^$' ./daemon/kmd/wallet/driver 2>&1 | tail -2 )
exit 0
