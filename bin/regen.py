#!/usr/bin/env python3
"""Regenerate all Gen/*.lean files from the current /repo tree (used by setup; each check regenerates its own)."""
import json, os, subprocess, sys
sys.path.insert(0, "/verif/lib")
import overlay
ovl = overlay.build_overlay()
env = dict(os.environ, GOFLAGS="-mod=readonly", GOPROXY="off")
overlay.mklake()
cfg = "/verif/build/go2lean.all.json"
json.dump(overlay.go2lean_config(), open(cfg, "w"))
rc = subprocess.call(["go", "run", "-overlay", ovl, "./zz_verif_tools/go2lean", "-config", cfg,
                      "-out", "/verif/lean/AlgoVerif/Gen", "-overlay", ovl], cwd="/repo", env=env)
sys.exit(rc)
