#!/bin/bash
# bin/try_seed.sh <patch.diff> <Cxx> [tier]  — run a check against a PRIVATE copy of /repo with the patch applied
# (isolated: private worktree + private copy of /verif; /repo itself is never touched). Prints the check's verdict lines.
set -u
PATCH=$(readlink -f "$1"); PROP=$2; TIER=${3:-quick}
D=/tmp/ts-$$-$PROP
mkdir -p $D
git -C /repo worktree add --detach $D/repo HEAD >/dev/null 2>&1 || { echo "worktree failed"; exit 2; }
( cd $D/repo && git apply "$PATCH" ) || { echo "PATCH DOES NOT APPLY"; git -C /repo worktree remove --force $D/repo; rm -rf $D; exit 2; }
rsync -a --exclude build/run --exclude replays --exclude .git /verif/ $D/verif/
( cd $D/verif && VERIF_DIR=$D/verif REPO=$D/repo timeout 3600 bin/check $PROP --tier $TIER 2>&1 | grep -E "VIOLATION|KNOWN-FINDING|PROOF-BROKEN|INTERNAL" | cut -c1-400 | head -12; echo "rc=${PIPESTATUS[0]}" )
FIRST=$(ls $D/verif/replays/$PROP-*.json 2>/dev/null | head -1)
if [ -n "$FIRST" ]; then echo "--- first replay:"; python3 -c "
import json,sys; r=json.load(open('$FIRST')); print({k:(str(v)[:300]) for k,v in r.items() if k in ('what','ops','impl_out','model_out','found_failing_input','broken_theorems','broken_ties','kind')})"; fi
git -C /repo worktree remove --force $D/repo >/dev/null 2>&1; rm -rf $D; git -C /repo worktree prune
