#!/usr/bin/env python3
"""mkovl_min.py <repo-worktree> <outdir>: write <outdir>/overlay.json that only points the cgo libsodium paths of
<repo>/crypto/{curve25519,batchverifier,vrf}.go at /verif/build/sodium (no harness files). Lets any worktree build and test
crypto-dependent packages offline:  go test -overlay <outdir>/overlay.json ./agreement/..."""
import json, os, re, sys
repo, out = os.path.abspath(sys.argv[1]), os.path.abspath(sys.argv[2])
os.makedirs(out, exist_ok=True)
rep = {}
for name in ("curve25519.go", "batchverifier.go", "vrf.go"):
    src = os.path.join(repo, "crypto", name)
    txt = re.sub(r"\$\{SRCDIR\}/libs/[a-z0-9]+/[a-z0-9]+", "/verif/build/sodium", open(src).read())
    dst = os.path.join(out, name)
    open(dst, "w").write(txt)
    rep[src] = dst
json.dump({"Replace": rep}, open(os.path.join(out, "overlay.json"), "w"), indent=1)
print(os.path.join(out, "overlay.json"))
